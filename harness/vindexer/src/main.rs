//! Engine `indexer` (property C18): the real `ckb_indexer` (RocksDB store, `append` /
//! `rollback`, the RPC query handle) follows the main chain of a builder node through generated
//! histories with reorgs exactly as `IndexerSyncService::try_loop_sync` decides, and every answer
//! is compared with direct filters over a reference model folded from the harness's own copies
//! of the blocks.
//!
//! The rich-indexer (`ckb_rich_indexer`: `AsyncRichIndexer` over sqlx + a private in-memory
//! SQLite database, hook H8b) follows a subset of the same histories with the same rule and is
//! judged by the same model under its own documented semantics (rich.rs; counters and violation
//! signatures `rich.*`). A few histories appended after the standard ones use a workload with
//! lock / type args and data made of 0xff bytes (both indexers follow them).
//!
//! `vindexer [--seed S] [--tier quick|thorough] [histories=N] [budget_s=N] [workers=N]
//!  [rich_mod=9 rich_per_mod=1|2 (rich_mod=0: no rich part)] [rich_budget_pct=N] [boundary_histories=N]
//!  [rich_keys_per_tip=N] [rich_keys_per_step=N] [only=HISTORY]`

mod keys;
mod model;
mod oracle;
mod rich;
mod workload;

use ckb_indexer::verif::VerifIndexer;
use ckb_types::core::BlockView;
use ckb_types::prelude::*;
use model::{H, Model};
use serde_json::{Value, json};
use std::collections::{BTreeMap, HashSet, VecDeque};
use std::sync::{Arc, Mutex};
use std::time::{Duration, Instant};
use vbase::{Args, KnownFindings, Report, Rng, Tier};
use vnode::consensus::{self, ChainParams, EpochMode};
use vnode::model::{h, hx};
use vnode::treegen::{TreeCfg, TreeGen};

const RULE: &str = "generated chain histories (forks, reorgs up to the retention depth, outputs sharing / differing in lock and type scripts with common args prefixes and trailing zero bytes, data of 0..50 bytes, cells created and consumed in one block, the same transaction at different heights on different forks) are followed by the real indexer with the decision rule of IndexerSyncService::try_loop_sync; after every append / rollback and at every followed tip get_indexer_tip, get_cells, get_cells_capacity and get_transactions (ungrouped / grouped) are compared with direct filters over a model folded from the harness's own block copies, for generated search keys (every script of the model plus absent / derived ones; lock / type; exact / prefix / default / partial; every filter kind with boundaries on real values; with_data; asc / desc; page sizes 1,2,3,7 with cursors: concatenated pages == full answer); append(b);rollback() must restore the raw key-value store and every answer; distinct = hash(method, search key JSON, indexer tip). The rich-indexer (ckb-rich-indexer: AsyncRichIndexer over sqlx + in-memory SQLite, hook H8b) follows a subset of the same histories with the same rule and is judged by the same model filters under its documented semantics (partial script search, all filters in get_transactions, opaque cursors); append(b);rollback() must restore every answer; counters rich.*, distinct = hash(rich, method, search key JSON, indexer tip)";

fn panic_store() -> &'static Mutex<BTreeMap<String, String>> {
    static S: std::sync::OnceLock<Mutex<BTreeMap<String, String>>> = std::sync::OnceLock::new();
    S.get_or_init(|| Mutex::new(BTreeMap::new()))
}

thread_local! {
    /// set once the current history followed a reorg deeper than the retention
    static LEFT_RETENTION: std::cell::Cell<bool> = const { std::cell::Cell::new(false) };
}

fn thread_key() -> String {
    format!("{:?}", std::thread::current().id())
}

struct Hist {
    hi: u64,
    tg: TreeGen,
    idx: VerifIndexer,
    rng: Rng,
    wl: workload::Workload,
    keep_num: u64,
    prune_interval: u64,
    /// highest tip the indexer ever had (pruning is relative to it)
    hi_water: u64,
    /// true until a reorg deeper than the retention was followed
    assert: bool,
    info: Value,
    models: VecDeque<(H, Arc<Model>)>,
    keys_per_tip: usize,
    keys_per_step: usize,
    stopped: bool,
    /// the rich-indexer following the same history (a subset of the histories)
    rich: Option<RichHist>,
}

/// State of the rich-indexer (SQL) part of one history.
struct RichHist {
    ri: rich::RichIdx,
    rng: Rng,
    keys_per_tip: usize,
    keys_per_step: usize,
    rollback_keys: usize,
    stopped: bool,
}

impl Hist {
    fn block(&self, x: &H) -> Arc<BlockView> {
        Arc::clone(&self.tg.rc.get(x).block)
    }

    /// The model at `tip`: a fold of the harness's copies of the blocks genesis..=tip.
    fn model_at(&mut self, tip: &H) -> Arc<Model> {
        if let Some((_, m)) = self.models.iter().find(|(x, _)| x == tip) {
            return Arc::clone(m);
        }
        let rec = self.tg.rc.get(tip);
        let parent = rec.parent;
        let m = if rec.number > 0 && self.models.iter().any(|(x, _)| *x == parent) {
            let pm = self.models.iter().find(|(x, _)| *x == parent).unwrap().1.clone();
            let mut m = (*pm).clone();
            m.apply(&rec.block);
            m
        } else {
            let path = self.tg.rc.path(tip);
            let blocks: Vec<Arc<BlockView>> = path.iter().map(|x| self.block(x)).collect();
            Model::fold(blocks.iter().map(|b| b.as_ref()))
        };
        let m = Arc::new(m);
        self.models.push_back((*tip, Arc::clone(&m)));
        if self.models.len() > 24 {
            self.models.pop_front();
        }
        m
    }

    fn idx_tip(&self) -> Option<(u64, H)> {
        self.idx.tip().expect("indexer tip").map(|(n, x)| (n, h(&x)))
    }

    /// Harness self-check: the engine's own fold agrees with RefChain's live-cell set.
    fn cross_check_model(&mut self, tip: &H, r: &mut Report) {
        let m = self.model_at(tip);
        let st = self.tg.rc.replay(tip);
        let ok = m.live.len() == st.cells.len()
            && m.live.iter().all(|(k, c)| {
                st.cells.get(k).map(|s| s.output == c.output && s.data == c.data && s.block_number == c.block_number && s.tx_index == c.tx_index).unwrap_or(false)
            });
        if !ok {
            r.inconclusive("harness: the engine's live-cell fold differs from RefChain::replay");
        }
        r.count("model_cross_checks");
    }

    fn oracle(&mut self, r: &mut Report, keyset: &mut HashSet<u64>, n_keys: usize) {
        let Some((_, tip)) = self.idx_tip() else {
            return;
        };
        if !self.tg.rc.contains(&tip) {
            if self.assert {
                r.violation("indexer_tip.unknown_block", "the indexer reports a tip that was never appended".into(), json!({"history": self.info}));
            }
            return;
        }
        let m = self.model_at(&tip);
        let pool = keys::script_pool(&m);
        let mut krng = self.rng.fork(0x6b);
        let ks = keys::gen_keys(&mut krng, &m, &pool, n_keys);
        let hd = self.idx.handle();
        let mut ctx = oracle::Ctx { hd: &hd, m: &m, r, rng: &mut krng, hist: &self.info, keyset, assert: self.assert };
        ctx.check_tip();
        for (method, sk) in &ks {
            ctx.check(*method, sk);
        }
    }

    /// `append(b); rollback()` restores the raw store and every answer.
    fn rollback_exactness(&mut self, b: &BlockView, r: &mut Report) {
        let Some((_, tip)) = self.idx_tip() else { return };
        if !self.tg.rc.contains(&tip) {
            return;
        }
        let m = self.model_at(&tip);
        let pool = keys::script_pool(&m);
        let mut krng = self.rng.fork(0x72);
        let ks = keys::gen_keys(&mut krng, &m, &pool, 14);
        let hd = self.idx.handle();
        let d0 = self.idx.dump();
        let a0 = oracle::snapshot_answers(&hd, &ks);
        self.idx.append(b).expect("append");
        self.idx.rollback().expect("rollback");
        let d1 = self.idx.dump();
        let a1 = oracle::snapshot_answers(&hd, &ks);
        r.count("rollback_checks");
        r.eval();
        // did `append` prune? (`prune()`: every prune_interval blocks, once tip > keep_num + 1;
        // it deletes old ConsumedOutPoint / TxHash / Header rows irreversibly)
        let pruned = b.number() % self.prune_interval == 0 && b.number() > self.keep_num + 1;
        if pruned {
            r.count("rollback_checks.with_prune_in_between");
        }
        let name = |p: u8| match p {
            0 => "OutPoint",
            32 => "ConsumedOutPoint",
            64 => "CellLockScript",
            96 => "CellTypeScript",
            128 => "TxLockScript",
            160 => "TxTypeScript",
            192 => "TxHash",
            224 => "Header",
            _ => "unknown",
        };
        // ConsumedOutPoint rows above the tip: left behind by rollback() (it restores the cell
        // but does not delete the row). They are invisible to every query, rewritten by the
        // next block of that height and removed by a later prune, so C18 does not demand their
        // absence: they are excluded from the comparison and counted as an observation.
        let tip_n = self.tg.rc.get(&tip).number;
        let stale = |kv: &(Vec<u8>, Vec<u8>)| kv.0.first() == Some(&32) && kv.0.len() >= 9 && u64::from_be_bytes(kv.0[1..9].try_into().unwrap()) > tip_n;
        let n_stale = d1.iter().filter(|kv| stale(kv)).count() as u64;
        if n_stale > 0 {
            r.count("obs.rollback_checks_seeing_consumed_out_point_rows_above_the_tip");
            r.count_n("obs.consumed_out_point_rows_above_the_tip", n_stale);
        }
        let d0: Vec<(Vec<u8>, Vec<u8>)> = d0.into_iter().filter(|kv| !stale(kv)).collect();
        let d1: Vec<(Vec<u8>, Vec<u8>)> = d1.into_iter().filter(|kv| !stale(kv)).collect();
        r.count_n("rollback_checks.rows_compared", d0.len() as u64);
        let s0: HashSet<&(Vec<u8>, Vec<u8>)> = d0.iter().collect();
        let s1: HashSet<&(Vec<u8>, Vec<u8>)> = d1.iter().collect();
        let mut lost: BTreeMap<&'static str, Vec<String>> = BTreeMap::new();
        let mut added: BTreeMap<&'static str, Vec<String>> = BTreeMap::new();
        for kv in d0.iter().filter(|kv| !s1.contains(kv)) {
            let p = kv.0.first().copied().unwrap_or(255);
            if pruned && matches!(p, 32 | 192 | 224) {
                continue;
            }
            lost.entry(name(p)).or_default().push(format!("{}=>{}", vbase::hex(&kv.0), vbase::hex(&kv.1)));
        }
        for kv in d1.iter().filter(|kv| !s0.contains(kv)) {
            let p = kv.0.first().copied().unwrap_or(255);
            added.entry(name(p)).or_default().push(format!("{}=>{}", vbase::hex(&kv.0), vbase::hex(&kv.1)));
        }
        if self.assert && (!lost.is_empty() || !added.is_empty()) {
            let kinds: Vec<&str> = lost.keys().chain(added.keys()).cloned().collect::<std::collections::BTreeSet<_>>().into_iter().collect();
            r.violation(
                &format!("rollback.kv_not_restored@{}", kinds.join("+")),
                format!("raw store after append(#{});rollback() differs from the store before: rows lost {:?}, rows added {:?}", b.number(), lost.iter().map(|(k, v)| (k, v.len())).collect::<Vec<_>>(), added.iter().map(|(k, v)| (k, v.len())).collect::<Vec<_>>()),
                json!({"history": self.info, "indexer_tip_before": format!("#{} 0x{}", self.tg.rc.get(&tip).number, vbase::hex(&tip)),
                       "block": format!("#{} 0x{}", b.number(), vbase::hex(b.hash().as_slice())), "pruned_in_between": pruned,
                       "lost": lost.iter().map(|(k, v)| (k.to_string(), v.iter().take(6).cloned().collect::<Vec<_>>())).collect::<BTreeMap<_, _>>(),
                       "added": added.iter().map(|(k, v)| (k.to_string(), v.iter().take(6).cloned().collect::<Vec<_>>())).collect::<BTreeMap<_, _>>()}),
            );
        }
        r.eval();
        if self.assert && a0 != a1 {
            let i = a0.iter().zip(a1.iter()).position(|(x, y)| x != y).unwrap_or(0);
            r.violation(
                "rollback.answers_not_restored",
                format!("an answer given before append(#{}) differs after append;rollback()", b.number()),
                json!({"history": self.info, "block": format!("#{} 0x{}", b.number(), vbase::hex(b.hash().as_slice())),
                       "before": a0.get(i), "after": a1.get(i)}),
            );
        }
    }

    /// Follow the builder's main chain with the decision rule of
    /// `IndexerSyncService::try_loop_sync`: tip (n, h): block n+1 of the main chain missing =>
    /// stop; its parent is h => append; otherwise rollback. No tip => append block 0.
    fn sync(&mut self, r: &mut Report, keyset: &mut HashSet<u64>, rkeys: &mut HashSet<u64>) {
        self.sync_rocksdb(r, keyset);
        if self.rich.is_some() {
            let res = std::panic::catch_unwind(std::panic::AssertUnwindSafe(|| self.sync_rich(r, rkeys)));
            if res.is_err() {
                let msg = panic_store().lock().unwrap().remove(&thread_key()).unwrap_or_default();
                if msg.contains("util/rich-indexer/") {
                    r.violation(
                        &format!("rich.indexer.panic@{}", msg.split(" :: ").next().unwrap_or("?")),
                        format!("the rich-indexer panicked: {msg}"),
                        json!({"history": self.info, "panic": msg}),
                    );
                } else {
                    r.inconclusive(&format!("harness panic in the rich-indexer part of history {}: {msg}", self.hi));
                }
                self.rich = None;
            }
        }
    }

    /// The rich-indexer answers at its current tip vs the model of that tip.
    fn rich_oracle(&mut self, rh: &mut RichHist, r: &mut Report, rkeys: &mut HashSet<u64>, n_keys: usize) {
        let tip = match rh.ri.tip() {
            Ok(Some((_, t))) => t,
            Ok(None) => return,
            Err(e) => {
                r.violation("rich.get_indexer_tip.unexpected_error", format!("get_indexer_tip failed: {e}"), json!({"history": self.info, "error": e}));
                rh.stopped = true;
                return;
            }
        };
        if !self.tg.rc.contains(&tip) {
            r.violation("rich.indexer_tip.unknown_block", "the rich-indexer reports a tip that was never appended (or an uncle)".into(),
                json!({"history": self.info, "tip": hx(&tip)}));
            rh.stopped = true;
            return;
        }
        let m = self.model_at(&tip);
        let pool = keys::script_pool(&m);
        let mut krng = rh.rng.fork(0x6b);
        let ks = keys::gen_keys_for(&mut krng, &m, &pool, n_keys, true);
        let mut ctx = rich::RCtx { ri: &rh.ri, m: &m, r, rng: &mut krng, hist: &self.info, keyset: rkeys };
        ctx.check_tip();
        for (method, sk) in &ks {
            ctx.check(*method, sk);
        }
    }

    /// `append(b); rollback()` restores every answer of the rich-indexer.
    fn rich_rollback_exactness(&mut self, rh: &mut RichHist, b: &BlockView, r: &mut Report) {
        let Ok(Some((_, tip))) = rh.ri.tip() else { return };
        if !self.tg.rc.contains(&tip) {
            return;
        }
        let m = self.model_at(&tip);
        let pool = keys::script_pool(&m);
        let mut krng = rh.rng.fork(0x72);
        let mut ks = keys::gen_keys_for(&mut krng, &m, &pool, rh.rollback_keys, true);
        // plus keys aimed at what the block touches: the scripts of its outputs and of the
        // cells it consumes (these are the answers `append` changes and `rollback` must restore)
        let mut touched: Vec<(bool, model::Scr)> = vec![];
        for tx in b.transactions().iter() {
            for out in tx.outputs().into_iter() {
                touched.push((true, model::Scr::from_packed(&out.lock())));
                if let Some(t) = out.type_().to_opt() {
                    touched.push((false, model::Scr::from_packed(&t)));
                }
            }
            for op in tx.input_pts_iter() {
                let idx: u32 = op.index().into();
                if let Some(c) = m.live.get(&(h(&op.tx_hash()), idx)) {
                    touched.push((true, c.lock.clone()));
                    if let Some(t) = &c.type_ {
                        touched.push((false, t.clone()));
                    }
                }
            }
        }
        touched.sort();
        touched.dedup();
        for _ in 0..touched.len().min(3) {
            let (is_lock, script) = krng.pick(&touched).clone();
            let method = *krng.pick(&[keys::Method::Cells, keys::Method::Txs, keys::Method::Capacity]);
            let mode = *krng.pick(&[Some(model::Mode::Exact), Some(model::Mode::Prefix), None]);
            let group = if method == keys::Method::Txs && mode == Some(model::Mode::Exact) && krng.bool() { Some(true) } else { None };
            ks.push((method, model::SK { script, is_lock, mode, filter: None, with_data: None, group }));
        }
        let c0 = rh.ri.row_counts();
        let a0 = rich::snapshot_answers(&rh.ri, &ks);
        if let Err(e) = rh.ri.append(b) {
            r.violation("rich.append.error", format!("append(#{}) failed: {e}", b.number()), json!({"history": self.info, "block": format!("#{} 0x{}", b.number(), vbase::hex(b.hash().as_slice())), "error": e}));
            rh.stopped = true;
            return;
        }
        if let Err(e) = rh.ri.rollback() {
            r.violation("rich.rollback.error", format!("rollback() of #{} failed: {e}", b.number()), json!({"history": self.info, "block": format!("#{} 0x{}", b.number(), vbase::hex(b.hash().as_slice())), "error": e}));
            rh.stopped = true;
            return;
        }
        let a1 = rich::snapshot_answers(&rh.ri, &ks);
        let c1 = rh.ri.row_counts();
        r.count("rich.rollback_checks");
        r.count_n("rich.rollback_checks.answers_compared", a0.len() as u64);
        r.eval();
        r.count("rich.evaluations");
        for ((t, n0), (_, n1)) in c0.iter().zip(c1.iter()) {
            if n0 != n1 {
                // rows are not answers: observed, not demanded
                r.count(&format!("rich.obs.row_count_differs_after_append_rollback.{t}"));
            }
        }
        if let Some((i, what)) = rich::first_difference(&a0, &a1) {
            let key = rich::key_of_entry(&ks, i);
            r.violation(
                &format!("rich.rollback.answers_not_restored@{what}"),
                format!("an answer given before append(#{}) differs after append;rollback()", b.number()),
                json!({"indexer": "ckb-rich-indexer (in-memory SQLite)", "history": self.info,
                       "indexer_tip_before": format!("#{} 0x{}", self.tg.rc.get(&tip).number, vbase::hex(&tip)),
                       "block": format!("#{} 0x{}", b.number(), vbase::hex(b.hash().as_slice())),
                       "method": key.map(|k| k.0.name()), "search_key": key.map(|k| keys::to_json(&k.1)),
                       "answer": a0.get(i).map(|x| x.0.clone()), "before": a0.get(i).map(|x| x.1.clone()), "after": a1.get(i).map(|x| x.1.clone()),
                       "row_counts_before": c0.iter().map(|(t, n)| (t.to_string(), *n)).collect::<BTreeMap<_, _>>(),
                       "row_counts_after": c1.iter().map(|(t, n)| (t.to_string(), *n)).collect::<BTreeMap<_, _>>()}),
            );
        }
    }

    /// The rich-indexer follows the builder's main chain with the same decision rule (its tip
    /// is read through get_indexer_tip, as `RichIndexer::tip()` does).
    fn sync_rich(&mut self, r: &mut Report, rkeys: &mut HashSet<u64>) {
        let Some(mut rh) = self.rich.take() else { return };
        if !rh.stopped {
            let t0 = Instant::now();
            self.sync_rich_inner(&mut rh, r, rkeys);
            r.count_n("rich.cost_ms.total", t0.elapsed().as_millis() as u64);
            if rh.ri.idle_gap_seen() {
                r.inconclusive("rich: more than 20 s between two operations on one in-memory database (the pool's idle reaper may have dropped it)");
                rh.stopped = true;
            }
        }
        self.rich = Some(rh);
    }

    fn sync_rich_inner(&mut self, rh: &mut RichHist, r: &mut Report, rkeys: &mut HashSet<u64>) {
        let main_tip = self.tg.tip();
        let mut rolled = 0u64;
        let mut steps = 0u64;
        loop {
            steps += 1;
            if steps > 2_000 {
                r.inconclusive("harness: rich sync loop did not terminate");
                break;
            }
            let tip = match rh.ri.tip() {
                Ok(t) => t,
                Err(e) => {
                    r.violation("rich.get_indexer_tip.unexpected_error", format!("get_indexer_tip failed: {e}"), json!({"history": self.info, "error": e}));
                    rh.stopped = true;
                    return;
                }
            };
            let blk = |b: &BlockView| format!("#{} 0x{}", b.number(), vbase::hex(b.hash().as_slice()));
            match tip {
                None => {
                    let g = self.block(&self.tg.rc.genesis.clone());
                    if let Err(e) = rh.ri.append(&g) {
                        r.violation("rich.append.error", format!("append(genesis) failed: {e}"), json!({"history": self.info, "error": e}));
                        rh.stopped = true;
                        return;
                    }
                    r.count("rich.blocks_appended");
                }
                Some((_, hash)) if !self.tg.rc.contains(&hash) => {
                    r.violation("rich.indexer_tip.unknown_block", "the rich-indexer reports a tip that was never appended (or an uncle)".into(),
                        json!({"history": self.info, "tip": hx(&hash)}));
                    rh.stopped = true;
                    return;
                }
                Some((n, hash)) => match self.tg.rc.ancestor_at(&main_tip, n + 1) {
                    None => break,
                    Some(bh) => {
                        let b = self.block(&bh);
                        if h(&b.parent_hash()) == hash {
                            if rh.rng.chance(250, 1000) {
                                let t0 = Instant::now();
                                self.rich_rollback_exactness(rh, &b, r);
                                r.count_n("rich.cost_ms.rollback_checks", t0.elapsed().as_millis() as u64);
                                if rh.stopped {
                                    return;
                                }
                            }
                            let t0 = Instant::now();
                            let res = rh.ri.append(&b);
                            r.count_n("rich.cost_us.append", t0.elapsed().as_micros() as u64);
                            if let Err(e) = res {
                                r.violation("rich.append.error", format!("append({}) failed: {e}", blk(&b)), json!({"history": self.info, "block": blk(&b), "error": e}));
                                rh.stopped = true;
                                return;
                            }
                            r.count("rich.blocks_appended");
                            if b.transactions().len() > 1 {
                                r.count("rich.blocks_appended_with_transactions");
                            }
                        } else {
                            if let Err(e) = rh.ri.rollback() {
                                r.violation("rich.rollback.error", format!("rollback() at tip #{n} failed: {e}"), json!({"history": self.info, "tip": hx(&hash), "error": e}));
                                rh.stopped = true;
                                return;
                            }
                            r.count("rich.blocks_rolled_back");
                            rolled += 1;
                        }
                    }
                },
            }
            let k = rh.keys_per_step;
            let t0 = Instant::now();
            self.rich_oracle(rh, r, rkeys, k);
            r.count_n("rich.cost_ms.oracle", t0.elapsed().as_millis() as u64);
            if rh.stopped {
                return;
            }
        }
        if rolled > 0 {
            r.count("rich.reorgs_followed");
            r.count(&format!("rich.reorg_depth.{}", if rolled > 9 { "10+".to_string() } else { rolled.to_string() }));
            if rolled > self.keep_num {
                r.count("rich.reorgs_deeper_than_the_rocksdb_retention");
            }
        }
        match rh.ri.tip() {
            Ok(Some((_, t))) if t == main_tip => r.count("rich.tips_followed"),
            _ => r.count("rich.rounds_with_indexer_on_stale_fork"),
        }
        let k = rh.keys_per_tip;
        let t0 = Instant::now();
        self.rich_oracle(rh, r, rkeys, k);
        r.count_n("rich.cost_ms.oracle", t0.elapsed().as_millis() as u64);
    }

    /// C18 (answers of a reader racing with the writer): a thread asks `get_cells_capacity` for a
    /// few keys all the time while this thread appends / rolls back; every answer names a tip and
    /// must be the model's sum at exactly that tip.
    fn sync_rocksdb(&mut self, r: &mut Report, keyset: &mut HashSet<u64>) {
        let racing = self.assert && self.rng.chance(350, 1000) && self.idx_tip().map(|(_, t)| self.tg.rc.contains(&t)).unwrap_or(false);
        if !racing {
            return self.sync_rocksdb_inner(r, keyset);
        }
        let tip = self.idx_tip().unwrap().1;
        let m = self.model_at(&tip);
        let pool = keys::script_pool(&m);
        let mut krng = self.rng.fork(0x7ace);
        let sks: Vec<model::SK> = keys::gen_keys(&mut krng, &m, &pool, 12).into_iter().map(|(_, sk)| sk).filter(|sk| sk.mode != Some(model::Mode::Partial)).take(4).collect();
        let stop = std::sync::atomic::AtomicBool::new(false);
        let hd = self.idx.handle();
        let mut answers: Vec<(usize, Result<Option<(u64, u64, H)>, String>)> = vec![];
        let mut reader_panicked = false;
        std::thread::scope(|s| {
            let (stop, sks, hd) = (&stop, &sks, &hd);
            let th = s.spawn(move || {
                let mut out = vec![];
                let mut i = 0usize;
                while !stop.load(std::sync::atomic::Ordering::SeqCst) && out.len() < 3000 && !sks.is_empty() {
                    let k = i % sks.len();
                    out.push((k, oracle::rpc_capacity(hd, &sks[k])));
                    i += 1;
                }
                out
            });
            self.sync_rocksdb_inner(r, keyset);
            stop.store(true, std::sync::atomic::Ordering::SeqCst);
            match th.join() {
                Ok(a) => answers = a,
                Err(_) => reader_panicked = true,
            }
        });
        if !self.assert {
            // the history left the retention inside this round: observed only
            r.count("race.rounds_that_left_the_retention");
            return;
        }
        if reader_panicked {
            let msg = panic_store().lock().unwrap().values().last().cloned().unwrap_or_default();
            r.violation("get_cells_capacity.panicked@concurrent_reader", format!("a get_cells_capacity call racing with append / rollback panicked: {msg}"), json!({"history": self.info}));
            return;
        }
        r.count("race.rounds_with_a_concurrent_reader");
        let mut tips: HashSet<H> = HashSet::new();
        for (k, ans) in answers {
            let sk = &sks[k];
            r.count("race.concurrent_capacity_answers");
            let got = match ans {
                Ok(g) => g,
                Err(e) => {
                    r.violation(&format!("get_cells_capacity.unexpected_error@concurrent_reader.{}", oracle::tag_pub(sk)), format!("get_cells_capacity failed while the indexer was appending / rolling back: {e}"), json!({"history": self.info, "search_key": keys::to_json(sk)}));
                    continue;
                }
            };
            let Some((_, _, th)) = got else {
                // no tip yet / nothing matches: judged by the sequential oracle
                continue;
            };
            if !self.tg.rc.contains(&th) {
                r.violation("get_cells_capacity.unknown_tip@concurrent_reader", "an answer names a block that was never appended".into(), json!({"history": self.info, "search_key": keys::to_json(sk)}));
                continue;
            }
            tips.insert(th);
            let m = self.model_at(&th);
            let mut jr = self.rng.fork(0x7acf);
            let mut ks = HashSet::new();
            let mut ctx = oracle::Ctx { hd: &hd, m: &m, r, rng: &mut jr, hist: &self.info, keyset: &mut ks, assert: true };
            ctx.r.eval();
            ctx.judge_capacity(sk, got);
        }
        r.count_n("race.distinct_tips_named_by_concurrent_answers", tips.len() as u64);
        if tips.len() >= 2 {
            r.count("race.rounds_with_answers_on_both_sides_of_a_step");
        }
    }

    fn sync_rocksdb_inner(&mut self, r: &mut Report, keyset: &mut HashSet<u64>) {
        let main_tip = self.tg.tip();
        let mut rolled = 0u64;
        let mut appended = 0u64;
        let mut steps = 0u64;
        loop {
            steps += 1;
            if steps > 2_000 {
                r.inconclusive("harness: sync loop did not terminate");
                break;
            }
            match self.idx_tip() {
                None => {
                    let g = self.block(&self.tg.rc.genesis.clone());
                    self.idx.append(&g).expect("append genesis");
                    r.count("blocks_appended");
                    appended += 1;
                }
                Some((_, hash)) if !self.tg.rc.contains(&hash) => {
                    // reported by `oracle` as indexer_tip.unknown_block (or observed beyond
                    // the retention); the history cannot be continued
                    r.count("histories_stopped_on_unknown_indexer_tip");
                    self.stopped = true;
                    break;
                }
                Some((n, hash)) => match self.tg.rc.ancestor_at(&main_tip, n + 1) {
                    None => break,
                    Some(bh) => {
                        let b = self.block(&bh);
                        if h(&b.parent_hash()) == hash {
                            if self.rng.chance(300, 1000) {
                                self.rollback_exactness(&b, r);
                            }
                            self.idx.append(&b).expect("append");
                            r.count("blocks_appended");
                            appended += 1;
                            self.hi_water = self.hi_water.max(b.number());
                        } else {
                            if n + self.keep_num <= self.hi_water && self.assert {
                                // would leave the retention: only observed from here on
                                self.assert = false;
                                LEFT_RETENTION.with(|c| c.set(true));
                                r.count("histories_leaving_retention");
                            }
                            self.idx.rollback().expect("rollback");
                            r.count("blocks_rolled_back");
                            rolled += 1;
                        }
                    }
                },
            }
            // after every single step (cheap)
            let k = self.keys_per_step;
            self.oracle(r, keyset, k);
        }
        if rolled > 0 {
            r.count("reorgs_followed");
            r.count(&format!("reorg_depth.{}", if rolled > 9 { "10+".to_string() } else { rolled.to_string() }));
            if rolled == self.keep_num {
                r.count("reorgs_of_exactly_keep_num");
            }
        }
        let _ = appended;
        match self.idx_tip() {
            Some((_, t)) if t == main_tip => r.count("tips_followed"),
            _ => r.count("rounds_with_indexer_on_stale_fork"),
        }
        if let Some((_, t)) = self.idx_tip() {
            if self.tg.rc.contains(&t) {
                self.cross_check_model(&t, r);
            }
        }
        let k = self.keys_per_tip;
        self.oracle(r, keyset, k);
    }
}

/// Which histories are also followed by the rich-indexer: residues mod 9 spread them evenly over
/// 8 (quick) / 10 (thorough) workers: 9k+5 (rich_per_mod=2 adds 9k); 9k+5 with even k are
/// histories with a reorg deeper than the RocksDB indexer's retention (the rich-indexer keeps
/// everything: still asserted). A query costs ~0.6-1 ms on a busy machine (round trips to the
/// SQLite worker thread), ~100 times a RocksDB-indexer query: hence the subset, and a cap on
/// the share of a worker's time budget the rich part may use (`rich_budget_pct`: once it is
/// used up the remaining histories of that worker are followed by the RocksDB indexer only).
fn rich_history(hi: u64, args: &Args) -> bool {
    if boundary_history(hi, args) {
        return true;
    }
    let every = args.get_u64("rich_mod", 9);
    let n = args.get_u64("rich_per_mod", 1);
    every > 0 && [5u64, 0, 2, 7, 4, 1, 6, 3, 8].iter().take(n as usize).any(|x| hi % every == *x % every)
}

fn n_histories(args: &Args) -> u64 {
    args.get_u64("histories", args.tier.pick(72, 900))
}

/// Histories appended after the standard ones (which stay exactly what they were before the
/// rich-indexer part existed): both indexers follow them, the workload also uses lock / type
/// args and data made of 0xff bytes.
fn n_boundary_histories(args: &Args) -> u64 {
    args.get_u64("boundary_histories", args.tier.pick(2, 20))
}

fn boundary_history(hi: u64, args: &Args) -> bool {
    hi >= n_histories(args)
}

fn run_history(seed: u64, hi: u64, tier: Tier, args: &Args, deadline: Instant, r: &mut Report, keyset: &mut HashSet<u64>, rkeys: &mut HashSet<u64>) {
    let mut rng = Rng::new(seed.wrapping_mul(0x9E37_79B9_7F4A_7C15) ^ (hi + 1).wrapping_mul(0xD1B5_4A32_D192_ED03));
    // every sixth history also makes reorgs deeper than the retention: observation only
    let deep = hi % 6 == 5;
    let mut params = ChainParams::default();
    params.window = *rng.pick(&[(1u64, 3u64), (1, 3), (1, 2), (2, 4)]);
    params.issued_cells = 40;
    params.epoch = EpochMode::Permanent { genesis_len: 6 + rng.below(20), epoch_len: 4 + rng.below(12) };
    let gi = consensus::build(&params);
    let cfg = TreeCfg {
        n_blocks: 0,
        invalid: 0,
        max_new_txs: 1,
        conflict_pm: 0,
        chain_pm: 300,
        uncle_pm: 150,
        junk_proposals: 1,
        ts_step_max: 10_000,
        ..Default::default()
    };
    let tg = TreeGen::new(&gi, cfg, rng.next_u64());
    let keep_num = rng.range(4, 20);
    let prune_interval = rng.range(1, 8);
    let n_blocks = tier.pick(60 + rng.below(80), 100 + rng.below(200));
    let fork_pm = 70 + rng.below(130);
    let dir = vnode::node::scratch_dir().join(format!("indexer-{hi}"));
    let idx = VerifIndexer::new(&dir, keep_num, prune_interval);
    let info = json!({"history": hi, "window": [params.window.0, params.window.1], "keep_num": keep_num, "prune_interval": prune_interval,
                      "planned_blocks": n_blocks, "fork_pm": fork_pm, "reorgs_deeper_than_retention": deep, "workload_with_0xff_boundary_values": boundary_history(hi, args)});
    let mut hst = Hist {
        hi,
        tg,
        idx,
        rng: rng.fork(1),
        wl: if boundary_history(hi, args) { workload::Workload::new_boundary(seed ^ (hi << 8)) } else { workload::Workload::new(seed ^ (hi << 8)) },
        keep_num,
        prune_interval,
        hi_water: 0,
        assert: true,
        info,
        models: VecDeque::new(),
        keys_per_tip: tier.pick(40, 48),
        keys_per_step: tier.pick(8, 10),
        stopped: false,
        rich: None,
    };
    r.count("histories");
    if boundary_history(hi, args) {
        r.count("histories_with_0xff_boundary_values");
    }
    let budget_ms = args.get_u64("budget_s", tier.pick(55, 780)) * 1000;
    let rich_budget_ms = budget_ms * args.get_u64("rich_budget_pct", tier.pick(30, 10)) / 100;
    if rich_history(hi, args) && r.counter("rich.cost_ms.total") >= rich_budget_ms {
        r.count("rich.histories_not_followed_rich_time_budget_used_up");
    } else if rich_history(hi, args) {
        match rich::RichIdx::new() {
            Ok(ri) => {
                r.count("rich.histories");
                hst.rich = Some(RichHist {
                    ri,
                    rng: rng.fork(0x5243),
                    keys_per_tip: args.get_u64("rich_keys_per_tip", 8) as usize,
                    keys_per_step: args.get_u64("rich_keys_per_step", 2) as usize,
                    rollback_keys: 4,
                    stopped: false,
                });
            }
            Err(e) => r.inconclusive(&format!("harness: cannot open an in-memory rich-indexer store: {e}")),
        }
    }
    LEFT_RETENTION.with(|c| c.set(false));
    hst.sync(r, keyset, rkeys);
    let mut made = 0u64;
    let mut deep_done = false;
    let mut quiet_until = 0u64;
    while made < n_blocks && !hst.stopped {
        if Instant::now() > deadline {
            r.count("histories_cut_by_budget");
            break;
        }
        let tip = hst.tg.tip();
        let tip_n = hst.tg.rc.get(&tip).number;
        let safe_min = hst.hi_water.saturating_sub(keep_num);
        let mut parent = tip;
        // while the builder's branch is still behind the indexer's (stale) tip, fork less often
        // so that most branches grow long enough to be followed
        let behind = hst.idx_tip().map(|(n, x)| tip_n <= n && x != tip).unwrap_or(false);
        let fpm = if made < quiet_until { 0 } else if behind { fork_pm / 4 } else { fork_pm };
        if deep && !deep_done && made >= n_blocks / 2 && hst.hi_water > keep_num + 6 && tip_n > 1 {
            // one reorg deeper than the retention (observation only from there on)
            let lo = safe_min.saturating_sub(1 + rng.below(4)).min(tip_n - 1);
            parent = hst.tg.rc.ancestor_at(&tip, lo).unwrap();
            deep_done = true;
            quiet_until = made + (hst.hi_water - lo) + 3;
            r.count("gen.forks_beyond_retention");
        } else if tip_n > 0 && rng.chance(fpm, 1000) && tip_n > safe_min {
            let maxd = tip_n - safe_min;
            let d = if rng.chance(150, 1000) { maxd } else { 1 + rng.below(maxd.min(8)) };
            parent = hst.tg.rc.ancestor_at(&tip, tip_n - d).unwrap();
            r.count("gen.forks");
        }
        let k = rng.usize_below(4);
        let mut extras = hst.wl.gen_txs(&hst.tg, &mut rng, &parent, k);
        if rng.chance(250, 1000) {
            let rev = hst.wl.revivable(&hst.tg, &mut rng, &parent, 2);
            r.count_n("gen.reproposed_on_another_fork", rev.len() as u64);
            extras.extend(rev);
        }
        r.count_n("gen.my_txs_proposed", extras.len() as u64);
        let x = hst.tg.extend_ex(&parent, &extras);
        made += 1;
        // what got committed
        let b = hst.block(&x);
        let txs = b.transactions();
        let in_block: HashSet<H> = txs.iter().map(|t| h(&t.hash())).collect();
        for t in txs.iter().skip(1) {
            r.count("committed.txs");
            if hst.wl.mine.contains_key(&h(&t.hash())) {
                r.count("committed.my_txs");
                if t.outputs().into_iter().any(|o| o.type_().to_opt().is_some()) {
                    r.count("committed.my_txs_with_type_script_outputs");
                }
            }
            for op in t.input_pts_iter() {
                if in_block.contains(&h(&op.tx_hash())) {
                    r.count("committed.cells_created_and_consumed_in_one_block");
                }
            }
        }
        hst.sync(r, keyset, rkeys);
    }
    if let Some(rh) = &hst.rich {
        if rh.stopped {
            r.count("rich.histories_stopped_early");
        }
        if r.counter("rich.sampled_histories") < 1 {
            r.count("rich.sampled_histories");
            r.sample(json!({"indexer": "rich", "history": hst.info, "blocks_generated": made, "rich_indexer_tip": rh.ri.tip().ok().flatten().map(|(n, x)| format!("#{n} {}", hx(&x))),
                            "rows": rh.ri.row_counts().iter().map(|(t, n)| (t.to_string(), *n)).collect::<BTreeMap<_, _>>()}));
        }
    }
    if hi < 2 {
        r.sample(json!({"history": hst.info, "blocks_generated": made, "indexer_tip": hst.idx_tip().map(|(n, x)| format!("#{n} {}", hx(&x))),
                        "model_live_cells": hst.idx_tip().map(|(_, t)| hst.model_at(&t).live.len()), "asserting_until_end": hst.assert}));
    }
    let _ = hst.hi;
}

fn worker(seed: u64, tier: Tier, args: &Args, his: Vec<u64>, deadline: Instant) -> (Value, HashSet<u64>, HashSet<u64>) {
    let mut r = Report::new("C18", "exploration", args, RULE);
    let mut keyset = HashSet::new();
    let mut rkeys = HashSet::new();
    // the few added histories with 0xff boundary values first: never the ones a tight budget drops
    let (first, rest): (Vec<u64>, Vec<u64>) = his.into_iter().partition(|hi| boundary_history(*hi, args));
    for hi in first.into_iter().chain(rest) {
        if Instant::now() > deadline {
            r.count("histories_skipped_by_budget");
            continue;
        }
        let res = std::panic::catch_unwind(std::panic::AssertUnwindSafe(|| run_history(seed, hi, tier, args, deadline, &mut r, &mut keyset, &mut rkeys)));
        if res.is_err() {
            let msg = panic_store().lock().unwrap().remove(&thread_key()).unwrap_or_default();
            let indexer_code = msg.contains("/repo/util/indexer") || msg.contains("/repo/util/indexer-sync");
            if indexer_code && LEFT_RETENTION.with(|c| c.get()) {
                // outside the property: after a reorg deeper than keep_num the store is not
                // expected to be consistent
                r.count(&format!("obs.beyond_retention.panic@{}", msg.split(" :: ").next().unwrap_or("?")));
            } else if indexer_code {
                r.violation(
                    &format!("indexer.panic@{}", msg.split(" :: ").next().unwrap_or("?")),
                    format!("the indexer panicked: {msg}"),
                    json!({"history": hi, "seed": seed, "panic": msg}),
                );
            } else {
                r.inconclusive(&format!("harness panic in history {hi}: {msg}"));
            }
        }
    }
    (r.to_json(&KnownFindings::load()), keyset, rkeys)
}

fn main() {
    let args = Args::parse();
    // (also points TMPDIR at the RAM scratch: SQLXPool::connect unpacks its migration files into a
    // tempfile::tempdir())
    let _ = vnode::node::scratch_dir();
    vnode::node::set_time(ChainParams::default().genesis_timestamp + 3_000_000_000);
    std::panic::set_hook(Box::new(|info| {
        let loc = info.location().map(|l| format!("{}:{}", l.file(), l.line())).unwrap_or_default();
        let msg = info.payload().downcast_ref::<&str>().map(|s| s.to_string()).or_else(|| info.payload().downcast_ref::<String>().cloned()).unwrap_or_default();
        eprintln!("panic at {loc}: {msg}");
        panic_store().lock().unwrap().insert(thread_key(), format!("{loc} :: {msg}"));
    }));
    let mut report = Report::new("C18", "exploration", &args, RULE);
    let n_hist = n_histories(&args) + n_boundary_histories(&args);
    let workers = args.get_u64("workers", args.tier.pick(8, 10)).max(1);
    let deadline = Instant::now() + Duration::from_secs(args.get_u64("budget_s", args.tier.pick(55, 780)));
    let only: Option<u64> = args.extra.get("only").and_then(|s| s.parse().ok());
    let mut keyset: HashSet<u64> = HashSet::new();
    let mut rkeys: HashSet<u64> = HashSet::new();
    let results: Vec<(Value, HashSet<u64>, HashSet<u64>)> = std::thread::scope(|s| {
        let mut hs = vec![];
        for w in 0..workers {
            let his: Vec<u64> = (0..n_hist).filter(|hi| hi % workers == w && only.map(|o| o == *hi).unwrap_or(true)).collect();
            let args = &args;
            hs.push(s.spawn(move || worker(args.seed, args.tier, args, his, deadline)));
        }
        hs.into_iter().map(|j| j.join().expect("worker")).collect()
    });
    for (j, ks, rks) in results {
        report.merge_json(&j);
        keyset.extend(ks);
        rkeys.extend(rks);
    }
    report.note("distinct_search_keys", json!(keyset.len()));
    report.note("rich_distinct_search_keys", json!(rkeys.len()));
    report.count_n("rich.distinct_search_keys", rkeys.len() as u64);
    report.note("rich_indexer", json!("covered (hook H8b): ckb_rich_indexer::verif::VerifRichIndexer (AsyncRichIndexer over an SQLXPool on a private in-memory SQLite database) follows a subset of the same histories (hi mod 9 = 5, plus the added histories with 0xff boundary values; at most rich_budget_pct of a worker's time budget) with the same decision rule and is judged by the same model filters through AsyncRichIndexerHandle; counters `rich.*`, violation signatures `rich.*`"));
    for c in [
        "rich.histories", "rich.blocks_appended", "rich.blocks_appended_with_transactions", "rich.blocks_rolled_back", "rich.reorgs_followed", "rich.rollback_checks", "rich.tips_followed",
        "rich.queries.get_indexer_tip", "rich.queries.get_cells.exact", "rich.queries.get_cells.prefix", "rich.queries.get_cells.default", "rich.queries.get_cells.partial",
        "rich.queries.get_cells_capacity.exact", "rich.queries.get_cells_capacity.prefix", "rich.queries.get_cells_capacity.partial",
        "rich.queries.get_transactions.exact", "rich.queries.get_transactions.prefix", "rich.queries.get_transactions.partial",
        "rich.queries.grouped", "rich.queries.with_data_false", "rich.queries.order_desc", "rich.queries.by_lock", "rich.queries.by_type",
        "rich.queries.cells.filter.script", "rich.queries.cells.filter.script_len_range", "rich.queries.cells.filter.output_data.prefix", "rich.queries.cells.filter.output_data.exact",
        "rich.queries.cells.filter.output_data.partial", "rich.queries.cells.filter.output_data_len_range", "rich.queries.cells.filter.output_capacity_range", "rich.queries.cells.filter.block_range",
        "rich.queries.get_transactions.filter.script", "rich.queries.get_transactions.filter.script_len_range", "rich.queries.get_transactions.filter.output_data_len_range",
        "rich.queries.get_transactions.filter.output_capacity_range", "rich.queries.get_transactions.filter.block_range",
        "rich.queries.filter.none", "rich.walks_with_several_pages",
    ] {
        report.require(c, 1);
    }
    report.require("rich.evaluations", args.tier.pick(2_000, 20_000));
    report.require("rich.distinct_search_keys", args.tier.pick(500, 5_000));
    report.require("rich.blocks_appended", args.tier.pick(100, 1_000));
    report.require("rich.blocks_appended_with_transactions", args.tier.pick(30, 300));
    report.require("rich.blocks_rolled_back", args.tier.pick(5, 50));
    report.require("rich.reorgs_followed", args.tier.pick(3, 30));
    report.require("rich.rollback_checks", args.tier.pick(10, 100));
    report.require("rich.pages_walked", args.tier.pick(300, 3_000));
    report.require("rich.answers.nonempty", args.tier.pick(200, 2_000));
    for c in [
        "histories", "blocks_appended", "blocks_rolled_back", "reorgs_followed", "rollback_checks", "tips_followed",
        "queries.get_indexer_tip", "queries.get_cells.exact", "queries.get_cells.prefix", "queries.get_cells.default",
        "queries.get_cells_capacity.exact", "queries.get_cells_capacity.prefix", "queries.get_transactions.exact",
        "queries.get_transactions.prefix", "queries.grouped", "queries.with_data_false", "queries.order_desc",
        "queries.by_lock", "queries.by_type", "queries.filter.script", "queries.filter.script_len_range",
        "queries.filter.output_data.prefix", "queries.filter.output_data.exact", "queries.filter.output_data.partial",
        "queries.filter.output_data.default", "queries.filter.output_data_len_range", "queries.filter.output_capacity_range",
        "queries.filter.block_range", "queries.filter.none", "walks_with_several_pages", "model_cross_checks",
    ] {
        report.require(c, 1);
    }
    report.require("blocks_appended", args.tier.pick(150, 1500));
    report.require("blocks_rolled_back", args.tier.pick(10, 100));
    report.require("reorgs_followed", args.tier.pick(4, 40));
    report.require("pages_walked", args.tier.pick(500, 5000));
    report.require("answers.nonempty", args.tier.pick(300, 3000));
    report.require("committed.my_txs", args.tier.pick(40, 400));
    report.require("committed.my_txs_with_type_script_outputs", args.tier.pick(15, 150));
    report.require("committed.cells_created_and_consumed_in_one_block", args.tier.pick(5, 50));
    report.require("rollback_checks", args.tier.pick(20, 200));
    report.assume("RocksDB write-batch atomicity and snapshot isolation are trusted");
    report.assume("blocks are valid main-chain blocks of a real builder node (dao / reward fields by production calculators)");
    report.assume("the RPC documentation does not define the order of answers: assumed (observed) ascending (block number, tx index, output index) for cells and (block number, tx index, io index, input before output) for transaction entries WITHIN one script; the relative order of different scripts in a prefix search is not asserted; desc is required to be the reverse of asc; grouped answers are only queried in exact mode (documented: prefix search only when group_by_transaction is false)");
    report.assume("`script_len_range` is taken over len(code_hash)+len(hash_type)+len(args) of the filter-side script, 0 when the cell has no type script (observed; the documentation does not define it)");
    report.assume("script_search_mode=partial may be rejected by this module (documented as prefix | exact); if it is answered the answer must be the partial match");
    report.assume("the driver mirrors IndexerSyncService::try_loop_sync: when the main chain has no block at indexer_tip+1 the indexer stays where it is (possibly on a stale fork); answers are then compared with the model of the indexer's own tip");
    report.assume("rich-indexer: documented semantics of /repo/rpc/src/module/rich_indexer.rs and /repo/util/rich-indexer/README.md: script_search_mode partial supported by all three methods; get_transactions takes every filter kind of get_cells, applied to the cell that appears (output, or the consumed cell of an input), block_range over the block of the transaction in which it appears; `filter.script` of get_transactions is matched as a prefix like in get_cells (the documentation says only \"filter cells by type script\"; the code comments \"default prefix search\"; the RocksDB indexer matches it exactly)");
    report.assume("rich-indexer: cursors are opaque row ids: only `concatenated pages == full answer` is demanded; get_cells ascending order = (block number, tx index, output index) over the whole answer (observed: ORDER BY output.id); get_transactions: transactions ascending by (block number, tx index), the order of the entries of one transaction (ungrouped) and of the cells of one grouped entry is not defined (UNION ALL / GROUP_CONCAT) and is compared as a set; desc = the same entries with the transactions in the opposite order");
    report.assume("rich-indexer: get_cells_capacity answers null when no live cell matches (SUM over no rows); accepted (no capacity is claimed), counted as rich.obs.get_cells_capacity_null_when_no_cell_matches; a {capacity: 0, tip} answer is accepted as well");
    report.assume("rich-indexer: nothing is pruned, so there is no retention: append;rollback exactness and the answers after reorgs of any depth are asserted; append(b);rollback() must restore the answers (content; not cursors, not row ids, not row counts) for generated keys plus keys on the scripts the block touches");
    report.assume("SQLite (in-memory, one connection per indexer) transaction atomicity is trusted; PostgreSQL-specific SQL branches are not exercised");
    report.assume("ConsumedOutPoint rows above the indexer tip (rollback() restores the consumed cell but leaves the row behind) are invisible to every query, rewritten by the next block of that height and removed by a later prune: excluded from the byte-exact store comparison and counted as an observation");
    let code = report.finish(None);
    vnode::node::exit(code)
}
