//! Transactions for the indexer workload: outputs with a variety of lock / type scripts (args
//! sharing prefixes, trailing zero bytes), data lengths and capacities; spends of live cells, of
//! outputs of still-pending transactions (same-block create+consume once both are committed).

use ckb_types::core::TransactionView;
use ckb_types::packed::{self, OutPoint};
use ckb_types::prelude::*;
use std::collections::{HashMap, HashSet};
use vbase::Rng;
use vnode::builder::{self, OutSpec};
use vnode::model::{H, h};
use vnode::treegen::TreeGen;

pub const LOCK_ARGS: &[&[u8]] = &[
    &[],
    &[0],
    &[0, 0],
    &[1],
    &[1, 0],
    &[1, 2],
    &[1, 2, 3],
    &[1, 2, 3, 0],
    &[2],
    &[1, 255],
    &[255],
    &[1, 2, 3, 4, 5, 6, 7, 8, 9, 10, 11, 12, 13, 14, 15, 16, 17, 18, 19, 20],
];

pub const TYPE_ARGS: &[&[u8]] = &[&[], &[0], &[1], &[1, 2], &[1, 2, 3], &[7], &[7, 0], &[2]];

pub const DATA_STEMS: &[&[u8]] = &[&[0xAA, 0xBB, 0xCC], &[0xAA, 0xBB], &[0xAA], &[0x00, 0x00], &[0xDE, 0xAD, 0xBE, 0xEF]];

/// Extra values of the `boundary` workload flavour (histories added for the rich-indexer part):
/// args / data made of 0xff bytes and extensions of them — a prefix search for 0xff..ff has no
/// same-length exclusive upper bound in a `>= prefix AND < upper` range query.
pub const FF_LOCK_ARGS: &[&[u8]] = &[&[255, 255], &[255, 255, 1], &[255, 255, 255, 0]];
pub const FF_TYPE_ARGS: &[&[u8]] = &[&[255], &[255, 255], &[255, 255, 9]];
pub const FF_DATA_STEMS: &[&[u8]] = &[&[0xFF], &[0xFF, 0xFF], &[0xFF, 0xFF, 0xFF]];

pub struct Workload {
    /// every transaction this workload built, by hash
    pub mine: HashMap<H, TransactionView>,
    pub order: Vec<H>,
    salt: u64,
    lock_args: Vec<&'static [u8]>,
    type_args: Vec<&'static [u8]>,
    data_stems: Vec<&'static [u8]>,
}

fn is_always_success(gi: &vnode::consensus::GenesisInfo, s: &packed::Script) -> bool {
    s.code_hash() == gi.always_success_script.code_hash() && s.hash_type() == gi.always_success_script.hash_type()
}

fn spendable_output(gi: &vnode::consensus::GenesisInfo, out: &packed::CellOutput) -> bool {
    is_always_success(gi, &out.lock()) && out.type_().to_opt().map(|t| is_always_success(gi, &t)).unwrap_or(true)
}

/// Transactions proposed on the path to `parent` still inside the window of the next block and
/// not committed on that path.
pub fn pending_on_path(tg: &TreeGen, parent: &H) -> Vec<TransactionView> {
    let (_, w_far) = tg.rc.window;
    let n = tg.rc.get(parent).number + 1;
    let st = tg.rc.replay(parent);
    let mut out = vec![];
    let mut cur = *parent;
    loop {
        let rec = tg.rc.get(&cur);
        if rec.number == 0 || n - rec.number > w_far {
            break;
        }
        if let Some(i) = tg.info.get(&cur) {
            for tx in &i.proposed {
                if !st.tx_info.contains_key(&h(&tx.hash())) {
                    out.push(tx.clone());
                }
            }
        }
        cur = rec.parent;
    }
    out
}

impl Workload {
    pub fn new(seed: u64) -> Workload {
        Workload { mine: HashMap::new(), order: vec![], salt: seed << 20, lock_args: LOCK_ARGS.to_vec(), type_args: TYPE_ARGS.to_vec(), data_stems: DATA_STEMS.to_vec() }
    }

    /// The standard tables plus the 0xff boundary values.
    pub fn new_boundary(seed: u64) -> Workload {
        let mut w = Workload::new(seed);
        w.lock_args.extend_from_slice(FF_LOCK_ARGS);
        w.type_args.extend_from_slice(FF_TYPE_ARGS);
        w.data_stems.extend_from_slice(FF_DATA_STEMS);
        w
    }

    fn gen_data(&mut self, rng: &mut Rng, first: bool) -> Vec<u8> {
        let mut d: Vec<u8> = match rng.below(10) {
            0..=2 => vec![],
            3..=6 => {
                let mut v = self.data_stems[rng.usize_below(self.data_stems.len())].to_vec();
                let n = rng.usize_below(12);
                v.extend(rng.bytes(n));
                // a marker somewhere inside (partial data search)
                if rng.chance(400, 1000) {
                    v.extend_from_slice(&[0xC0, 0xFF, 0xEE]);
                    let n = rng.usize_below(6);
                    v.extend(rng.bytes(n));
                }
                v
            }
            _ => {
                let n = 1 + rng.usize_below(40);
                rng.bytes(n)
            }
        };
        if first {
            // uniqueness salt: tx hashes never collide across the tree
            self.salt += 1;
            d.extend_from_slice(&self.salt.to_le_bytes());
        }
        d
    }

    /// Build up to `k` new transactions valid on top of `parent` (given what is pending there).
    pub fn gen_txs(&mut self, tg: &TreeGen, rng: &mut Rng, parent: &H, k: usize) -> Vec<TransactionView> {
        let gi = &tg.gi;
        let st = tg.rc.replay(parent);
        let pending = pending_on_path(tg, parent);
        let mut reserved: HashSet<(H, u32)> = HashSet::new();
        for tx in &pending {
            for op in tx.input_pts_iter() {
                let idx: u32 = op.index().into();
                reserved.insert((h(&op.tx_hash()), idx));
            }
        }
        let mut batch: Vec<TransactionView> = vec![];
        for _ in 0..k {
            // candidate inputs: (out point, capacity)
            let mut inputs: Vec<(OutPoint, u64)> = vec![];
            let mut in_cap: u64 = 0;
            let n_in = 1 + rng.usize_below(3);
            if rng.chance(450, 1000) {
                // outputs of a pending (not yet committed) transaction: committed together they
                // are created and consumed in the same block
                let pool: Vec<&TransactionView> = pending.iter().chain(batch.iter()).collect();
                if !pool.is_empty() {
                    let ptx = pool[rng.usize_below(pool.len())];
                    let th = h(&ptx.hash());
                    for (i, out) in ptx.outputs().into_iter().enumerate() {
                        if inputs.len() >= n_in {
                            break;
                        }
                        if !spendable_output(gi, &out) || reserved.contains(&(th, i as u32)) {
                            continue;
                        }
                        if rng.chance(300, 1000) {
                            continue;
                        }
                        let cap: u64 = out.capacity().into();
                        inputs.push((OutPoint::new(ptx.hash(), i as u32), 0));
                        in_cap += cap;
                    }
                }
            }
            if inputs.len() < n_in {
                let live: Vec<(&(H, u32), u64)> = st
                    .cells
                    .iter()
                    .filter_map(|(key, c)| {
                        let out = packed::CellOutput::from_slice(&c.output).ok()?;
                        if !spendable_output(gi, &out) || reserved.contains(key) {
                            return None;
                        }
                        // leave cellbase outputs to TreeGen's own transactions
                        if c.tx_index == 0 && c.block_number > 0 {
                            return None;
                        }
                        let cap: u64 = out.capacity().into();
                        Some((key, cap))
                    })
                    .collect();
                if !live.is_empty() {
                    let need = n_in - inputs.len();
                    for _ in 0..need {
                        let (key, cap) = live[rng.usize_below(live.len())];
                        if reserved.contains(key) {
                            continue;
                        }
                        reserved.insert(*key);
                        inputs.push((OutPoint::new(packed::Byte32::from_slice(&key.0).unwrap(), key.1), 0));
                        in_cap += cap;
                    }
                }
            }
            if inputs.is_empty() {
                continue;
            }
            for (op, _) in &inputs {
                let idx: u32 = op.index().into();
                reserved.insert((h(&op.tx_hash()), idx));
            }
            // outputs
            let fee = rng.range(0, 3_000);
            let n_out = 1 + rng.usize_below(4);
            let mut specs: Vec<OutSpec> = vec![];
            for i in 0..n_out {
                let lock = builder::lock_with_args(gi, self.lock_args[rng.usize_below(self.lock_args.len())]);
                let type_ = if rng.chance(450, 1000) { Some(builder::lock_with_args(gi, self.type_args[rng.usize_below(self.type_args.len())])) } else { None };
                let data = self.gen_data(rng, i == 0);
                specs.push(OutSpec { capacity: 0, lock, type_, data });
            }
            let occ = |s: &OutSpec| builder::occupied(&s.lock, &s.type_, s.data.len());
            while !specs.is_empty() && specs.iter().map(occ).sum::<u64>() + fee > in_cap {
                specs.pop();
            }
            if specs.is_empty() {
                continue;
            }
            let mut spare = in_cap - fee - specs.iter().map(occ).sum::<u64>();
            let n = specs.len();
            for (i, s) in specs.iter_mut().enumerate() {
                let extra = if i + 1 == n {
                    spare
                } else {
                    match rng.below(4) {
                        // exactly the occupied capacity
                        0 => 0,
                        1 => spare / (n - i) as u64,
                        2 => rng.below(spare / 2 + 1),
                        _ => (spare / 1_0000_0000).min(rng.below(50)) * 1_0000_0000,
                    }
                };
                s.capacity = occ(s) + extra;
                spare -= extra;
            }
            let witness = if rng.bool() { Some(rng.bytes(4)) } else { None };
            let tx = builder::build_tx(gi, &inputs, &specs, &[], &[], witness);
            self.mine.insert(h(&tx.hash()), tx.clone());
            self.order.push(h(&tx.hash()));
            batch.push(tx);
        }
        batch
    }

    /// Earlier transactions of this workload that are not committed on the path to `parent`
    /// but are valid there again (all inputs live and unreserved): re-proposing them makes the
    /// same transaction appear at different heights on different forks.
    pub fn revivable(&self, tg: &TreeGen, rng: &mut Rng, parent: &H, max: usize) -> Vec<TransactionView> {
        let st = tg.rc.replay(parent);
        let pending = pending_on_path(tg, parent);
        let mut reserved: HashSet<(H, u32)> = HashSet::new();
        let mut pend: HashSet<H> = HashSet::new();
        for tx in &pending {
            pend.insert(h(&tx.hash()));
            for op in tx.input_pts_iter() {
                let idx: u32 = op.index().into();
                reserved.insert((h(&op.tx_hash()), idx));
            }
        }
        let mut out = vec![];
        let n = self.order.len();
        if n == 0 {
            return out;
        }
        let start = rng.usize_below(n);
        for j in 0..n.min(60) {
            if out.len() >= max {
                break;
            }
            let th = self.order[(start + j) % n];
            if st.tx_info.contains_key(&th) || pend.contains(&th) {
                continue;
            }
            let tx = &self.mine[&th];
            let ok = tx.input_pts_iter().all(|op| {
                let idx: u32 = op.index().into();
                let key = (h(&op.tx_hash()), idx);
                st.cells.contains_key(&key) && !reserved.contains(&key)
            });
            if ok {
                for op in tx.input_pts_iter() {
                    let idx: u32 = op.index().into();
                    reserved.insert((h(&op.tx_hash()), idx));
                }
                out.push(tx.clone());
            }
        }
        out
    }
}
