//! Search-key generation (boundary-biased around what the model contains) and conversion of the
//! plain search key into the RPC type.

use crate::model::{Cell, Filt, Mode, Model, SK, Scr};
use ckb_jsonrpc_types::{
    IndexerRange, IndexerScriptType, IndexerSearchKey, IndexerSearchKeyFilter, IndexerSearchMode,
    JsonBytes, Script as JsonScript,
};
use serde_json::{Value, json};
use std::collections::BTreeSet;
use vbase::Rng;

fn jmode(m: Mode) -> IndexerSearchMode {
    match m {
        Mode::Prefix => IndexerSearchMode::Prefix,
        Mode::Exact => IndexerSearchMode::Exact,
        Mode::Partial => IndexerSearchMode::Partial,
    }
}

fn jscript(s: &Scr) -> JsonScript {
    s.to_packed().into()
}

fn jrange(r: &(u64, u64)) -> IndexerRange {
    IndexerRange::new(r.0, r.1)
}

/// The RPC search key (not `Clone`, so it is rebuilt for every call).
pub fn to_rpc(sk: &SK) -> IndexerSearchKey {
    IndexerSearchKey {
        script: jscript(&sk.script),
        script_type: if sk.is_lock { IndexerScriptType::Lock } else { IndexerScriptType::Type },
        script_search_mode: sk.mode.map(jmode),
        filter: sk.filter.as_ref().map(|f| IndexerSearchKeyFilter {
            script: f.script.as_ref().map(jscript),
            script_len_range: f.script_len_range.as_ref().map(jrange),
            output_data: f.output_data.as_ref().map(|d| JsonBytes::from_vec(d.clone())),
            output_data_filter_mode: f.output_data_mode.map(jmode),
            output_data_len_range: f.output_data_len_range.as_ref().map(jrange),
            output_capacity_range: f.output_capacity_range.as_ref().map(jrange),
            block_range: f.block_range.as_ref().map(jrange),
        }),
        with_data: sk.with_data,
        group_by_transaction: sk.group,
    }
}

fn hx(b: &[u8]) -> String {
    format!("0x{}", vbase::hex(b))
}

fn script_json(s: &Scr) -> Value {
    let ht = match s.hash_type {
        0 => "data",
        1 => "type",
        2 => "data1",
        4 => "data2",
        _ => "?",
    };
    json!({"code_hash": hx(&s.code_hash), "hash_type": ht, "args": hx(&s.args)})
}

fn range_json(r: &Option<(u64, u64)>) -> Value {
    match r {
        Some((a, b)) => json!([format!("{a:#x}"), format!("{b:#x}")]),
        None => Value::Null,
    }
}

/// The search key as the JSON a client would send (witnesses, distinct-case hashing).
pub fn to_json(sk: &SK) -> Value {
    let mut o = serde_json::Map::new();
    o.insert("script".into(), script_json(&sk.script));
    o.insert("script_type".into(), json!(if sk.is_lock { "lock" } else { "type" }));
    if let Some(m) = sk.mode {
        o.insert("script_search_mode".into(), json!(m.name()));
    }
    if let Some(f) = &sk.filter {
        let mut fo = serde_json::Map::new();
        if let Some(s) = &f.script {
            fo.insert("script".into(), script_json(s));
        }
        if f.script_len_range.is_some() {
            fo.insert("script_len_range".into(), range_json(&f.script_len_range));
        }
        if let Some(d) = &f.output_data {
            fo.insert("output_data".into(), json!(hx(d)));
        }
        if let Some(m) = f.output_data_mode {
            fo.insert("output_data_filter_mode".into(), json!(m.name()));
        }
        if f.output_data_len_range.is_some() {
            fo.insert("output_data_len_range".into(), range_json(&f.output_data_len_range));
        }
        if f.output_capacity_range.is_some() {
            fo.insert("output_capacity_range".into(), range_json(&f.output_capacity_range));
        }
        if f.block_range.is_some() {
            fo.insert("block_range".into(), range_json(&f.block_range));
        }
        o.insert("filter".into(), Value::Object(fo));
    }
    if let Some(w) = sk.with_data {
        o.insert("with_data".into(), json!(w));
    }
    if let Some(g) = sk.group {
        o.insert("group_by_transaction".into(), json!(g));
    }
    Value::Object(o)
}

#[derive(Clone, Copy, Debug, PartialEq, Eq)]
pub enum Method {
    Cells,
    Capacity,
    Txs,
}

impl Method {
    pub fn name(&self) -> &'static str {
        match self {
            Method::Cells => "get_cells",
            Method::Capacity => "get_cells_capacity",
            Method::Txs => "get_transactions",
        }
    }
}

/// Scripts worth searching for: every distinct lock / type script of the model's history plus
/// derived absent / hostile ones (one more args byte incl. 0x00, one less, other hash type,
/// other code hash).
pub struct ScriptPool {
    pub locks: Vec<Scr>,
    pub types: Vec<Scr>,
    pub derived: Vec<Scr>,
}

pub fn script_pool(m: &Model) -> ScriptPool {
    let mut locks = BTreeSet::new();
    let mut types = BTreeSet::new();
    for e in &m.evs {
        locks.insert(e.lock.clone());
        if let Some(t) = &e.type_ {
            types.insert(t.clone());
        }
    }
    let mut derived = BTreeSet::new();
    for s in locks.iter().chain(types.iter()) {
        for extra in [0u8, 0xff, 7] {
            let mut a = s.args.clone();
            a.push(extra);
            derived.insert(Scr { args: a, ..s.clone() });
        }
        let mut a = s.args.clone();
        a.extend_from_slice(&[0, 0]);
        derived.insert(Scr { args: a, ..s.clone() });
        if !s.args.is_empty() {
            let a = s.args[..s.args.len() - 1].to_vec();
            derived.insert(Scr { args: a, ..s.clone() });
            // a middle / tail slice (matters for partial mode)
            let a = s.args[1..].to_vec();
            derived.insert(Scr { args: a, ..s.clone() });
        }
        derived.insert(Scr { hash_type: if s.hash_type == 1 { 2 } else { 1 }, ..s.clone() });
        let mut ch = s.code_hash;
        ch[31] ^= 1;
        derived.insert(Scr { code_hash: ch, ..s.clone() });
    }
    let derived: Vec<Scr> = derived
        .into_iter()
        .filter(|s| !locks.contains(s) && !types.contains(s))
        .collect();
    ScriptPool {
        locks: locks.into_iter().collect(),
        types: types.into_iter().collect(),
        derived,
    }
}

fn around(rng: &mut Rng, x: u64, max: u64) -> (u64, u64) {
    match rng.below(9) {
        0 => (x, x + 1),
        1 => (x, x),
        2 => (0, x),
        3 => (0, x + 1),
        4 => (x + 1, max),
        5 => (x, max),
        6 => (x.saturating_sub(rng.below(4)), x + rng.below(4)),
        7 => (0, max),
        _ => {
            let a = rng.below(max.max(1));
            let b = rng.below(max.max(1) + 1);
            (a.min(b), a.max(b))
        }
    }
}

fn slice_of(rng: &mut Rng, d: &[u8], how: u64) -> Vec<u8> {
    if d.is_empty() {
        return vec![];
    }
    match how {
        // prefix
        0 => d[..1 + rng.usize_below(d.len())].to_vec(),
        // middle
        1 => {
            let a = rng.usize_below(d.len());
            let b = a + 1 + rng.usize_below(d.len() - a);
            d[a..b].to_vec()
        }
        // whole
        _ => d.to_vec(),
    }
}

/// A filter built around `c` (a cell of the unfiltered answer when there is one), so that the
/// boundaries of every range fall on real values.
pub fn gen_filter(rng: &mut Rng, sk_is_lock: bool, c: Option<&Cell>, m: &Model, pool: &ScriptPool, for_txs: bool) -> Filt {
    let tipn = m.tip.map(|t| t.0).unwrap_or(0);
    let mut f = Filt::default();
    let n_kinds = if rng.chance(650, 1000) { 1 } else { 2 + rng.below(2) };
    for _ in 0..n_kinds {
        let kind = if for_txs { [0u64, 5][rng.usize_below(2)] } else { rng.below(6) };
        match kind {
            0 => {
                let other: Option<Scr> = c.and_then(|c| if sk_is_lock { c.type_.clone() } else { Some(c.lock.clone()) });
                let s = match (other, rng.below(10)) {
                    (Some(o), 0..=3) => o,
                    (Some(o), 4..=5) if !o.args.is_empty() => {
                        let k = rng.usize_below(o.args.len());
                        Scr { args: o.args[..k].to_vec(), ..o }
                    }
                    (Some(o), 6) => {
                        let mut a = o.args.clone();
                        a.push(0);
                        Scr { args: a, ..o }
                    }
                    _ => {
                        let src = if sk_is_lock { &pool.types } else { &pool.locks };
                        if !src.is_empty() && rng.chance(700, 1000) {
                            rng.pick(src).clone()
                        } else if !pool.derived.is_empty() {
                            rng.pick(&pool.derived).clone()
                        } else {
                            continue;
                        }
                    }
                };
                f.script = Some(s);
            }
            1 => {
                let l = c
                    .map(|c| if sk_is_lock { c.type_.as_ref().map(|t| t.len()).unwrap_or(0) } else { c.lock.len() })
                    .unwrap_or(33);
                f.script_len_range = Some(around(rng, l, 48));
            }
            2 => {
                let d: Vec<u8> = c.map(|c| c.data.clone()).unwrap_or_default();
                let mode = match rng.below(4) {
                    0 => None,
                    1 => Some(Mode::Prefix),
                    2 => Some(Mode::Exact),
                    _ => Some(Mode::Partial),
                };
                let how = match mode {
                    Some(Mode::Exact) => 2,
                    Some(Mode::Partial) => 1,
                    _ => 0,
                };
                let how = if rng.chance(800, 1000) { how } else { rng.below(3) };
                let mut v = slice_of(rng, &d, how);
                if rng.chance(80, 1000) {
                    v.push(0x5a);
                }
                f.output_data = Some(v);
                f.output_data_mode = mode;
            }
            3 => {
                let l = c.map(|c| c.data.len() as u64).unwrap_or(0);
                f.output_data_len_range = Some(around(rng, l, 64));
            }
            4 => {
                let cap = c.map(|c| c.capacity).unwrap_or(100_000_0000_0000);
                f.output_capacity_range = Some(around(rng, cap, u64::MAX / 4));
            }
            _ => {
                let bn = c.map(|c| c.block_number).unwrap_or(tipn / 2);
                f.block_range = Some(around(rng, bn, tipn + 2));
            }
        }
    }
    f
}

/// Generate `n` (method, search key) pairs for the model state `m`.
pub fn gen_keys(rng: &mut Rng, m: &Model, pool: &ScriptPool, n: usize) -> Vec<(Method, SK)> {
    gen_keys_for(rng, m, pool, n, false)
}

/// `rich`: keys for the rich-indexer (documented to support `partial` script search and every
/// filter kind also in get_transactions): more partial-mode keys, all filter kinds for
/// get_transactions. With `rich == false` this is exactly `gen_keys`.
pub fn gen_keys_for(rng: &mut Rng, m: &Model, pool: &ScriptPool, n: usize, rich: bool) -> Vec<(Method, SK)> {
    let mut out = vec![];
    let live: Vec<&Cell> = m.live.values().collect();
    for _ in 0..n {
        let method = match rng.below(10) {
            0..=4 => Method::Cells,
            5..=6 => Method::Capacity,
            _ => Method::Txs,
        };
        let is_lock = rng.chance(550, 1000);
        let own = if is_lock { &pool.locks } else { &pool.types };
        let cross = if is_lock { &pool.types } else { &pool.locks };
        let script = match rng.below(10) {
            0..=5 if !own.is_empty() => rng.pick(own).clone(),
            6 if !cross.is_empty() => rng.pick(cross).clone(),
            _ if !pool.derived.is_empty() => rng.pick(&pool.derived).clone(),
            _ if !own.is_empty() => rng.pick(own).clone(),
            _ => continue,
        };
        let mode = match (rng.below(20), rich) {
            (0..=7, false) | (0..=5, true) => Some(Mode::Exact),
            (8..=14, false) | (6..=11, true) => Some(Mode::Prefix),
            (15..=18, false) | (12..=14, true) => None,
            _ => Some(Mode::Partial),
        };
        let mut sk = SK { script, is_lock, mode, filter: None, with_data: None, group: None };
        if method == Method::Cells {
            sk.with_data = match rng.below(4) {
                0 => Some(false),
                1 => Some(true),
                _ => None,
            };
        }
        if method == Method::Txs {
            sk.group = match rng.below(5) {
                0..=1 => Some(true),
                2 => Some(false),
                _ => None,
            };
            // the documentation promises prefix search only for ungrouped answers
            if sk.grouped() {
                sk.mode = Some(Mode::Exact);
            }
        }
        if rng.chance(550, 1000) {
            // anchor the filter on a cell of the unfiltered answer (or any live cell)
            let base: Vec<&&Cell> = live.iter().filter(|c| sk.cell_matches(c)).collect();
            let c: Option<&Cell> = if !base.is_empty() {
                Some(**rng.pick(&base))
            } else if !live.is_empty() && rng.bool() {
                Some(*rng.pick(&live))
            } else {
                None
            };
            sk.filter = Some(gen_filter(rng, is_lock, c, m, pool, method == Method::Txs && !rich));
        }
        out.push((method, sk));
    }
    out
}
