//! The C18 oracle: answers of the real query handle vs direct filters over the model.

use crate::keys::{self, Method};
use crate::model::{Cell, Ev, H, Mode, Model, Quirks, SK, Scr};
use ckb_indexer::IndexerHandle;
use ckb_jsonrpc_types::{IndexerCellType, IndexerOrder, IndexerTx, JsonBytes, Uint32};
use ckb_types::packed;
use ckb_types::prelude::*;
use serde_json::{Value, json};
use std::collections::{BTreeMap, HashSet};
use vbase::{Report, Rng};

pub const BIG: u32 = 1_000_000;

#[derive(Clone, Debug, PartialEq, Eq, PartialOrd, Ord)]
pub struct CellAns {
    pub block_number: u64,
    pub tx_index: u32,
    pub index: u32,
    pub tx_hash: H,
    pub output: Vec<u8>,
    pub data: Option<Vec<u8>>,
}

#[derive(Clone, Debug, PartialEq, Eq, PartialOrd, Ord)]
pub struct TxAns {
    pub block_number: u64,
    pub tx_index: u32,
    pub io_index: u32,
    pub is_output: bool,
    pub tx_hash: H,
}

#[derive(Clone, Debug, PartialEq, Eq, PartialOrd, Ord)]
pub struct GroupAns {
    pub block_number: u64,
    pub tx_index: u32,
    pub tx_hash: H,
    pub cells: Vec<(bool, u32)>,
}

#[derive(Clone, Debug, PartialEq, Eq, PartialOrd, Ord)]
pub enum TxItem {
    U(TxAns),
    G(GroupAns),
}

pub(crate) fn sh(x: &H) -> String {
    vbase::hex(&x[..5])
}

impl CellAns {
    pub(crate) fn of(c: &Cell, with_data: bool) -> CellAns {
        CellAns {
            block_number: c.block_number,
            tx_index: c.tx_index,
            index: c.index,
            tx_hash: c.tx_hash,
            output: c.output.clone(),
            data: if with_data { Some(c.data.clone()) } else { None },
        }
    }
    pub(crate) fn show(&self) -> String {
        let out = packed::CellOutput::from_slice(&self.output).ok();
        let (cap, lock, ty) = match &out {
            Some(o) => {
                let cap: u64 = o.capacity().into();
                (
                    cap,
                    Scr::from_packed(&o.lock()).short(),
                    o.type_().to_opt().map(|t| Scr::from_packed(&t).short()),
                )
            }
            None => (0, "?".into(), None),
        };
        format!(
            "#{}/tx{} {}:{} cap={} lock={} type={:?} data={}",
            self.block_number,
            self.tx_index,
            sh(&self.tx_hash),
            self.index,
            cap,
            lock,
            ty,
            match &self.data {
                Some(d) => format!("0x{}", vbase::hex(d)),
                None => "null".into(),
            }
        )
    }
}

impl TxAns {
    pub(crate) fn of(e: &Ev) -> TxAns {
        TxAns {
            block_number: e.block_number,
            tx_index: e.tx_index,
            io_index: e.io_index,
            is_output: e.is_output,
            tx_hash: e.tx_hash,
        }
    }
    pub(crate) fn show(&self) -> String {
        format!(
            "#{}/tx{} {} {}[{}]",
            self.block_number,
            self.tx_index,
            sh(&self.tx_hash),
            if self.is_output { "output" } else { "input" },
            self.io_index
        )
    }
}

impl TxItem {
    pub(crate) fn show(&self) -> String {
        match self {
            TxItem::U(t) => t.show(),
            TxItem::G(g) => format!(
                "#{}/tx{} {} cells={:?}",
                g.block_number,
                g.tx_index,
                sh(&g.tx_hash),
                g.cells.iter().map(|(o, i)| format!("{}[{}]", if *o { "output" } else { "input" }, i)).collect::<Vec<_>>()
            ),
        }
    }
}

pub(crate) fn show_list<T>(v: &[T], f: impl Fn(&T) -> String) -> Value {
    let mut out: Vec<String> = v.iter().take(16).map(&f).collect();
    if v.len() > 16 {
        out.push(format!("... {} in total", v.len()));
    }
    json!(out)
}

fn order(desc: bool) -> IndexerOrder {
    if desc { IndexerOrder::Desc } else { IndexerOrder::Asc }
}

pub fn rpc_cells(hd: &IndexerHandle, sk: &SK, desc: bool, limit: u32, after: Option<Vec<u8>>) -> Result<(Vec<CellAns>, Vec<u8>), String> {
    let r = hd
        .get_cells(keys::to_rpc(sk), order(desc), Uint32::from(limit), after.map(JsonBytes::from_vec))
        .map_err(|e| e.to_string())?;
    let cursor = r.last_cursor.as_bytes().to_vec();
    let cells = r
        .objects
        .into_iter()
        .map(|c| {
            let op: packed::OutPoint = c.out_point.into();
            let out: packed::CellOutput = c.output.into();
            let index: u32 = op.index().into();
            CellAns {
                block_number: c.block_number.value(),
                tx_index: c.tx_index.value(),
                index,
                tx_hash: crate::model::h(&op.tx_hash()),
                output: out.as_slice().to_vec(),
                data: c.output_data.map(|d| d.as_bytes().to_vec()),
            }
        })
        .collect();
    Ok((cells, cursor))
}

pub fn rpc_txs(hd: &IndexerHandle, sk: &SK, desc: bool, limit: u32, after: Option<Vec<u8>>) -> Result<(Vec<TxItem>, Vec<u8>), String> {
    let r = hd
        .get_transactions(keys::to_rpc(sk), order(desc), Uint32::from(limit), after.map(JsonBytes::from_vec))
        .map_err(|e| e.to_string())?;
    let cursor = r.last_cursor.as_bytes().to_vec();
    let is_out = |t: &IndexerCellType| matches!(t, IndexerCellType::Output);
    let items = r
        .objects
        .into_iter()
        .map(|t| match t {
            IndexerTx::Ungrouped(u) => TxItem::U(TxAns {
                block_number: u.block_number.value(),
                tx_index: u.tx_index.value(),
                io_index: u.io_index.value(),
                is_output: is_out(&u.io_type),
                tx_hash: u.tx_hash.0,
            }),
            IndexerTx::Grouped(g) => TxItem::G(GroupAns {
                block_number: g.block_number.value(),
                tx_index: g.tx_index.value(),
                tx_hash: g.tx_hash.0,
                cells: g.cells.iter().map(|(t, i)| (is_out(t), i.value())).collect(),
            }),
        })
        .collect();
    Ok((items, cursor))
}

pub fn rpc_capacity(hd: &IndexerHandle, sk: &SK) -> Result<Option<(u64, u64, H)>, String> {
    let r = hd.get_cells_capacity(keys::to_rpc(sk)).map_err(|e| e.to_string())?;
    Ok(r.map(|c| (c.capacity.value(), c.block_number.value(), c.block_hash.0)))
}

/// Everything a comparison needs to know about where it happens.
pub struct Ctx<'a> {
    pub hd: &'a IndexerHandle,
    pub m: &'a Model,
    pub r: &'a mut Report,
    pub rng: &'a mut Rng,
    /// history parameters for witnesses
    pub hist: &'a Value,
    pub keyset: &'a mut HashSet<u64>,
    /// false: only observe (reorg deeper than the retention happened) — mismatches are counted
    pub assert: bool,
}

pub fn tag_pub(sk: &SK) -> String {
    tag(sk)
}

pub(crate) fn tag(sk: &SK) -> String {
    let mode = sk.mode.map(|m| m.name()).unwrap_or("default");
    let mut s = format!("{}.{}", if sk.is_lock { "lock" } else { "type" }, mode);
    if let Some(f) = &sk.filter {
        let k = f.kinds();
        if !k.is_empty() {
            s.push_str(&format!("+{}", k.join("+")));
        }
    }
    if sk.grouped() {
        s.push_str("+grouped");
    }
    s
}

impl<'a> Ctx<'a> {
    fn tip_json(&self) -> Value {
        match &self.m.tip {
            Some((n, hh)) => json!({"number": n, "hash": format!("0x{}", vbase::hex(hh))}),
            None => Value::Null,
        }
    }

    fn fail(&mut self, sig: String, detail: String, sk: &SK, extra: Value) {
        if !self.assert {
            self.r.count(&format!("obs.beyond_retention.mismatch::{}", sig.split('@').next().unwrap_or("?")));
            return;
        }
        let w = json!({
            "history": self.hist,
            "indexer_tip": self.tip_json(),
            "search_key": keys::to_json(sk),
            "observation": extra,
        });
        self.r.violation(&sig, detail, w);
    }

    fn book(&mut self, method: Method, sk: &SK) {
        let mode = sk.mode.map(|m| m.name()).unwrap_or("default");
        self.r.count(&format!("queries.{}.{}", method.name(), mode));
        self.r.count(&format!("queries.by_{}", if sk.is_lock { "lock" } else { "type" }));
        if let Some(f) = &sk.filter {
            for k in f.kinds() {
                self.r.count(&format!("queries.filter.{k}"));
            }
        } else {
            self.r.count("queries.filter.none");
        }
        if sk.with_data == Some(false) {
            self.r.count("queries.with_data_false");
        }
        if sk.grouped() {
            self.r.count("queries.grouped");
        }
        let kj = keys::to_json(sk).to_string();
        self.keyset.insert(vbase::fnv1a(format!("{}{}", method.name(), kj).as_bytes()));
        let tip = self.m.tip.map(|t| t.1).unwrap_or([0; 32]);
        self.r.distinct(vbase::fnv1a(format!("{}{}{}", method.name(), kj, vbase::hex(&tip)).as_bytes()));
    }

    pub fn check(&mut self, method: Method, sk: &SK) {
        self.book(method, sk);
        match method {
            Method::Cells => self.check_cells(sk),
            Method::Capacity => self.check_capacity(sk),
            Method::Txs => self.check_txs(sk),
        }
    }

    /// `get_indexer_tip` == the tip the driver followed.
    pub fn check_tip(&mut self) {
        self.r.eval();
        self.r.count("queries.get_indexer_tip");
        let got = self.hd.get_indexer_tip().map_err(|e| e.to_string()).map(|t| t.map(|t| (t.block_number.value(), t.block_hash.0)));
        let want = self.m.tip;
        if got != Ok(want) {
            let sk = SK { script: Scr { code_hash: [0; 32], hash_type: 0, args: vec![] }, is_lock: true, mode: None, filter: None, with_data: None, group: None };
            self.fail(
                "get_indexer_tip.differs_from_followed_tip".into(),
                format!("get_indexer_tip returned {:?}, the blocks appended/rolled back lead to {:?}", got.as_ref().map(|o| o.map(|(n, x)| (n, sh(&x)))), want.map(|(n, x)| (n, sh(&x)))),
                &sk,
                json!({}),
            );
        }
    }

    /// Names for a deviation that is exactly explained by a hypothesised quirk (diagnosis only:
    /// whether there IS a deviation was decided by the documented semantics before).
    fn diagnose(method: &str, explains: impl Fn(Quirks) -> bool) -> Vec<String> {
        let len = format!("{method}.script_len_range_upper_bound_is_inclusive");
        let zero = format!("{method}.prefix_search_matches_scripts_with_shorter_args@search_args_end_with_zero_bytes");
        // the listed key-layout finding first: when it alone explains the answer (its precondition
        // - search args ending in zero bytes - is part of the model's quirk), nothing points at the
        // length-range bound, even if that would happen to give the same sum for this cell set
        if explains(Quirks { len_end_inclusive: false, zero_prefix: true }) {
            vec![zero]
        } else if explains(Quirks { len_end_inclusive: true, zero_prefix: false }) {
            vec![len]
        } else if explains(Quirks { len_end_inclusive: true, zero_prefix: true }) {
            vec![len, zero]
        } else {
            vec![]
        }
    }

    fn check_cells(&mut self, sk: &SK) {
        self.r.eval();
        let full = match rpc_cells(self.hd, sk, false, BIG, None) {
            Ok((c, _)) => c,
            Err(e) => {
                if sk.mode == Some(Mode::Partial) {
                    // documented for this module: script_search_mode is prefix | exact
                    self.r.count("queries.partial_rejected");
                } else {
                    self.fail(format!("get_cells.unexpected_error@{}", tag(sk)), format!("get_cells failed: {e}"), sk, json!({"error": e}));
                }
                return;
            }
        };
        let wd = sk.with_data();
        let exp: Vec<CellAns> = self.m.cells_for(sk).into_iter().map(|c| CellAns::of(c, wd)).collect();
        if !exp.is_empty() {
            self.r.count("answers.nonempty");
        } else {
            self.r.count("answers.empty");
        }
        // (a) the set
        let mut a = full.clone();
        a.sort();
        let mut e = exp.clone();
        e.sort();
        if a != e {
            let extra: Vec<CellAns> = a.iter().filter(|x| !e.contains(x)).cloned().collect();
            let missing: Vec<CellAns> = e.iter().filter(|x| !a.contains(x)).cloned().collect();
            let sig = format!(
                "get_cells.{}@{}",
                match (extra.is_empty(), missing.is_empty()) {
                    (false, true) => "extra_cells",
                    (true, false) => "missing_cells",
                    _ => "wrong_cells",
                },
                tag(sk)
            );
            let named = Self::diagnose("get_cells", |q| {
                let mut v: Vec<CellAns> = self.m.cells_for_with(sk, q).into_iter().map(|c| CellAns::of(c, wd)).collect();
                v.sort();
                v == a
            });
            let sigs = if named.is_empty() { vec![sig] } else { named };
            for sig in sigs {
            self.fail(
                sig,
                format!("get_cells (asc, no cursor) returned {} cells, the filter over the model's live cells gives {}: {} extra, {} missing", a.len(), e.len(), extra.len(), missing.len()),
                sk,
                json!({"order": "asc", "limit": BIG, "extra": show_list(&extra, |c| c.show()), "missing": show_list(&missing, |c| c.show()),
                       "expected": show_list(&exp, |c| c.show()), "actual": show_list(&full, |c| c.show())}),
            );
            }
            return;
        }
        // (b) the order: (block number, tx index, output index) within one script
        let ordered = if sk.eff_mode() == Mode::Exact {
            full == exp
        } else {
            let mut last: BTreeMap<Scr, (u64, u32, u32)> = BTreeMap::new();
            full.iter().all(|x| {
                let c = &self.m.live[&(x.tx_hash, x.index)];
                let s = sk.cell_script(c).clone();
                let pos = (x.block_number, x.tx_index, x.index);
                match last.insert(s, pos) {
                    Some(prev) => prev < pos,
                    None => true,
                }
            })
        };
        if !ordered {
            self.fail(
                format!("get_cells.order@{}", tag(sk)),
                "ascending answer is not ordered by (block number, tx index, output index) within a script".into(),
                sk,
                json!({"expected": show_list(&exp, |c| c.show()), "actual": show_list(&full, |c| c.show())}),
            );
            return;
        }
        // (c) desc == reverse(asc)
        let desc_full = match rpc_cells(self.hd, sk, true, BIG, None) {
            Ok((c, _)) => c,
            Err(e) => {
                self.fail(format!("get_cells.unexpected_error@desc.{}", tag(sk)), format!("get_cells desc failed: {e}"), sk, json!({"error": e}));
                return;
            }
        };
        self.r.eval();
        self.r.count("queries.order_desc");
        let mut rev = full.clone();
        rev.reverse();
        if desc_full != rev {
            self.fail(
                format!("get_cells.desc_is_not_reverse_of_asc@{}", tag(sk)),
                "descending answer differs from the reversed ascending answer".into(),
                sk,
                json!({"asc": show_list(&full, |c| c.show()), "desc": show_list(&desc_full, |c| c.show())}),
            );
            return;
        }
        // (d) pages
        let desc = self.rng.bool();
        let limit = *self.rng.pick(&[1u32, 2, 3, 7]);
        let want = if desc { &rev } else { &full };
        let mut got: Vec<CellAns> = vec![];
        let mut after: Option<Vec<u8>> = None;
        let mut pages = 0usize;
        let max_pages = want.len() / limit as usize + 3;
        loop {
            let (page, cursor) = match rpc_cells(self.hd, sk, desc, limit, after.clone()) {
                Ok(x) => x,
                Err(e) => {
                    self.fail(format!("get_cells.unexpected_error@paging.{}", tag(sk)), format!("get_cells page failed: {e}"), sk, json!({"error": e}));
                    return;
                }
            };
            pages += 1;
            self.r.count("pages_walked");
            let n = page.len();
            got.extend(page);
            if n > limit as usize || n < limit as usize || pages > max_pages {
                if n > limit as usize {
                    got.push(got[0].clone()); // force a difference below
                }
                break;
            }
            after = Some(cursor);
        }
        self.r.eval();
        if pages > 1 {
            self.r.count("walks_with_several_pages");
        }
        if pages > 2 && sk.filter.is_some() && self.r.counter("sampled_queries") < 2 {
            self.r.count("sampled_queries");
            let s = json!({"method": "get_cells", "search_key": keys::to_json(sk), "indexer_tip": self.tip_json(), "cells_in_answer": want.len(),
                           "paged": {"order": if desc {"desc"} else {"asc"}, "limit": limit, "pages": pages}, "first_cells": show_list(&full[..full.len().min(3)], |c| c.show())});
            self.r.sample(s);
        }
        if &got != want {
            let dup = {
                let mut s = got.clone();
                s.sort();
                s.windows(2).any(|w| w[0] == w[1])
            };
            self.fail(
                format!("get_cells.paging.{}@{}.{}", if dup { "duplicates" } else if got.len() < want.len() { "gap" } else { "differs" }, if desc { "desc" } else { "asc" }, tag(sk)),
                format!("pages of {limit} concatenated ({} cells in {pages} pages) differ from the full {} answer ({} cells)", got.len(), if desc { "desc" } else { "asc" }, want.len()),
                sk,
                json!({"order": if desc {"desc"} else {"asc"}, "limit": limit, "full": show_list(want, |c| c.show()), "concatenated_pages": show_list(&got, |c| c.show())}),
            );
        }
    }

    fn check_capacity(&mut self, sk: &SK) {
        self.r.eval();
        let got = match rpc_capacity(self.hd, sk) {
            Ok(x) => x,
            Err(e) => {
                if sk.mode == Some(Mode::Partial) {
                    self.r.count("queries.partial_rejected");
                } else {
                    self.fail(format!("get_cells_capacity.unexpected_error@{}", tag(sk)), format!("get_cells_capacity failed: {e}"), sk, json!({"error": e}));
                }
                return;
            }
        };
        self.judge_capacity(sk, got);
    }

    /// Judge one `get_cells_capacity` answer against the model `self.m` (which must be the model
    /// of the tip the answer names, or of the indexer's tip for a sequential query).
    pub fn judge_capacity(&mut self, sk: &SK, got: Option<(u64, u64, H)>) {
        let cells = self.m.cells_for(sk);
        let sum: u64 = cells.iter().map(|c| c.capacity).sum();
        if !cells.is_empty() {
            self.r.count("answers.nonempty");
        } else {
            self.r.count("answers.empty");
        }
        let want = self.m.tip.map(|(n, hh)| (sum, n, hh));
        if got == want {
            return;
        }
        let sig = format!("get_cells_capacity.{}@{}", match (&got, &want) {
            (Some(g), Some(w)) if g.0 != w.0 && (g.1, g.2) == (w.1, w.2) => "wrong_sum",
            (Some(_), Some(_)) => "wrong_tip",
            _ => "null_mismatch",
        }, tag(sk));
        let mut sigs = vec![sig];
        if let (Some(g), Some(w)) = (&got, &want) {
            if (g.1, g.2) == (w.1, w.2) {
                let named = Self::diagnose("get_cells_capacity", |q| self.m.cells_for_with(sk, q).iter().map(|c| c.capacity).sum::<u64>() == g.0);
                if !named.is_empty() {
                    sigs = named;
                }
            }
        }
        for sig in sigs {
        self.fail(
            sig,
            format!("get_cells_capacity returned {:?}, the model gives {:?} (sum over {} cells)", got.map(|(c, n, x)| (c, n, sh(&x))), want.map(|(c, n, x)| (c, n, sh(&x))), cells.len()),
            sk,
            json!({"expected_capacity": want.map(|w| w.0), "actual_capacity": got.map(|g| g.0),
                   "expected_cells": show_list(&cells, |c| CellAns::of(c, false).show())}),
        );
        }
    }

    fn group(evs: &[TxAns]) -> Vec<TxItem> {
        let mut out: Vec<GroupAns> = vec![];
        for e in evs {
            match out.last_mut() {
                Some(g) if g.tx_hash == e.tx_hash => g.cells.push((e.is_output, e.io_index)),
                _ => out.push(GroupAns { block_number: e.block_number, tx_index: e.tx_index, tx_hash: e.tx_hash, cells: vec![(e.is_output, e.io_index)] }),
            }
        }
        out.into_iter().map(TxItem::G).collect()
    }

    fn check_txs(&mut self, sk: &SK) {
        self.r.eval();
        let full = match rpc_txs(self.hd, sk, false, BIG, None) {
            Ok((c, _)) => c,
            Err(e) => {
                if sk.mode == Some(Mode::Partial) {
                    self.r.count("queries.partial_rejected");
                } else {
                    self.fail(format!("get_transactions.unexpected_error@{}", tag(sk)), format!("get_transactions failed: {e}"), sk, json!({"error": e}));
                }
                return;
            }
        };
        let evs = self.m.evs_for(sk);
        let exp_u: Vec<TxAns> = evs.iter().map(|e| TxAns::of(e)).collect();
        if !exp_u.is_empty() {
            self.r.count("answers.nonempty");
        } else {
            self.r.count("answers.empty");
        }
        let grouped = sk.grouped();
        let exp: Vec<TxItem> = if grouped { Self::group(&exp_u) } else { exp_u.iter().cloned().map(TxItem::U).collect() };
        let mut a = full.clone();
        a.sort();
        let mut e = exp.clone();
        e.sort();
        if a != e {
            let extra: Vec<TxItem> = a.iter().filter(|x| !e.contains(x)).cloned().collect();
            let missing: Vec<TxItem> = e.iter().filter(|x| !a.contains(x)).cloned().collect();
            let sig = format!(
                "get_transactions.{}@{}",
                match (extra.is_empty(), missing.is_empty()) {
                    (false, true) => "extra_entries",
                    (true, false) => "missing_entries",
                    _ => "wrong_entries",
                },
                tag(sk)
            );
            let named = if grouped {
                vec![]
            } else {
                Self::diagnose("get_transactions", |q| {
                    let mut v: Vec<TxItem> = self.m.evs_for_with(sk, q).into_iter().map(|e| TxItem::U(TxAns::of(e))).collect();
                    v.sort();
                    v == a
                })
            };
            let sigs = if named.is_empty() { vec![sig] } else { named };
            for sig in sigs {
            self.fail(
                sig,
                format!("get_transactions (asc, no cursor) returned {} entries, the model's transaction history gives {}: {} extra, {} missing", a.len(), e.len(), extra.len(), missing.len()),
                sk,
                json!({"order": "asc", "limit": BIG, "extra": show_list(&extra, |c| c.show()), "missing": show_list(&missing, |c| c.show()),
                       "expected": show_list(&exp, |c| c.show()), "actual": show_list(&full, |c| c.show())}),
            );
            }
            return;
        }
        let ordered = if sk.eff_mode() == Mode::Exact {
            full == exp
        } else {
            // per script: (block number, tx index, io index, input before output) ascending
            let mut last: BTreeMap<Scr, TxAns> = BTreeMap::new();
            let mut by_pos: BTreeMap<TxAns, Vec<&Ev>> = BTreeMap::new();
            for ev in &evs {
                by_pos.entry(TxAns::of(ev)).or_default().push(ev);
            }
            full.iter().all(|x| match x {
                TxItem::U(t) => {
                    // several scripts can share one position only if they are different scripts
                    // (lock search: one lock per cell) — so the first is the one
                    let ev = by_pos[t][0];
                    let s = sk.ev_script(ev).clone();
                    match last.insert(s, t.clone()) {
                        Some(prev) => prev < *t,
                        None => true,
                    }
                }
                _ => false,
            })
        };
        if !ordered {
            self.fail(
                format!("get_transactions.order@{}", tag(sk)),
                "ascending answer is not ordered by (block number, tx index, io index, input before output) within a script".into(),
                sk,
                json!({"expected": show_list(&exp, |c| c.show()), "actual": show_list(&full, |c| c.show())}),
            );
            return;
        }
        // desc
        let desc_full = match rpc_txs(self.hd, sk, true, BIG, None) {
            Ok((c, _)) => c,
            Err(e) => {
                self.fail(format!("get_transactions.unexpected_error@desc.{}", tag(sk)), format!("get_transactions desc failed: {e}"), sk, json!({"error": e}));
                return;
            }
        };
        self.r.eval();
        self.r.count("queries.order_desc");
        let rev: Vec<TxItem> = if grouped {
            // groups in reverse order, cells inside a group in reverse order
            let mut u = exp_u.clone();
            u.reverse();
            Self::group(&u)
        } else {
            let mut r = full.clone();
            r.reverse();
            r
        };
        if desc_full != rev {
            self.fail(
                format!("get_transactions.desc_is_not_reverse_of_asc@{}", tag(sk)),
                "descending answer differs from the reversed ascending answer".into(),
                sk,
                json!({"asc": show_list(&full, |c| c.show()), "desc": show_list(&desc_full, |c| c.show())}),
            );
            return;
        }
        // pages
        let desc = self.rng.bool();
        let limit = *self.rng.pick(&[1u32, 2, 3, 7]);
        let want = if desc { &rev } else { &full };
        let mut got: Vec<TxItem> = vec![];
        let mut after: Option<Vec<u8>> = None;
        let mut pages = 0usize;
        let max_pages = want.len() / limit as usize + 3;
        loop {
            let (page, cursor) = match rpc_txs(self.hd, sk, desc, limit, after.clone()) {
                Ok(x) => x,
                Err(e) => {
                    self.fail(format!("get_transactions.unexpected_error@paging.{}", tag(sk)), format!("get_transactions page failed: {e}"), sk, json!({"error": e}));
                    return;
                }
            };
            pages += 1;
            self.r.count("pages_walked");
            let n = page.len();
            got.extend(page);
            if n != limit as usize || pages > max_pages {
                if n > limit as usize {
                    got.push(got[0].clone());
                }
                break;
            }
            after = Some(cursor);
        }
        self.r.eval();
        if pages > 1 {
            self.r.count("walks_with_several_pages");
        }
        if &got != want {
            let dup = {
                let mut s = got.clone();
                s.sort();
                s.windows(2).any(|w| w[0] == w[1])
            };
            self.fail(
                format!("get_transactions.paging.{}@{}.{}", if dup { "duplicates" } else if got.len() < want.len() { "gap" } else { "differs" }, if desc { "desc" } else { "asc" }, tag(sk)),
                format!("pages of {limit} concatenated ({} entries in {pages} pages) differ from the full {} answer ({} entries)", got.len(), if desc { "desc" } else { "asc" }, want.len()),
                sk,
                json!({"order": if desc {"desc"} else {"asc"}, "limit": limit, "full": show_list(want, |c| c.show()), "concatenated_pages": show_list(&got, |c| c.show())}),
            );
        }
    }
}

/// All answers (as the JSON the RPC would serialise) for a set of keys: used to require that
/// `append(b); rollback()` restores every answer.
pub fn snapshot_answers(hd: &IndexerHandle, ks: &[(Method, SK)]) -> Vec<Value> {
    let ser = |r: Result<Value, String>| match r {
        Ok(v) => v,
        Err(e) => json!({"error": e}),
    };
    let mut out = vec![];
    out.push(ser(hd.get_indexer_tip().map_err(|e| e.to_string()).map(|t| serde_json::to_value(t).unwrap())));
    for (m, sk) in ks {
        match m {
            Method::Cells => {
                for desc in [false, true] {
                    let r = hd.get_cells(keys::to_rpc(sk), order(desc), Uint32::from(BIG), None);
                    out.push(ser(r.map_err(|e| e.to_string()).map(|p| serde_json::to_value(p).unwrap())));
                }
                // two pages with a cursor
                let p1 = hd.get_cells(keys::to_rpc(sk), order(true), Uint32::from(2u32), None);
                if let Ok(p1) = p1 {
                    let cur = p1.last_cursor.clone();
                    out.push(serde_json::to_value(p1).unwrap());
                    let p2 = hd.get_cells(keys::to_rpc(sk), order(true), Uint32::from(2u32), Some(cur));
                    out.push(ser(p2.map_err(|e| e.to_string()).map(|p| serde_json::to_value(p).unwrap())));
                }
            }
            Method::Txs => {
                for desc in [false, true] {
                    let r = hd.get_transactions(keys::to_rpc(sk), order(desc), Uint32::from(BIG), None);
                    out.push(ser(r.map_err(|e| e.to_string()).map(|p| serde_json::to_value(p).unwrap())));
                }
                let p1 = hd.get_transactions(keys::to_rpc(sk), order(false), Uint32::from(2u32), None);
                if let Ok(p1) = p1 {
                    let cur = p1.last_cursor.clone();
                    out.push(serde_json::to_value(p1).unwrap());
                    let p2 = hd.get_transactions(keys::to_rpc(sk), order(false), Uint32::from(2u32), Some(cur));
                    out.push(ser(p2.map_err(|e| e.to_string()).map(|p| serde_json::to_value(p).unwrap())));
                }
            }
            Method::Capacity => {
                let r = hd.get_cells_capacity(keys::to_rpc(sk));
                out.push(ser(r.map_err(|e| e.to_string()).map(|p| serde_json::to_value(p).unwrap())));
            }
        }
    }
    out
}
