//! Reference model for C18: live cells and transaction history folded from the harness's own
//! copies of the main-chain blocks, and the documented meaning of a search key
//! (/repo/rpc/README.md, module Indexer) written as direct filters over that plain data.
//! Shares no code with ckb-indexer (ckb-types is only used to read block fields).

use ckb_types::core::BlockView;
use ckb_types::packed;
use ckb_types::prelude::*;
use std::collections::BTreeMap;

pub type H = [u8; 32];

pub fn h(b: &packed::Byte32) -> H {
    let mut x = [0u8; 32];
    x.copy_from_slice(b.as_slice());
    x
}

/// A script as plain data.
#[derive(Clone, Debug, PartialEq, Eq, PartialOrd, Ord, Hash)]
pub struct Scr {
    pub code_hash: H,
    pub hash_type: u8,
    pub args: Vec<u8>,
}

impl Scr {
    pub fn from_packed(s: &packed::Script) -> Scr {
        Scr {
            code_hash: h(&s.code_hash()),
            hash_type: s.hash_type().as_slice()[0],
            args: s.args().raw_data().to_vec(),
        }
    }
    pub fn to_packed(&self) -> packed::Script {
        packed::Script::new_builder()
            .code_hash(packed::Byte32::from_slice(&self.code_hash).unwrap())
            .hash_type(packed::Byte::new(self.hash_type))
            .args(ckb_types::bytes::Bytes::from(self.args.clone()))
            .build()
    }
    /// "script len" of the `script_len_range` filter: code hash + hash type + args
    /// (the documentation does not define it; stated as an assumption in the evidence).
    pub fn len(&self) -> u64 {
        33 + self.args.len() as u64
    }
    pub fn same_code(&self, o: &Scr) -> bool {
        self.code_hash == o.code_hash && self.hash_type == o.hash_type
    }
    /// `self` matches the search script `key` under `mode`.
    pub fn matches(&self, key: &Scr, mode: Mode) -> bool {
        if !self.same_code(key) {
            return false;
        }
        match mode {
            Mode::Exact => self.args == key.args,
            Mode::Prefix => self.args.starts_with(&key.args),
            Mode::Partial => contains(&self.args, &key.args),
        }
    }
    pub fn short(&self) -> String {
        format!(
            "{}../{}/0x{}",
            vbase::hex(&self.code_hash[..3]),
            self.hash_type,
            vbase::hex(&self.args)
        )
    }
}

/// Sub-slice search (own implementation; an empty needle is contained in everything).
pub fn contains(hay: &[u8], needle: &[u8]) -> bool {
    if needle.is_empty() {
        return true;
    }
    if needle.len() > hay.len() {
        return false;
    }
    (0..=hay.len() - needle.len()).any(|i| &hay[i..i + needle.len()] == needle)
}

#[derive(Clone, Copy, Debug, PartialEq, Eq, Hash)]
pub enum Mode {
    Prefix,
    Exact,
    Partial,
}

impl Mode {
    pub fn name(&self) -> &'static str {
        match self {
            Mode::Prefix => "prefix",
            Mode::Exact => "exact",
            Mode::Partial => "partial",
        }
    }
}

#[derive(Clone, Debug, PartialEq, Eq)]
pub struct Cell {
    pub tx_hash: H,
    pub index: u32,
    /// packed CellOutput bytes
    pub output: Vec<u8>,
    pub lock: Scr,
    pub type_: Option<Scr>,
    pub capacity: u64,
    pub data: Vec<u8>,
    pub block_number: u64,
    pub tx_index: u32,
}

/// One appearance of a cell in a main-chain transaction (as output, or as input: attributed
/// through the scripts of the consumed cell).
#[derive(Clone, Debug, PartialEq, Eq)]
pub struct Ev {
    pub lock: Scr,
    pub type_: Option<Scr>,
    pub tx_hash: H,
    pub block_number: u64,
    pub tx_index: u32,
    pub io_index: u32,
    pub is_output: bool,
    /// capacity / data of the cell that appears (rich-indexer: get_transactions filters on them)
    pub capacity: u64,
    pub data: Vec<u8>,
}

#[derive(Clone, Default)]
pub struct Model {
    pub tip: Option<(u64, H)>,
    pub live: BTreeMap<(H, u32), Cell>,
    pub evs: Vec<Ev>,
    /// cells created and consumed in the same block
    pub same_block_spends: u64,
    /// committed non-cellbase transactions having an output with a type script
    pub typed_txs: u64,
}

impl Model {
    /// Fold blocks genesis..=tip (in order).
    pub fn fold<'a>(blocks: impl Iterator<Item = &'a BlockView>) -> Model {
        let mut m = Model::default();
        for b in blocks {
            m.apply(b);
        }
        m
    }

    pub fn apply(&mut self, block: &BlockView) {
        let number = block.number();
        for (ti, tx) in block.transactions().iter().enumerate() {
            let th = h(&tx.hash());
            if ti > 0 {
                for (ii, op) in tx.input_pts_iter().enumerate() {
                    let idx: u32 = op.index().into();
                    if let Some(c) = self.live.remove(&(h(&op.tx_hash()), idx)) {
                        if c.block_number == number {
                            self.same_block_spends += 1;
                        }
                        self.evs.push(Ev {
                            lock: c.lock,
                            type_: c.type_,
                            tx_hash: th,
                            block_number: number,
                            tx_index: ti as u32,
                            io_index: ii as u32,
                            is_output: false,
                            capacity: c.capacity,
                            data: c.data,
                        });
                    }
                }
            }
            let mut typed = false;
            for (oi, (out, data)) in tx.outputs_with_data_iter().enumerate() {
                let lock = Scr::from_packed(&out.lock());
                let type_ = out.type_().to_opt().map(|s| Scr::from_packed(&s));
                typed |= type_.is_some();
                let capacity: u64 = out.capacity().into();
                self.evs.push(Ev {
                    lock: lock.clone(),
                    type_: type_.clone(),
                    tx_hash: th,
                    block_number: number,
                    tx_index: ti as u32,
                    io_index: oi as u32,
                    is_output: true,
                    capacity,
                    data: data.to_vec(),
                });
                self.live.insert(
                    (th, oi as u32),
                    Cell {
                        tx_hash: th,
                        index: oi as u32,
                        output: out.as_slice().to_vec(),
                        lock,
                        type_,
                        capacity,
                        data: data.to_vec(),
                        block_number: number,
                        tx_index: ti as u32,
                    },
                );
            }
            if typed && ti > 0 {
                self.typed_txs += 1;
            }
        }
        self.tip = Some((number, h(&block.hash())));
    }
}

// -------------------------------------------------------------------------------------------
// search keys as plain data

#[derive(Clone, Debug, Default, PartialEq, Eq)]
pub struct Filt {
    /// the other script (type when searching by lock and vice versa)
    pub script: Option<Scr>,
    pub script_len_range: Option<(u64, u64)>,
    pub output_data: Option<Vec<u8>>,
    pub output_data_mode: Option<Mode>,
    pub output_data_len_range: Option<(u64, u64)>,
    pub output_capacity_range: Option<(u64, u64)>,
    pub block_range: Option<(u64, u64)>,
}

impl Filt {
    pub fn kinds(&self) -> Vec<String> {
        let mut v = vec![];
        if self.script.is_some() {
            v.push("script".to_string());
        }
        if self.script_len_range.is_some() {
            v.push("script_len_range".to_string());
        }
        if self.output_data.is_some() {
            v.push(format!(
                "output_data.{}",
                self.output_data_mode.map(|m| m.name()).unwrap_or("default")
            ));
        }
        if self.output_data_len_range.is_some() {
            v.push("output_data_len_range".to_string());
        }
        if self.output_capacity_range.is_some() {
            v.push("output_capacity_range".to_string());
        }
        if self.block_range.is_some() {
            v.push("block_range".to_string());
        }
        v
    }
}

#[derive(Clone, Debug, PartialEq, Eq)]
pub struct SK {
    pub script: Scr,
    pub is_lock: bool,
    /// None = default (documented: prefix)
    pub mode: Option<Mode>,
    pub filter: Option<Filt>,
    pub with_data: Option<bool>,
    pub group: Option<bool>,
}

/// Hypothesised deviations from the documented semantics. They never decide whether an answer
/// is wrong (the documented semantics alone does); they only give an observed deviation a
/// precise, stable signature.
#[derive(Clone, Copy, Debug, Default, PartialEq, Eq)]
pub struct Quirks {
    /// `script_len_range` treated as [lo, hi] instead of [lo, hi)
    pub len_end_inclusive: bool,
    /// prefix search also returning scripts whose args are the search args minus trailing
    /// 0x00 bytes (the bytes following the args in a byte-wise key comparison being zero)
    pub zero_prefix: bool,
}

pub fn shorter_args_plus_zeros(key: &Scr, s: &Scr) -> bool {
    s.same_code(key) && s.args.len() < key.args.len() && key.args.starts_with(&s.args) && key.args[s.args.len()..].iter().all(|b| *b == 0)
}

fn in_range(x: u64, r: &Option<(u64, u64)>) -> bool {
    match r {
        // [inclusive, exclusive)
        Some((lo, hi)) => *lo <= x && x < *hi,
        None => true,
    }
}

impl SK {
    pub fn eff_mode(&self) -> Mode {
        self.mode.unwrap_or(Mode::Prefix)
    }
    pub fn with_data(&self) -> bool {
        self.with_data.unwrap_or(true)
    }
    pub fn grouped(&self) -> bool {
        self.group.unwrap_or(false)
    }

    fn searched<'a>(&self, lock: &'a Scr, type_: &'a Option<Scr>) -> Option<&'a Scr> {
        if self.is_lock { Some(lock) } else { type_.as_ref() }
    }
    fn other<'a>(&self, lock: &'a Scr, type_: &'a Option<Scr>) -> Option<&'a Scr> {
        if self.is_lock { type_.as_ref() } else { Some(lock) }
    }

    /// get_cells / get_cells_capacity: does the live cell belong to the answer?
    pub fn cell_matches(&self, c: &Cell) -> bool {
        self.cell_matches_with(c, Quirks::default())
    }

    /// `cell_matches` under hypothesised deviations (used only to NAME an observed deviation).
    pub fn cell_matches_with(&self, c: &Cell, q: Quirks) -> bool {
        let Some(s) = self.searched(&c.lock, &c.type_) else {
            return false;
        };
        if !(s.matches(&self.script, self.eff_mode()) || (q.zero_prefix && self.eff_mode() == Mode::Prefix && shorter_args_plus_zeros(&self.script, s))) {
            return false;
        }
        let Some(f) = &self.filter else {
            return true;
        };
        let other = self.other(&c.lock, &c.type_);
        if let Some(fs) = &f.script {
            // "filter cells by type script prefix, and vice versa"
            match other {
                Some(o) if o.matches(fs, Mode::Prefix) => {}
                _ => return false,
            }
        }
        if f.script_len_range.is_some() {
            let l = other.map(|o| o.len()).unwrap_or(0);
            let r = f.script_len_range.map(|(lo, hi)| (lo, if q.len_end_inclusive { hi.saturating_add(1) } else { hi }));
            if !in_range(l, &r) {
                return false;
            }
        }
        if let Some(d) = &f.output_data {
            let ok = match f.output_data_mode.unwrap_or(Mode::Prefix) {
                Mode::Prefix => c.data.starts_with(d),
                Mode::Exact => c.data == *d,
                Mode::Partial => contains(&c.data, d),
            };
            if !ok {
                return false;
            }
        }
        in_range(c.data.len() as u64, &f.output_data_len_range)
            && in_range(c.capacity, &f.output_capacity_range)
            && in_range(c.block_number, &f.block_range)
    }

    /// get_transactions: does the appearance belong to the answer? (filter: `script` = the other
    /// script, exact — the documentation says "filter cells by type script", no prefix — and
    /// `block_range`).
    pub fn ev_matches_with(&self, e: &Ev, q: Quirks) -> bool {
        let Some(s) = self.searched(&e.lock, &e.type_) else {
            return false;
        };
        if !(s.matches(&self.script, self.eff_mode()) || (q.zero_prefix && self.eff_mode() == Mode::Prefix && shorter_args_plus_zeros(&self.script, s))) {
            return false;
        }
        let Some(f) = &self.filter else {
            return true;
        };
        if let Some(fs) = &f.script {
            match self.other(&e.lock, &e.type_) {
                Some(o) if o == fs => {}
                _ => return false,
            }
        }
        in_range(e.block_number, &f.block_range)
    }

    /// rich-indexer get_transactions (/repo/rpc/src/module/rich_indexer.rs): every filter of
    /// get_cells applies to the cell that appears in the transaction (as an output, or as the
    /// consumed cell of an input); `block_range` is taken over the block of the transaction in
    /// which the cell appears; `script` = the other script, matched as a prefix (the
    /// documentation says "filter cells by type script"; the code comments "default prefix
    /// search" — stated as an assumption in the evidence).
    pub fn ev_matches_rich(&self, e: &Ev, q: Quirks) -> bool {
        let Some(s) = self.searched(&e.lock, &e.type_) else {
            return false;
        };
        if !s.matches(&self.script, self.eff_mode()) {
            return false;
        }
        let Some(f) = &self.filter else {
            return true;
        };
        let other = self.other(&e.lock, &e.type_);
        if let Some(fs) = &f.script {
            match other {
                Some(o) if o.matches(fs, Mode::Prefix) => {}
                _ => return false,
            }
        }
        if f.script_len_range.is_some() {
            let l = other.map(|o| o.len()).unwrap_or(0);
            let r = f.script_len_range.map(|(lo, hi)| (lo, if q.len_end_inclusive { hi.saturating_add(1) } else { hi }));
            if !in_range(l, &r) {
                return false;
            }
        }
        if let Some(d) = &f.output_data {
            let ok = match f.output_data_mode.unwrap_or(Mode::Prefix) {
                Mode::Prefix => e.data.starts_with(d),
                Mode::Exact => e.data == *d,
                Mode::Partial => contains(&e.data, d),
            };
            if !ok {
                return false;
            }
        }
        in_range(e.data.len() as u64, &f.output_data_len_range)
            && in_range(e.capacity, &f.output_capacity_range)
            && in_range(e.block_number, &f.block_range)
    }

    /// The searched script of a matching cell (for the per-script order check).
    pub fn cell_script<'a>(&self, c: &'a Cell) -> &'a Scr {
        self.searched(&c.lock, &c.type_).expect("matching cell has the searched script")
    }
    pub fn ev_script<'a>(&self, e: &'a Ev) -> &'a Scr {
        self.searched(&e.lock, &e.type_).expect("matching event has the searched script")
    }
}

impl Model {
    /// Expected get_cells answer in ascending (block number, tx index, output index) order.
    pub fn cells_for(&self, sk: &SK) -> Vec<&Cell> {
        self.cells_for_with(sk, Quirks::default())
    }
    pub fn cells_for_with(&self, sk: &SK, q: Quirks) -> Vec<&Cell> {
        let mut v: Vec<&Cell> = self.live.values().filter(|c| sk.cell_matches_with(c, q)).collect();
        v.sort_by_key(|c| (c.block_number, c.tx_index, c.index));
        v
    }
    /// Expected ungrouped get_transactions answer in ascending (block number, tx index,
    /// io index, input before output) order.
    pub fn evs_for(&self, sk: &SK) -> Vec<&Ev> {
        self.evs_for_with(sk, Quirks::default())
    }
    pub fn evs_for_with(&self, sk: &SK, q: Quirks) -> Vec<&Ev> {
        let mut v: Vec<&Ev> = self.evs.iter().filter(|e| sk.ev_matches_with(e, q)).collect();
        v.sort_by_key(|e| (e.block_number, e.tx_index, e.io_index, e.is_output));
        v
    }
    /// Expected rich-indexer get_transactions entries, same order as `evs_for`.
    pub fn evs_for_rich(&self, sk: &SK, q: Quirks) -> Vec<&Ev> {
        let mut v: Vec<&Ev> = self.evs.iter().filter(|e| sk.ev_matches_rich(e, q)).collect();
        v.sort_by_key(|e| (e.block_number, e.tx_index, e.io_index, e.is_output));
        v
    }
}
