//! The rich-indexer (SQL: sqlx + a private in-memory SQLite database) half of C18.
//!
//! The real `ckb_rich_indexer` (hook H8b: `verif::VerifRichIndexer` = `AsyncRichIndexer` over an
//! `SQLXPool`, plus the public `AsyncRichIndexerHandle`) follows the same generated histories as
//! the RocksDB indexer, with the same decision rule, and is judged by the same independent model
//! (model.rs). Where the documented semantics of the two indexers differ
//! (/repo/rpc/src/module/rich_indexer.rs, /repo/util/rich-indexer/README.md) the documented
//! rich-indexer behaviour is what is demanded:
//!   * `script_search_mode = partial` is supported by all three methods;
//!   * get_transactions takes every filter kind of get_cells (over the cell that appears);
//!   * cursors are opaque (row ids): only "concatenated pages == the full answer" is demanded;
//!   * the order of the entries of ONE transaction in an ungrouped answer and of the cells in a
//!     grouped entry is not defined (SQL `ORDER BY tx_id`, `GROUP_CONCAT`): compared as sets;
//!   * there is no retention (nothing is pruned): rollbacks of any depth must be exact.
//!
//! Every violation signature of this part starts with `rich.`.

use crate::keys::{self, Method};
use crate::model::{H, Model, Quirks, SK, Scr};
use crate::oracle::{BIG, CellAns, GroupAns, TxAns, TxItem, sh, show_list, tag};
use ckb_jsonrpc_types::{IndexerCellType, IndexerOrder, IndexerTx, JsonBytes, Uint32};
use ckb_rich_indexer::AsyncRichIndexerHandle;
use ckb_rich_indexer::verif::{MEMORY_DB, VerifRichIndexer};
use ckb_types::core::BlockView;
use ckb_types::packed;
use ckb_types::prelude::*;
use serde_json::{Value, json};
use std::cell::Cell as StdCell;
use std::collections::HashSet;
use std::time::{Duration, Instant};
use vbase::{Report, Rng};

/// The pool's idle reaper closes a connection idle for 30 s (SQLXPool::connect); the in-memory
/// database dies with its only connection. A gap this long between two operations makes the
/// rest of the history meaningless (inconclusive, never a violation).
const MAX_IDLE_GAP: Duration = Duration::from_secs(20);

const TABLES: &[&str] = &[
    "block",
    "block_association_proposal",
    "block_association_uncle",
    "ckb_transaction",
    "tx_association_header_dep",
    "tx_association_cell_dep",
    "output",
    "input",
    "script",
];

/// Synchronous face of the async rich-indexer: one current-thread runtime per indexer.
pub struct RichIdx {
    rt: tokio::runtime::Runtime,
    idx: VerifRichIndexer,
    hd: AsyncRichIndexerHandle,
    last_op: StdCell<Instant>,
    idle_gap_seen: StdCell<bool>,
}

fn order(desc: bool) -> IndexerOrder {
    if desc { IndexerOrder::Desc } else { IndexerOrder::Asc }
}

impl RichIdx {
    pub fn new() -> Result<RichIdx, String> {
        let rt = tokio::runtime::Builder::new_current_thread().enable_all().build().map_err(|e| e.to_string())?;
        let idx = rt.block_on(VerifRichIndexer::connect(MEMORY_DB)).map_err(|e| e.to_string())?;
        let hd = idx.handle();
        Ok(RichIdx { rt, idx, hd, last_op: StdCell::new(Instant::now()), idle_gap_seen: StdCell::new(false) })
    }

    fn touch(&self) {
        if self.last_op.get().elapsed() > MAX_IDLE_GAP {
            self.idle_gap_seen.set(true);
        }
        self.last_op.set(Instant::now());
    }

    pub fn idle_gap_seen(&self) -> bool {
        self.idle_gap_seen.get()
    }

    pub fn append(&self, b: &BlockView) -> Result<(), String> {
        self.touch();
        let r = self.rt.block_on(self.idx.append(b)).map_err(|e| e.to_string());
        self.touch();
        r
    }

    pub fn rollback(&self) -> Result<(), String> {
        self.touch();
        let r = self.rt.block_on(self.idx.rollback()).map_err(|e| e.to_string());
        self.touch();
        r
    }

    /// `get_indexer_tip` (what `RichIndexer::tip()` of the sync service reads).
    pub fn tip(&self) -> Result<Option<(u64, H)>, String> {
        self.touch();
        self.rt
            .block_on(self.hd.get_indexer_tip())
            .map_err(|e| e.to_string())
            .map(|t| t.map(|t| (t.block_number.value(), t.block_hash.0)))
    }

    pub fn row_counts(&self) -> Vec<(&'static str, u64)> {
        self.touch();
        let store = self.idx.store();
        TABLES.iter().map(|t| (*t, self.rt.block_on(store.fetch_count(t)).unwrap_or(u64::MAX))).collect()
    }

    pub fn cells(&self, sk: &SK, desc: bool, limit: u32, after: Option<Vec<u8>>) -> Result<(Vec<CellAns>, Vec<u8>), String> {
        self.touch();
        let r = self
            .rt
            .block_on(self.hd.get_cells(keys::to_rpc(sk), order(desc), Uint32::from(limit), after.map(JsonBytes::from_vec)))
            .map_err(|e| e.to_string())?;
        let cursor = r.last_cursor.as_bytes().to_vec();
        let cells = r
            .objects
            .into_iter()
            .map(|c| {
                let op: packed::OutPoint = c.out_point.into();
                let out: packed::CellOutput = c.output.into();
                let index: u32 = op.index().into();
                CellAns {
                    block_number: c.block_number.value(),
                    tx_index: c.tx_index.value(),
                    index,
                    tx_hash: crate::model::h(&op.tx_hash()),
                    output: out.as_slice().to_vec(),
                    data: c.output_data.map(|d| d.as_bytes().to_vec()),
                }
            })
            .collect();
        Ok((cells, cursor))
    }

    pub fn txs(&self, sk: &SK, desc: bool, limit: u32, after: Option<Vec<u8>>) -> Result<(Vec<TxItem>, Vec<u8>), String> {
        self.touch();
        let r = self
            .rt
            .block_on(self.hd.get_transactions(keys::to_rpc(sk), order(desc), Uint32::from(limit), after.map(JsonBytes::from_vec)))
            .map_err(|e| e.to_string())?;
        let cursor = r.last_cursor.as_bytes().to_vec();
        let is_out = |t: &IndexerCellType| matches!(t, IndexerCellType::Output);
        let items = r
            .objects
            .into_iter()
            .map(|t| match t {
                IndexerTx::Ungrouped(u) => TxItem::U(TxAns {
                    block_number: u.block_number.value(),
                    tx_index: u.tx_index.value(),
                    io_index: u.io_index.value(),
                    is_output: is_out(&u.io_type),
                    tx_hash: u.tx_hash.0,
                }),
                IndexerTx::Grouped(g) => {
                    // the order of the cells inside a group is not defined (GROUP_CONCAT)
                    let mut cells: Vec<(bool, u32)> = g.cells.iter().map(|(t, i)| (is_out(t), i.value())).collect();
                    cells.sort();
                    TxItem::G(GroupAns { block_number: g.block_number.value(), tx_index: g.tx_index.value(), tx_hash: g.tx_hash.0, cells })
                }
            })
            .collect();
        Ok((items, cursor))
    }

    pub fn capacity(&self, sk: &SK) -> Result<Option<(u64, u64, H)>, String> {
        self.touch();
        let r = self.rt.block_on(self.hd.get_cells_capacity(keys::to_rpc(sk))).map_err(|e| e.to_string())?;
        Ok(r.map(|c| (c.capacity.value(), c.block_number.value(), c.block_hash.0)))
    }
}

fn tx_pos(t: &TxItem) -> (u64, u32) {
    match t {
        TxItem::U(u) => (u.block_number, u.tx_index),
        TxItem::G(g) => (g.block_number, g.tx_index),
    }
}

/// Transaction-level order: (block number, tx index) never decreases (asc) / increases (desc).
fn tx_level_ordered(items: &[TxItem], desc: bool) -> bool {
    items.windows(2).all(|w| if desc { tx_pos(&w[0]) >= tx_pos(&w[1]) } else { tx_pos(&w[0]) <= tx_pos(&w[1]) })
}

fn sorted<T: Ord + Clone>(v: &[T]) -> Vec<T> {
    let mut s = v.to_vec();
    s.sort();
    s
}

fn group_expected(evs: &[TxAns]) -> Vec<TxItem> {
    let mut out: Vec<GroupAns> = vec![];
    for e in evs {
        match out.last_mut() {
            Some(g) if g.tx_hash == e.tx_hash && g.block_number == e.block_number && g.tx_index == e.tx_index => g.cells.push((e.is_output, e.io_index)),
            _ => out.push(GroupAns { block_number: e.block_number, tx_index: e.tx_index, tx_hash: e.tx_hash, cells: vec![(e.is_output, e.io_index)] }),
        }
    }
    for g in out.iter_mut() {
        g.cells.sort();
    }
    out.into_iter().map(TxItem::G).collect()
}

/// Ungrouped get_transactions cursor: 8 bytes LE row id of the last transaction + 4 bytes LE
/// offset (number of entries of that transaction already returned).
fn decode_tx_cursor(c: &[u8]) -> Option<(i64, i32)> {
    if c.len() != 12 {
        return None;
    }
    Some((i64::from_le_bytes(c[..8].try_into().ok()?), i32::from_le_bytes(c[8..].try_into().ok()?)))
}

const FF_CAUSE: &str = "prefix_of_0xff_bytes_misses_values_that_continue_with_0xff";

fn all_ff(p: &[u8]) -> bool {
    !p.is_empty() && p.iter().all(|b| *b == 0xff)
}

/// `v` is an extension of the all-0xff prefix `p` that continues with another 0xff byte: exactly
/// the values a range query `v >= p AND v < p ++ 0xff` leaves out although they start with `p`.
fn ff_victim(p: &[u8], v: &[u8]) -> bool {
    all_ff(p) && v.len() > p.len() && v.starts_with(p) && v[p.len()] == 0xff
}

/// Proof obligation for the cause suffix `FF_CAUSE`: a cell (lock, type, data) that the documented
/// semantics puts into the answer is left out by at least one prefix condition of the search key
/// whose prefix consists of 0xff bytes.
fn ff_explains(sk: &SK, lock: &Scr, type_: &Option<Scr>, data: &[u8]) -> bool {
    let (searched, other) = if sk.is_lock { (Some(lock), type_.as_ref()) } else { (type_.as_ref(), Some(lock)) };
    let mut hit = false;
    if sk.eff_mode() == crate::model::Mode::Prefix {
        if let Some(s) = searched {
            hit |= ff_victim(&sk.script.args, &s.args);
        }
    }
    if let Some(f) = &sk.filter {
        if let (Some(fs), Some(o)) = (&f.script, other) {
            hit |= ff_victim(&fs.args, &o.args);
        }
        if let Some(d) = &f.output_data {
            if matches!(f.output_data_mode, None | Some(crate::model::Mode::Prefix)) {
                hit |= ff_victim(d, data);
            }
        }
    }
    hit
}

/// Page sizes 1, 2, 3, 7 — raised for long answers so that one walk stays within ~16 queries
/// (every page is a round trip to the SQLite worker thread).
fn page_size(rng: &mut Rng, answer_len: usize) -> u32 {
    let l = *rng.pick(&[1u32, 2, 3, 7]);
    l.max(answer_len.div_ceil(16) as u32)
}

pub struct RCtx<'a> {
    pub ri: &'a RichIdx,
    pub m: &'a Model,
    pub r: &'a mut Report,
    pub rng: &'a mut Rng,
    pub hist: &'a Value,
    pub keyset: &'a mut HashSet<u64>,
}

impl<'a> RCtx<'a> {
    fn tip_json(&self) -> Value {
        match &self.m.tip {
            Some((n, hh)) => json!({"number": n, "hash": format!("0x{}", vbase::hex(hh))}),
            None => Value::Null,
        }
    }

    fn eval(&mut self) {
        self.r.eval();
        self.r.count("rich.evaluations");
    }

    fn fail(&mut self, sig: String, detail: String, sk: &SK, extra: Value) {
        let w = json!({
            "indexer": "ckb-rich-indexer (in-memory SQLite)",
            "history": self.hist,
            "indexer_tip": self.tip_json(),
            "search_key": keys::to_json(sk),
            "observation": extra,
        });
        self.r.violation(&format!("rich.{sig}"), detail, w);
    }

    fn book(&mut self, method: Method, sk: &SK) {
        let mode = sk.mode.map(|m| m.name()).unwrap_or("default");
        self.r.count(&format!("rich.queries.{}.{}", method.name(), mode));
        self.r.count(&format!("rich.queries.by_{}", if sk.is_lock { "lock" } else { "type" }));
        if let Some(f) = &sk.filter {
            for k in f.kinds() {
                self.r.count(&format!("rich.queries.{}.filter.{k}", if method == Method::Txs { "get_transactions" } else { "cells" }));
            }
        } else {
            self.r.count("rich.queries.filter.none");
        }
        if sk.with_data == Some(false) {
            self.r.count("rich.queries.with_data_false");
        }
        if sk.grouped() {
            self.r.count("rich.queries.grouped");
        }
        let kj = keys::to_json(sk).to_string();
        self.keyset.insert(vbase::fnv1a(format!("{}{}", method.name(), kj).as_bytes()));
        let tip = self.m.tip.map(|t| t.1).unwrap_or([0; 32]);
        self.r.distinct(vbase::fnv1a(format!("rich{}{}{}", method.name(), kj, vbase::hex(&tip)).as_bytes()));
    }

    pub fn check(&mut self, method: Method, sk: &SK) {
        self.book(method, sk);
        match method {
            Method::Cells => self.check_cells(sk),
            Method::Capacity => self.check_capacity(sk),
            Method::Txs => self.check_txs(sk),
        }
    }

    /// `get_indexer_tip` == the tip the driver followed.
    pub fn check_tip(&mut self) {
        self.eval();
        self.r.count("rich.queries.get_indexer_tip");
        let got = self.ri.tip();
        let want = self.m.tip;
        if got != Ok(want) {
            let sk = SK { script: Scr { code_hash: [0; 32], hash_type: 0, args: vec![] }, is_lock: true, mode: None, filter: None, with_data: None, group: None };
            self.fail(
                "get_indexer_tip.differs_from_followed_tip".into(),
                format!("get_indexer_tip returned {:?}, the blocks appended/rolled back lead to {:?}", got.as_ref().map(|o| o.map(|(n, x)| (n, sh(&x)))), want.map(|(n, x)| (n, sh(&x)))),
                &sk,
                json!({}),
            );
        }
    }

    fn diagnose(method: &str, explains: impl Fn(Quirks) -> bool) -> Vec<String> {
        if explains(Quirks { len_end_inclusive: true, zero_prefix: false }) { vec![format!("{method}.script_len_range_upper_bound_is_inclusive")] } else { vec![] }
    }

    fn check_cells(&mut self, sk: &SK) {
        self.eval();
        let full = match self.ri.cells(sk, false, BIG, None) {
            Ok((c, _)) => c,
            Err(e) => {
                self.fail(format!("get_cells.unexpected_error@{}", tag(sk)), format!("get_cells failed: {e}"), sk, json!({"error": e}));
                return;
            }
        };
        let wd = sk.with_data();
        let exp: Vec<CellAns> = self.m.cells_for(sk).into_iter().map(|c| CellAns::of(c, wd)).collect();
        self.r.count(if exp.is_empty() { "rich.answers.empty" } else { "rich.answers.nonempty" });
        // (a) the set
        let a = sorted(&full);
        let e = sorted(&exp);
        if a != e {
            let extra: Vec<CellAns> = a.iter().filter(|x| !e.contains(x)).cloned().collect();
            let missing: Vec<CellAns> = e.iter().filter(|x| !a.contains(x)).cloned().collect();
            let sig = format!(
                "get_cells.{}@{}",
                match (extra.is_empty(), missing.is_empty()) {
                    (false, true) => "extra_cells",
                    (true, false) => "missing_cells",
                    _ => "wrong_cells",
                },
                tag(sk)
            );
            let mut named = Self::diagnose("get_cells", |q| sorted(&self.m.cells_for_with(sk, q).into_iter().map(|c| CellAns::of(c, wd)).collect::<Vec<_>>()) == a);
            if extra.is_empty() && missing.iter().all(|x| self.m.live.get(&(x.tx_hash, x.index)).map(|c| ff_explains(sk, &c.lock, &c.type_, &c.data)).unwrap_or(false)) {
                named = vec![format!("get_cells.missing_cells@{FF_CAUSE}")];
            }
            for sig in if named.is_empty() { vec![sig] } else { named } {
                self.fail(
                    sig,
                    format!("get_cells (asc, no cursor) returned {} cells, the filter over the model's live cells gives {}: {} extra, {} missing", a.len(), e.len(), extra.len(), missing.len()),
                    sk,
                    json!({"order": "asc", "limit": BIG, "extra": show_list(&extra, |c| c.show()), "missing": show_list(&missing, |c| c.show()),
                           "expected": show_list(&exp, |c| c.show()), "actual": show_list(&full, |c| c.show())}),
                );
            }
            return;
        }
        // (b) the order: (block number, tx index, output index) over the whole answer
        if full != exp {
            self.fail(
                format!("get_cells.order@{}", tag(sk)),
                "ascending answer is not ordered by (block number, tx index, output index)".into(),
                sk,
                json!({"expected": show_list(&exp, |c| c.show()), "actual": show_list(&full, |c| c.show())}),
            );
            return;
        }
        // (c) desc == reverse(asc)
        let desc_full = match self.ri.cells(sk, true, BIG, None) {
            Ok((c, _)) => c,
            Err(e) => {
                self.fail(format!("get_cells.unexpected_error@desc.{}", tag(sk)), format!("get_cells desc failed: {e}"), sk, json!({"error": e}));
                return;
            }
        };
        self.eval();
        self.r.count("rich.queries.order_desc");
        let mut rev = full.clone();
        rev.reverse();
        if desc_full != rev {
            self.fail(
                format!("get_cells.desc_is_not_reverse_of_asc@{}", tag(sk)),
                "descending answer differs from the reversed ascending answer".into(),
                sk,
                json!({"asc": show_list(&full, |c| c.show()), "desc": show_list(&desc_full, |c| c.show())}),
            );
            return;
        }
        // (d) pages
        let desc = self.rng.bool();
        let want = if desc { &rev } else { &full };
        let limit = page_size(self.rng, want.len());
        let mut got: Vec<CellAns> = vec![];
        let mut after: Option<Vec<u8>> = None;
        let mut pages = 0usize;
        let max_pages = want.len() / limit as usize + 3;
        loop {
            let (page, cursor) = match self.ri.cells(sk, desc, limit, after.clone()) {
                Ok(x) => x,
                Err(e) => {
                    self.fail(format!("get_cells.unexpected_error@paging.{}", tag(sk)), format!("get_cells page failed: {e}"), sk, json!({"error": e}));
                    return;
                }
            };
            pages += 1;
            self.r.count("rich.pages_walked");
            let n = page.len();
            got.extend(page);
            if n != limit as usize || pages > max_pages {
                if n > limit as usize {
                    got.push(got[0].clone()); // force a difference below
                }
                break;
            }
            after = Some(cursor);
        }
        self.eval();
        if pages > 1 {
            self.r.count("rich.walks_with_several_pages");
        }
        if pages > 2 && sk.filter.is_some() && self.r.counter("rich.sampled_queries") < 1 {
            self.r.count("rich.sampled_queries");
            let s = json!({"indexer": "rich", "method": "get_cells", "search_key": keys::to_json(sk), "indexer_tip": self.tip_json(), "cells_in_answer": want.len(),
                           "paged": {"order": if desc {"desc"} else {"asc"}, "limit": limit, "pages": pages}, "first_cells": show_list(&full[..full.len().min(3)], |c| c.show())});
            self.r.sample(s);
        }
        if &got != want {
            let dup = sorted(&got).windows(2).any(|w| w[0] == w[1]);
            self.fail(
                format!("get_cells.paging.{}@{}.{}", if dup { "duplicates" } else if got.len() < want.len() { "gap" } else { "differs" }, if desc { "desc" } else { "asc" }, tag(sk)),
                format!("pages of {limit} concatenated ({} cells in {pages} pages) differ from the full {} answer ({} cells)", got.len(), if desc { "desc" } else { "asc" }, want.len()),
                sk,
                json!({"order": if desc {"desc"} else {"asc"}, "limit": limit, "full": show_list(want, |c| c.show()), "concatenated_pages": show_list(&got, |c| c.show())}),
            );
        }
    }

    fn check_capacity(&mut self, sk: &SK) {
        self.eval();
        let got = match self.ri.capacity(sk) {
            Ok(x) => x,
            Err(e) => {
                self.fail(format!("get_cells_capacity.unexpected_error@{}", tag(sk)), format!("get_cells_capacity failed: {e}"), sk, json!({"error": e}));
                return;
            }
        };
        let cells = self.m.cells_for(sk);
        let sum: u64 = cells.iter().map(|c| c.capacity).sum();
        self.r.count(if cells.is_empty() { "rich.answers.empty" } else { "rich.answers.nonempty" });
        let want = self.m.tip.map(|(n, hh)| (sum, n, hh));
        if got == want {
            return;
        }
        if got.is_none() && !cells.is_empty() && cells.iter().all(|c| ff_explains(sk, &c.lock, &c.type_, &c.data)) {
            self.fail(
                format!("get_cells_capacity.wrong_sum@{FF_CAUSE}"),
                format!("get_cells_capacity returned null, the model gives {:?} (sum over {} cells)", want.map(|(c, n, x)| (c, n, sh(&x))), cells.len()),
                sk,
                json!({"expected_capacity": want.map(|w| w.0), "actual_capacity": Value::Null, "expected_cells": show_list(&cells, |c| CellAns::of(c, false).show())}),
            );
            return;
        }
        if cells.is_empty() && got.is_none() {
            // SUM() over no rows is NULL and the handle answers null: no capacity is claimed.
            self.r.count("rich.obs.get_cells_capacity_null_when_no_cell_matches");
            return;
        }
        let sig = format!("get_cells_capacity.{}@{}", match (&got, &want) {
            (Some(g), Some(w)) if g.0 != w.0 && (g.1, g.2) == (w.1, w.2) => "wrong_sum",
            (Some(_), Some(_)) => "wrong_tip",
            _ => "null_mismatch",
        }, tag(sk));
        let mut sigs = vec![sig];
        if let (Some(g), Some(w)) = (&got, &want) {
            if (g.1, g.2) == (w.1, w.2) {
                let named = Self::diagnose("get_cells_capacity", |q| self.m.cells_for_with(sk, q).iter().map(|c| c.capacity).sum::<u64>() == g.0);
                if !named.is_empty() {
                    sigs = named;
                }
                let (victims, rest): (Vec<&&crate::model::Cell>, Vec<&&crate::model::Cell>) = cells.iter().partition(|c| ff_explains(sk, &c.lock, &c.type_, &c.data));
                if !victims.is_empty() && rest.iter().map(|c| c.capacity).sum::<u64>() == g.0 {
                    sigs = vec![format!("get_cells_capacity.wrong_sum@{FF_CAUSE}")];
                }
            }
        }
        for sig in sigs {
            self.fail(
                sig,
                format!("get_cells_capacity returned {:?}, the model gives {:?} (sum over {} cells)", got.map(|(c, n, x)| (c, n, sh(&x))), want.map(|(c, n, x)| (c, n, sh(&x))), cells.len()),
                sk,
                json!({"expected_capacity": want.map(|w| w.0), "actual_capacity": got.map(|g| g.0),
                       "expected_cells": show_list(&cells, |c| CellAns::of(c, false).show())}),
            );
        }
    }

    fn check_txs(&mut self, sk: &SK) {
        self.eval();
        let full = match self.ri.txs(sk, false, BIG, None) {
            Ok((c, _)) => c,
            Err(e) => {
                self.fail(format!("get_transactions.unexpected_error@{}", tag(sk)), format!("get_transactions failed: {e}"), sk, json!({"error": e}));
                return;
            }
        };
        let evs = self.m.evs_for_rich(sk, Quirks::default());
        let exp_u: Vec<TxAns> = evs.iter().map(|e| TxAns::of(e)).collect();
        self.r.count(if exp_u.is_empty() { "rich.answers.empty" } else { "rich.answers.nonempty" });
        let grouped = sk.grouped();
        let exp: Vec<TxItem> = if grouped { group_expected(&exp_u) } else { exp_u.iter().cloned().map(TxItem::U).collect() };
        // (a) the set of entries
        let a = sorted(&full);
        let e = sorted(&exp);
        if a != e {
            let extra: Vec<TxItem> = a.iter().filter(|x| !e.contains(x)).cloned().collect();
            let missing: Vec<TxItem> = e.iter().filter(|x| !a.contains(x)).cloned().collect();
            let sig = format!(
                "get_transactions.{}@{}",
                match (extra.is_empty(), missing.is_empty()) {
                    (false, true) => "extra_entries",
                    (true, false) => "missing_entries",
                    _ => "wrong_entries",
                },
                tag(sk)
            );
            let mut named = if grouped {
                vec![]
            } else {
                Self::diagnose("get_transactions", |q| sorted(&self.m.evs_for_rich(sk, q).into_iter().map(|e| TxItem::U(TxAns::of(e))).collect::<Vec<_>>()) == a)
            };
            {
                // the answer without the entries the 0xff prefix cause explains
                let rest: Vec<TxAns> = evs.iter().filter(|e| !ff_explains(sk, &e.lock, &e.type_, &e.data)).map(|e| TxAns::of(e)).collect();
                let rest: Vec<TxItem> = if grouped { group_expected(&rest) } else { rest.into_iter().map(TxItem::U).collect() };
                if rest.len() != exp.len() && sorted(&rest) == a {
                    named = vec![format!("get_transactions.missing_entries@{FF_CAUSE}")];
                }
            }
            for sig in if named.is_empty() { vec![sig] } else { named } {
                self.fail(
                    sig,
                    format!("get_transactions (asc, no cursor) returned {} entries, the model's transaction history gives {}: {} extra, {} missing", a.len(), e.len(), extra.len(), missing.len()),
                    sk,
                    json!({"order": "asc", "limit": BIG, "extra": show_list(&extra, |c| c.show()), "missing": show_list(&missing, |c| c.show()),
                           "expected": show_list(&exp, |c| c.show()), "actual": show_list(&full, |c| c.show())}),
                );
            }
            return;
        }
        // (b) the order of transactions (the order inside one transaction is not defined)
        if !tx_level_ordered(&full, false) {
            self.fail(
                format!("get_transactions.order@{}", tag(sk)),
                "ascending answer is not ordered by (block number, tx index) of the transactions".into(),
                sk,
                json!({"expected": show_list(&exp, |c| c.show()), "actual": show_list(&full, |c| c.show())}),
            );
            return;
        }
        // (c) desc: the same entries, transactions in the opposite order
        let desc_full = match self.ri.txs(sk, true, BIG, None) {
            Ok((c, _)) => c,
            Err(e) => {
                self.fail(format!("get_transactions.unexpected_error@desc.{}", tag(sk)), format!("get_transactions desc failed: {e}"), sk, json!({"error": e}));
                return;
            }
        };
        self.eval();
        self.r.count("rich.queries.order_desc");
        if sorted(&desc_full) != a || !tx_level_ordered(&desc_full, true) {
            self.fail(
                format!("get_transactions.desc_is_not_reverse_of_asc@{}", tag(sk)),
                "descending answer is not the ascending answer with the transactions in the opposite order".into(),
                sk,
                json!({"asc": show_list(&full, |c| c.show()), "desc": show_list(&desc_full, |c| c.show())}),
            );
            return;
        }
        // (d) pages
        let desc = self.rng.bool();
        let want = if desc { &desc_full } else { &full };
        let limit = page_size(self.rng, want.len());
        let mut got: Vec<TxItem> = vec![];
        let mut after: Option<Vec<u8>> = None;
        let mut pages = 0usize;
        let max_pages = want.len() / limit as usize + 3;
        // (first index in `got`, cursor returned with the page)
        let mut trail: Vec<(usize, usize, Vec<u8>)> = vec![];
        loop {
            let (page, cursor) = match self.ri.txs(sk, desc, limit, after.clone()) {
                Ok(x) => x,
                Err(e) => {
                    self.fail(format!("get_transactions.unexpected_error@paging.{}", tag(sk)), format!("get_transactions page failed: {e}"), sk, json!({"error": e}));
                    return;
                }
            };
            pages += 1;
            self.r.count("rich.pages_walked");
            let n = page.len();
            trail.push((got.len(), n, cursor.clone()));
            got.extend(page);
            if n != limit as usize || pages > max_pages {
                if n > limit as usize {
                    got.push(got[0].clone());
                }
                break;
            }
            after = Some(cursor);
        }
        self.eval();
        if pages > 1 {
            self.r.count("rich.walks_with_several_pages");
        }
        if sorted(&got) != sorted(want) || !tx_level_ordered(&got, desc) {
            let dup = sorted(&got).windows(2).any(|w| w[0] == w[1]);
            let kind = if dup { "duplicates" } else if got.len() < want.len() { "gap" } else { "differs" };
            // Diagnosis (names the cause only when the returned cursors prove it): a page that
            // was itself started with a cursor into transaction T and consists only of entries
            // of T returned the cursor (T, entries in THIS page) although the page before had
            // already delivered entries of T — the offset restarts and the next page repeats.
            let mut cause = String::new();
            if !grouped {
                for w in trail.windows(2) {
                    if let (Some((id0, off0)), Some((id1, off1))) = (decode_tx_cursor(&w[0].2), decode_tx_cursor(&w[1].2)) {
                        if id0 == id1 && off0 > 0 && w[1].1 > 0 && off1 as usize == w[1].1 && w[1].1 == limit as usize {
                            cause = "@cursor_offset_restarts_when_one_transaction_spans_three_pages".into();
                            break;
                        }
                    }
                }
            }
            let sig = if cause.is_empty() {
                format!("get_transactions.paging.{kind}@{}.{}", if desc { "desc" } else { "asc" }, tag(sk))
            } else {
                format!("get_transactions.paging.{kind}{cause}")
            };
            self.fail(
                sig,
                format!("pages of {limit} concatenated ({} entries in {pages} pages) differ from the full {} answer ({} entries)", got.len(), if desc { "desc" } else { "asc" }, want.len()),
                sk,
                json!({"order": if desc {"desc"} else {"asc"}, "limit": limit, "full": show_list(want, |c| c.show()), "concatenated_pages": show_list(&got, |c| c.show()),
                       "cursors_returned": trail.iter().take(8).map(|(_, n, c)| json!({"entries_in_page": n, "last_cursor": format!("0x{}", vbase::hex(c)),
                            "decoded": decode_tx_cursor(c).map(|(id, off)| json!({"tx_row_id": id, "offset": off}))})).collect::<Vec<_>>()}),
            );
        }
    }
}

/// Answers (content only: cursors are row ids) for a set of keys, used to require that
/// `append(b); rollback()` restores every answer.
pub fn snapshot_answers(ri: &RichIdx, ks: &[(Method, SK)]) -> Vec<(String, Value)> {
    let mut out: Vec<(String, Value)> = vec![];
    out.push(("get_indexer_tip".into(), json!(format!("{:?}", ri.tip()))));
    for (m, sk) in ks {
        match m {
            Method::Cells => {
                for desc in [false, true] {
                    let v = match ri.cells(sk, desc, BIG, None) {
                        Ok((c, _)) => show_all(&c, |c| c.show()),
                        Err(e) => json!({"error": e}),
                    };
                    out.push((format!("get_cells.{}", if desc { "desc" } else { "asc" }), v));
                }
                // two pages with a cursor
                let v = match ri.cells(sk, true, 2, None) {
                    Ok((p1, cur)) => {
                        let p2 = match ri.cells(sk, true, 2, Some(cur)) {
                            Ok((c, _)) => show_all(&c, |c| c.show()),
                            Err(e) => json!({"error": e}),
                        };
                        json!([show_all(&p1, |c| c.show()), p2])
                    }
                    Err(e) => json!({"error": e}),
                };
                out.push(("get_cells.two_pages".into(), v));
            }
            Method::Txs => {
                for desc in [false, true] {
                    let v = match ri.txs(sk, desc, BIG, None) {
                        // inside one transaction the order is not defined
                        Ok((c, _)) => json!({"transactions": dedup_pos(&c), "entries": show_all(&sorted(&c), |c| c.show())}),
                        Err(e) => json!({"error": e}),
                    };
                    out.push((format!("get_transactions.{}", if desc { "desc" } else { "asc" }), v));
                }
            }
            Method::Capacity => {
                let v = match ri.capacity(sk) {
                    Ok(c) => json!(c.map(|(c, n, x)| (c, n, vbase::hex(&x)))),
                    Err(e) => json!({"error": e}),
                };
                out.push(("get_cells_capacity".into(), v));
            }
        }
    }
    out
}

fn show_all<T>(v: &[T], f: impl Fn(&T) -> String) -> Value {
    json!(v.iter().map(f).collect::<Vec<String>>())
}

fn dedup_pos(v: &[TxItem]) -> Vec<(u64, u32)> {
    let mut p: Vec<(u64, u32)> = v.iter().map(tx_pos).collect();
    p.dedup();
    p
}

/// Where the first difference between two snapshots is.
pub fn first_difference(a: &[(String, Value)], b: &[(String, Value)]) -> Option<(usize, String)> {
    if a.len() != b.len() {
        return Some((a.len().min(b.len()), "number_of_answers".into()));
    }
    a.iter().zip(b.iter()).position(|(x, y)| x != y).map(|i| (i, a[i].0.split('.').next().unwrap_or("?").to_string()))
}

/// The key a snapshot entry belongs to (entries are pushed in key order; used for witnesses).
pub fn key_of_entry<'k>(ks: &'k [(Method, SK)], idx: usize) -> Option<&'k (Method, SK)> {
    let mut i = 1usize; // entry 0 = tip
    for k in ks {
        let n = match k.0 {
            Method::Cells => 3,
            Method::Txs => 2,
            Method::Capacity => 1,
        };
        if idx < i + n {
            return Some(k);
        }
        i += n;
    }
    None
}
