//! Engine `relay` — part (c) of C16: compact-block reconstruction.
//!
//! A real node N (chain service, tx-pool service, SyncShared + Relayer built as `ckb run` does)
//! follows a chain produced by a builder node B (TreeGen: committed transactions, uncles,
//! proposals, extension). For every new block X built on N's tip — before X itself is given to
//! N — compact blocks of X with arbitrary prefilled index sets are run through the real
//! `CompactBlockVerifier` (hook H7) and, when accepted, through the real
//! `Relayer::reconstruct_block`, with random subsets of X's transactions in N's pool / supplied
//! as `received_transactions` / missing, random subsets of uncles supplied, and tampered
//! short-id lists (simulated collisions), uncle lists, proposals and extension.
//!
//! Oracle (no code shared with reconstruct_block): `Block(b)` must be exactly the block the
//! compact block's header commits to (header bytes identical; transactions root, proposals
//! hash and extra hash recomputed from b's body with ckb_hash::blake2b_256 and an own CBMT
//! equal the header's fields; byte-identical to X when nothing was tampered); `Missing` must be
//! exactly the model's missing index sets; an untampered compact block with everything
//! available must reconstruct; `Collided` / `Error` are acceptable verdicts for tampered input.
//! A message-level episode drives `Relayer::received` (CompactBlock, then BlockTransactions)
//! through a recording protocol context.

mod netctx;

use ckb_app_config::TxPoolConfig;
use ckb_chain::{ChainServiceScope, RemoteBlock};
use ckb_hash::blake2b_256;
use ckb_network::{CKBProtocolHandler, NetworkController, PeerIndex, SupportProtocols};
use ckb_shared::block_status::BlockStatus;
use ckb_shared::{Shared, SharedBuilder};
use ckb_sync::{ReconstructionResult, Relayer, StatusCode, SyncShared, verif_compact_block_verify};
use ckb_types::core::{BlockView, FeeRate, TransactionView, UncleBlockView};
use ckb_types::packed::{self, Byte32, ProposalShortId};
use ckb_types::prelude::*;
use ckb_verification::BlockVerifier;
use ckb_verification_traits::Verifier;
use serde_json::json;
use std::collections::{BTreeSet, HashMap, HashSet};
use std::panic::{AssertUnwindSafe, catch_unwind};
use std::sync::Arc;
use std::time::{Duration, Instant};
use vbase::{Args, Report, Rng};
use vnode::consensus::{self, ChainParams, EpochMode, GenesisInfo};
use vnode::hooks;
use vnode::model::{H, h, hx};
use vnode::treegen::{Mutation, TreeCfg, TreeGen};

// ---------------------------------------------------------------------------------------
// node under test with a relayer (vnode's Node::boot consumes the pack, so the node is put
// together here, in the same order as node.rs / `ckb run`)

struct RNode {
    shared: Shared,
    /// holds a ChainController clone: must be dropped before `scope` (field order), whose drop
    /// joins the chain service thread once every controller is gone
    relayer: Relayer,
    scope: ChainServiceScope,
    _network: NetworkController,
    _net_dir: tempfile::TempDir,
}

fn boot(gi: &GenesisInfo) -> RNode {
    let _ = vnode::node::scratch_dir();
    let tx_pool = TxPoolConfig {
        min_fee_rate: FeeRate::from_u64(0),
        min_rbf_rate: FeeRate::from_u64(1),
        ..Default::default()
    };
    let (shared, mut pack) = SharedBuilder::with_temp_db()
        .consensus(gi.consensus.clone())
        .tx_pool_config(tx_pool)
        .build()
        .expect("SharedBuilder::build");
    let (nc, dir) = vnode::node::dummy_network(&shared);
    pack.take_tx_pool_builder().start(nc.clone());
    let scope = ChainServiceScope::new(pack.take_chain_services_builder());
    let t0 = Instant::now();
    while scope.chain_controller().is_verifying_unverified_blocks_on_startup() {
        assert!(t0.elapsed() < Duration::from_secs(120), "start-up scan did not finish");
        std::thread::sleep(Duration::from_micros(200));
    }
    let sync_shared = Arc::new(SyncShared::new(
        shared.clone(),
        Default::default(),
        pack.take_relay_tx_receiver(),
    ));
    let relayer = Relayer::new(scope.chain_controller().clone(), sync_shared);
    RNode { shared, scope, relayer, _network: nc, _net_dir: dir }
}

// ---------------------------------------------------------------------------------------
// independent recomputation of the header commitments

fn merge(l: &H, r: &H) -> H {
    let mut buf = [0u8; 64];
    buf[..32].copy_from_slice(l);
    buf[32..].copy_from_slice(r);
    blake2b_256(buf)
}

/// Complete binary merkle tree root (RFC 0006): leaves occupy the last n slots of an array of
/// 2n-1 nodes, node i = merge(node 2i+1, node 2i+2); empty -> zero.
fn cbmt_root(leaves: &[H]) -> H {
    let n = leaves.len();
    if n == 0 {
        return [0u8; 32];
    }
    let mut nodes = vec![[0u8; 32]; 2 * n - 1];
    nodes[n - 1..].copy_from_slice(leaves);
    for i in (0..n - 1).rev() {
        nodes[i] = merge(&nodes[2 * i + 1], &nodes[2 * i + 2]);
    }
    nodes[0]
}

struct Commit {
    tx_root: H,
    proposals_hash: H,
    extra_hash: H,
}

fn commitments_of_body(b: &packed::Block) -> Commit {
    let raw: Vec<H> = b.transactions().into_iter().map(|t| blake2b_256(t.raw().as_slice())).collect();
    let wit: Vec<H> = b.transactions().into_iter().map(|t| blake2b_256(t.as_slice())).collect();
    let tx_root = cbmt_root(&[cbmt_root(&raw), cbmt_root(&wit)]);
    let proposals_hash = if b.proposals().is_empty() {
        [0u8; 32]
    } else {
        let mut buf = vec![];
        for id in b.proposals().into_iter() {
            buf.extend_from_slice(id.as_slice());
        }
        blake2b_256(&buf)
    };
    let uncles_hash = if b.uncles().is_empty() {
        [0u8; 32]
    } else {
        let mut buf = vec![];
        for u in b.uncles().into_iter() {
            buf.extend_from_slice(&blake2b_256(u.header().as_slice()));
        }
        blake2b_256(&buf)
    };
    let extra_hash = match b.extension() {
        None => uncles_hash,
        Some(ext) => merge(&uncles_hash, &blake2b_256(ext.raw_data())),
    };
    Commit { tx_root, proposals_hash, extra_hash }
}

// ---------------------------------------------------------------------------------------
// compact block parts

#[derive(Clone)]
struct Parts {
    header: packed::Header,
    short_ids: Vec<ProposalShortId>,
    prefilled: Vec<(usize, packed::Transaction)>,
    uncles: Vec<Byte32>,
    proposals: Vec<ProposalShortId>,
    extension: Option<packed::Bytes>,
}

fn parts_of(cb: &packed::CompactBlock) -> Parts {
    Parts {
        header: cb.header(),
        short_ids: cb.short_ids().into_iter().collect(),
        prefilled: cb
            .prefilled_transactions()
            .into_iter()
            .map(|pt| (Into::<usize>::into(pt.index()), pt.transaction()))
            .collect(),
        uncles: cb.uncles().into_iter().collect(),
        proposals: cb.proposals().into_iter().collect(),
        extension: cb.extension(),
    }
}

fn build_compact(p: &Parts) -> packed::CompactBlock {
    let prefilled: Vec<packed::IndexTransaction> = p
        .prefilled
        .iter()
        .map(|(i, tx)| packed::IndexTransaction::new_builder().index(*i).transaction(tx.clone()).build())
        .collect();
    match &p.extension {
        Some(ext) => packed::CompactBlockV1::new_builder()
            .header(p.header.clone())
            .short_ids(p.short_ids.clone())
            .prefilled_transactions(prefilled)
            .uncles(p.uncles.clone())
            .proposals(p.proposals.clone())
            .extension(ext.clone())
            .build()
            .as_v0(),
        None => packed::CompactBlock::new_builder()
            .header(p.header.clone())
            .short_ids(p.short_ids.clone())
            .prefilled_transactions(prefilled)
            .uncles(p.uncles.clone())
            .proposals(p.proposals.clone())
            .build(),
    }
}

#[derive(Clone, Copy, Debug, PartialEq, Eq)]
enum Tamper {
    None,
    IdsSwap,
    IdsForeignPool,
    IdsForeignCommitted,
    IdsRandom,
    IdsDuplicate,
    IdsDrop,
    IdsAdd,
    PrefilledNoCellbase,
    PrefilledOutOfOrder,
    PrefilledEqualIndex,
    PrefilledOutOfRange,
    PrefilledAlsoShortId,
    PrefilledWrongTx,
    UnclesSwap,
    UncleReplaceStored,
    UncleReplaceOrphan,
    UncleReplaceUnknown,
    UncleReplaceInvalid,
    UncleDrop,
    UncleAdd,
    ProposalsAdd,
    ProposalsDrop,
    ProposalsReplace,
    ProposalsSwap,
    ExtensionFlip,
    ExtensionDrop,
    ExtensionAppend,
    /// no extension -> an extension field of zero bytes
    ExtensionEmptyAdded,
    /// some extension -> an extension field of zero bytes
    ExtensionEmptied,
}

const TAMPERS: &[Tamper] = &[
    Tamper::IdsSwap,
    Tamper::IdsForeignPool,
    Tamper::IdsForeignCommitted,
    Tamper::IdsRandom,
    Tamper::IdsDuplicate,
    Tamper::IdsDrop,
    Tamper::IdsAdd,
    Tamper::PrefilledNoCellbase,
    Tamper::PrefilledOutOfOrder,
    Tamper::PrefilledEqualIndex,
    Tamper::PrefilledOutOfRange,
    Tamper::PrefilledAlsoShortId,
    Tamper::PrefilledWrongTx,
    Tamper::UnclesSwap,
    Tamper::UncleReplaceStored,
    Tamper::UncleReplaceOrphan,
    Tamper::UncleReplaceUnknown,
    Tamper::UncleReplaceInvalid,
    Tamper::UncleDrop,
    Tamper::UncleAdd,
    Tamper::ProposalsAdd,
    Tamper::ProposalsDrop,
    Tamper::ProposalsReplace,
    Tamper::ProposalsSwap,
    Tamper::ExtensionFlip,
    Tamper::ExtensionDrop,
    Tamper::ExtensionAppend,
    Tamper::ExtensionEmptyAdded,
    Tamper::ExtensionEmptied,
];

#[derive(Clone, Copy, Debug, PartialEq, Eq)]
enum Known {
    Stored,
    Orphan,
    Invalid,
}

struct Sess {
    si: u64,
    tg: TreeGen,
    n: RNode,
    rng: Rng,
    rt: tokio::runtime::Runtime,
    /// what N knows about blocks, from the harness's own delivery log
    delivered: HashMap<H, Known>,
    /// blocks outside the tree model (invalid twins), by hash
    extra_blocks: HashMap<H, BlockView>,
    /// transactions committed on N's main chain (N never reorganises in this engine)
    committed: HashMap<ProposalShortId, TransactionView>,
    /// every transaction ever handed to N's pool
    ever_submitted: HashSet<ProposalShortId>,
    orphans: Vec<H>,
    invalids: Vec<H>,
    ops: Vec<String>,
    params_desc: String,
    dead: bool,
}

fn stored_block(shared: &Shared, x: &H) -> Option<BlockView> {
    use ckb_store::ChainStore;
    shared.store().get_block(&Byte32::from_slice(x).unwrap())
}

fn id_hex(id: &ProposalShortId) -> String {
    vbase::hex(id.as_slice())
}

fn panic_msg(p: &Box<dyn std::any::Any + Send>) -> String {
    p.downcast_ref::<&str>()
        .map(|s| s.to_string())
        .or_else(|| p.downcast_ref::<String>().cloned())
        .unwrap_or_else(|| "<non-string panic payload>".into())
}

impl Sess {
    fn n_tip(&self) -> H {
        h(&self.n.shared.snapshot().tip_hash())
    }

    fn witness(&self, extra: serde_json::Value) -> serde_json::Value {
        json!({
            "session": self.si,
            "params": self.params_desc,
            "ops_tail": self.ops.iter().rev().take(25).rev().collect::<Vec<_>>(),
            "case": extra,
        })
    }

    fn block_by_hash(&self, x: &H) -> Option<BlockView> {
        if self.tg.rc.contains(x) {
            Some((*self.tg.rc.get(x).block).clone())
        } else {
            self.extra_blocks.get(x).cloned()
        }
    }

    /// Deliver a block whose parent N has, wait for the verdict.
    fn deliver(&mut self, x: &H, r: &mut Report, expect_tip: bool) -> bool {
        let block = Arc::clone(&self.tg.rc.get(x).block);
        let res = self.n.scope.chain_controller().blocking_process_block(Arc::clone(&block));
        if res.is_err() {
            r.inconclusive(&format!(
                "harness: node under test answered {:?} to a block accepted by the builder node",
                res.map_err(|e| e.to_string())
            ));
            self.dead = true;
            return false;
        }
        self.delivered.insert(*x, Known::Stored);
        if expect_tip {
            if self.n_tip() != *x {
                r.inconclusive("harness: node under test did not adopt the next main-chain block");
                self.dead = true;
                return false;
            }
            for tx in block.transactions().iter().skip(1) {
                self.committed.insert(tx.proposal_short_id(), tx.clone());
            }
        }
        self.ops.push(format!(
            "deliver {}#{} txs={} uncles={} ({})",
            hx(x), block.number(), block.transactions().len() - 1, block.uncles().hashes().len(),
            if expect_tip { "main" } else { "side" }
        ));
        true
    }

    /// Deliver a block whose parent N does not have, exactly as `SyncShared::accept_remote_block`
    /// does (status BLOCK_RECEIVED, then the asynchronous chain entry point): it becomes an orphan.
    fn deliver_orphan(&mut self, x: &H, r: &mut Report) -> bool {
        let block = Arc::clone(&self.tg.rc.get(x).block);
        let hash = block.hash();
        if self.n.shared.block_status_map().get(&hash).is_none() {
            self.n.shared.insert_block_status(hash.clone(), BlockStatus::BLOCK_RECEIVED);
        }
        self.n.scope.chain_controller().asynchronous_process_remote_block(RemoteBlock {
            block,
            verify_callback: Box::new(|_| {}),
        });
        let t0 = Instant::now();
        loop {
            if self.n.scope.chain_controller().get_orphan_block(self.n.shared.store(), &hash).is_some() {
                break;
            }
            if t0.elapsed() > Duration::from_secs(20) {
                r.inconclusive("watchdog: a block delivered without its parent did not show up in the orphan pool within 20 s");
                self.dead = true;
                return false;
            }
            std::thread::sleep(Duration::from_micros(200));
        }
        self.delivered.insert(*x, Known::Orphan);
        self.orphans.push(*x);
        self.ops.push(format!("deliver {}#{} without its parent (orphan)", hx(x), self.tg.rc.get(x).number));
        r.count("setup.orphan_blocks");
        true
    }

    /// Logical quiescence of the pool; returns the pooled transactions by short id.
    fn pool(&self, r: &mut Report) -> Option<HashMap<ProposalShortId, TransactionView>> {
        let t0 = Instant::now();
        loop {
            let tip = self.n.shared.snapshot().tip_hash();
            let ctrl = self.n.shared.tx_pool_controller();
            let info = match ctrl.get_tx_pool_info() {
                Ok(i) => i,
                Err(e) => {
                    r.inconclusive(&format!("harness: tx-pool service error {e}"));
                    return None;
                }
            };
            if info.tip_hash == tip && info.verify_queue_size == 0 {
                match ctrl.verif_dump() {
                    Ok(d) if d.snapshot_tip == tip => {
                        if info.orphan_size > 0 {
                            r.count("pool.orphans_present");
                        }
                        return Some(d.entries.into_iter().map(|e| (e.id, e.tx)).collect());
                    }
                    Ok(_) => {}
                    Err(e) => {
                        r.inconclusive(&format!("harness: tx-pool service error {e}"));
                        return None;
                    }
                }
            }
            if t0.elapsed() > Duration::from_secs(30) {
                r.inconclusive("watchdog: pool did not catch up with the chain tip in 30 s");
                return None;
            }
            std::thread::sleep(Duration::from_micros(300));
        }
    }

    fn submit(&mut self, tx: &TransactionView, r: &mut Report) {
        self.ever_submitted.insert(tx.proposal_short_id());
        match self.n.shared.tx_pool_controller().submit_local_tx(tx.clone()) {
            Ok(Ok(_)) => r.count("pool.submit_ok"),
            Ok(Err(_)) => r.count("pool.submit_rejected"),
            Err(e) => r.inconclusive(&format!("harness: submit_local_tx channel error {e}")),
        }
    }

    /// One round: optional side subtrees on the tip (future uncles: stored / unknown / with an
    /// orphaned child / invalid twin), then the next main block X with reconstruction cases run
    /// before X is delivered.
    fn round(&mut self, r: &mut Report, variants: usize) {
        let p = self.tg.tip();
        if self.n_tip() != p {
            r.inconclusive("harness: builder tip and node tip diverged");
            self.dead = true;
            return;
        }
        let mut stored_later: Vec<H> = vec![];
        let sides = if self.rng.chance(650, 1000) { 1 + self.rng.usize_below(2) } else { 0 };
        for _ in 0..sides {
            let w1 = self.tg.extend(&p);
            match self.rng.below(10) {
                0..=3 => {
                    stored_later.push(w1);
                    r.count("setup.side_blocks_stored");
                }
                4..=6 => {
                    r.count("setup.side_blocks_withheld");
                }
                7..=8 => {
                    let w2 = self.tg.extend(&w1);
                    if !self.deliver_orphan(&w2, r) {
                        return;
                    }
                    r.count("setup.side_blocks_withheld");
                }
                _ => {
                    // an invalid twin of the side block, refused by N
                    let m = if self.rng.bool() { Mutation::BadTxRoot } else { Mutation::DaoField };
                    if let Some(twin) = self.tg.mutate(&w1, m) {
                        let res = self.n.scope.chain_controller().blocking_process_block(Arc::new(twin.clone()));
                        if res.is_err() {
                            let th = h(&twin.hash());
                            self.delivered.insert(th, Known::Invalid);
                            self.invalids.push(th);
                            self.extra_blocks.insert(th, twin);
                            r.count("setup.invalid_blocks_refused");
                            self.ops.push(format!("deliver invalid twin {} ({m:?}) of {}: refused", hx(&th), hx(&w1)));
                        }
                    }
                    stored_later.push(w1);
                }
            }
        }
        let x = self.tg.extend(&p);
        let xb = (*self.tg.rc.get(&x).block).clone();
        if variants > 0 {
            self.cases(&xb, &p, r, variants);
        }
        if self.dead {
            return;
        }
        if !self.deliver(&x, r, true) {
            return;
        }
        for w in stored_later {
            if !self.deliver(&w, r, false) {
                return;
            }
        }
        if self.n_tip() != x {
            r.inconclusive("harness: a side block displaced the main chain of the node under test");
            self.dead = true;
        }
    }

    fn cases(&mut self, x: &BlockView, parent: &H, r: &mut Report, variants: usize) {
        let txs = x.transactions();
        let in_block: HashSet<ProposalShortId> = txs.iter().skip(1).map(|t| t.proposal_short_id()).collect();
        let others: Vec<TransactionView> = self
            .tg
            .committable(parent)
            .into_iter()
            .filter(|t| !in_block.contains(&t.proposal_short_id()))
            .collect();
        r.count("blocks_reconstructed_from");
        if !x.uncles().hashes().is_empty() {
            r.count("blocks_with_uncles");
        }
        if txs.len() > 1 {
            r.count("blocks_with_txs");
        }
        for phase in 0..2 {
            if phase == 0 {
                let p_block = [0u64, 300, 600, 1000][self.rng.usize_below(4)];
                for tx in txs.iter().skip(1) {
                    if self.rng.chance(p_block, 1000) {
                        self.submit(tx, r);
                    }
                }
                for tx in &others {
                    if self.rng.chance(600, 1000) {
                        self.submit(tx, r);
                    }
                }
            } else {
                for tx in txs.iter().skip(1) {
                    self.submit(tx, r);
                }
            }
            let Some(pool) = self.pool(r) else {
                self.dead = true;
                return;
            };
            for _ in 0..variants {
                self.one_case(x, &pool, &others, r);
                if self.dead {
                    return;
                }
            }
        }
    }

    /// Apply one tampering to the parts; None when not applicable to this block.
    fn tamper(
        &mut self,
        kind: Tamper,
        p: &mut Parts,
        x: &BlockView,
        pool: &HashMap<ProposalShortId, TransactionView>,
    ) -> Option<String> {
        let rng = &mut self.rng;
        let used: HashSet<ProposalShortId> = p
            .short_ids
            .iter()
            .cloned()
            .chain(p.prefilled.iter().map(|(_, t)| t.clone().into_view().proposal_short_id()))
            .collect();
        let x_uncles: HashSet<H> = x.uncles().hashes().into_iter().map(|u| h(&u)).collect();
        match kind {
            Tamper::None => Some(String::new()),
            Tamper::IdsSwap => {
                if p.short_ids.len() < 2 {
                    return None;
                }
                let i = rng.usize_below(p.short_ids.len());
                let mut j = rng.usize_below(p.short_ids.len());
                if i == j {
                    j = (j + 1) % p.short_ids.len();
                }
                p.short_ids.swap(i, j);
                Some(format!("short ids {i} and {j} swapped"))
            }
            Tamper::IdsForeignPool | Tamper::IdsForeignCommitted | Tamper::IdsRandom | Tamper::IdsAdd => {
                let foreign: Option<ProposalShortId> = match kind {
                    Tamper::IdsRandom => Some(ProposalShortId::from_slice(&rng.bytes(10)).unwrap()),
                    Tamper::IdsForeignCommitted => {
                        let mut c: Vec<&ProposalShortId> = self.committed.keys().filter(|k| !used.contains(*k)).collect();
                        c.sort_by(|a, b| a.as_slice().cmp(b.as_slice()));
                        if c.is_empty() { None } else { Some(c[rng.usize_below(c.len())].clone()) }
                    }
                    _ => {
                        let mut c: Vec<&ProposalShortId> = pool.keys().filter(|k| !used.contains(*k)).collect();
                        c.sort_by(|a, b| a.as_slice().cmp(b.as_slice()));
                        if c.is_empty() { None } else { Some(c[rng.usize_below(c.len())].clone()) }
                    }
                };
                let foreign = foreign?;
                if kind == Tamper::IdsAdd {
                    let at = rng.usize_below(p.short_ids.len() + 1);
                    p.short_ids.insert(at, foreign.clone());
                    Some(format!("short id {} of another pooled transaction inserted at {at}", id_hex(&foreign)))
                } else {
                    if p.short_ids.is_empty() {
                        return None;
                    }
                    let at = rng.usize_below(p.short_ids.len());
                    let old = std::mem::replace(&mut p.short_ids[at], foreign.clone());
                    Some(format!("short id {at} {} replaced by {} ({kind:?})", id_hex(&old), id_hex(&foreign)))
                }
            }
            Tamper::IdsDuplicate => {
                if p.short_ids.is_empty() {
                    return None;
                }
                let i = rng.usize_below(p.short_ids.len());
                let id = p.short_ids[i].clone();
                if p.short_ids.len() >= 2 && rng.bool() {
                    let j = (i + 1 + rng.usize_below(p.short_ids.len() - 1)) % p.short_ids.len();
                    p.short_ids[j] = id;
                    Some(format!("short id {i} copied over {j}"))
                } else {
                    p.short_ids.push(id);
                    Some(format!("short id {i} appended again"))
                }
            }
            Tamper::IdsDrop => {
                if p.short_ids.is_empty() {
                    return None;
                }
                let i = rng.usize_below(p.short_ids.len());
                p.short_ids.remove(i);
                Some(format!("short id {i} dropped"))
            }
            Tamper::PrefilledNoCellbase => {
                p.prefilled.remove(0);
                if rng.bool() {
                    p.short_ids.insert(0, x.transactions()[0].proposal_short_id());
                }
                Some("cellbase not prefilled".into())
            }
            Tamper::PrefilledOutOfOrder => {
                if p.prefilled.len() < 3 {
                    return None;
                }
                let i = 1 + rng.usize_below(p.prefilled.len() - 2);
                p.prefilled.swap(i, i + 1);
                Some(format!("prefilled entries {i} and {} swapped", i + 1))
            }
            Tamper::PrefilledEqualIndex => {
                if p.prefilled.len() < 2 {
                    return None;
                }
                let i = 1 + rng.usize_below(p.prefilled.len() - 1);
                p.prefilled[i].0 = p.prefilled[i - 1].0;
                Some(format!("prefilled entry {i} given the index of entry {}", i - 1))
            }
            Tamper::PrefilledOutOfRange => {
                let total = p.prefilled.len() + p.short_ids.len();
                let last = p.prefilled.len() - 1;
                if last == 0 {
                    return None;
                }
                p.prefilled[last].0 = total + rng.usize_below(3);
                Some(format!("last prefilled index set to {} (>= {total})", p.prefilled[last].0))
            }
            Tamper::PrefilledAlsoShortId => {
                if p.prefilled.len() < 2 {
                    return None;
                }
                let i = 1 + rng.usize_below(p.prefilled.len() - 1);
                let id = p.prefilled[i].1.clone().into_view().proposal_short_id();
                let at = rng.usize_below(p.short_ids.len() + 1);
                p.short_ids.insert(at, id);
                Some(format!("short id of prefilled entry {i} also listed at {at}"))
            }
            Tamper::PrefilledWrongTx => {
                if p.prefilled.len() < 2 {
                    return None;
                }
                let mut c: Vec<&ProposalShortId> = pool.keys().filter(|k| !used.contains(*k)).collect();
                c.sort_by(|a, b| a.as_slice().cmp(b.as_slice()));
                if c.is_empty() {
                    return None;
                }
                let i = 1 + rng.usize_below(p.prefilled.len() - 1);
                let t = pool[c[rng.usize_below(c.len())]].clone();
                p.prefilled[i].1 = t.data();
                Some(format!("prefilled entry {i} carries another transaction {}", hx(&h(&t.hash()))))
            }
            Tamper::UnclesSwap => {
                if p.uncles.len() < 2 {
                    return None;
                }
                p.uncles.swap(0, 1);
                Some("uncle hashes 0 and 1 swapped".into())
            }
            Tamper::UncleReplaceStored | Tamper::UncleReplaceOrphan | Tamper::UncleReplaceInvalid | Tamper::UncleReplaceUnknown | Tamper::UncleAdd => {
                let cand: Option<H> = match kind {
                    Tamper::UncleReplaceUnknown => Some(h(&Byte32::from_slice(&rng.bytes(32)).unwrap())),
                    Tamper::UncleReplaceOrphan => {
                        let c: Vec<&H> = self.orphans.iter().filter(|o| !x_uncles.contains(*o)).collect();
                        if c.is_empty() { None } else { Some(*c[rng.usize_below(c.len())]) }
                    }
                    Tamper::UncleReplaceInvalid => {
                        if self.invalids.is_empty() { None } else { Some(self.invalids[rng.usize_below(self.invalids.len())]) }
                    }
                    _ => {
                        // any block N has stored: main chain or side branch
                        let mut c: Vec<&H> = self
                            .delivered
                            .iter()
                            .filter(|(k, v)| **v == Known::Stored && !x_uncles.contains(*k) && self.tg.rc.get(k).number > 0)
                            .map(|(k, _)| k)
                            .collect();
                        c.sort();
                        if c.is_empty() { None } else { Some(*c[rng.usize_below(c.len())]) }
                    }
                };
                let cand = cand?;
                let ch = Byte32::from_slice(&cand).unwrap();
                if kind == Tamper::UncleAdd {
                    let at = rng.usize_below(p.uncles.len() + 1);
                    p.uncles.insert(at, ch);
                    Some(format!("hash of stored block {} inserted into the uncle list at {at}", hx(&cand)))
                } else {
                    if p.uncles.is_empty() {
                        return None;
                    }
                    let at = rng.usize_below(p.uncles.len());
                    let old = std::mem::replace(&mut p.uncles[at], ch);
                    Some(format!("uncle hash {at} {} replaced by {} ({kind:?})", hx(&h(&old)), hx(&cand)))
                }
            }
            Tamper::UncleDrop => {
                if p.uncles.is_empty() {
                    return None;
                }
                let i = rng.usize_below(p.uncles.len());
                p.uncles.remove(i);
                Some(format!("uncle hash {i} dropped"))
            }
            Tamper::ProposalsAdd => {
                let at = rng.usize_below(p.proposals.len() + 1);
                p.proposals.insert(at, ProposalShortId::from_slice(&rng.bytes(10)).unwrap());
                Some(format!("a proposal id inserted at {at}"))
            }
            Tamper::ProposalsDrop => {
                if p.proposals.is_empty() {
                    return None;
                }
                let i = rng.usize_below(p.proposals.len());
                p.proposals.remove(i);
                Some(format!("proposal id {i} dropped"))
            }
            Tamper::ProposalsReplace => {
                if p.proposals.is_empty() {
                    return None;
                }
                let i = rng.usize_below(p.proposals.len());
                p.proposals[i] = ProposalShortId::from_slice(&rng.bytes(10)).unwrap();
                Some(format!("proposal id {i} replaced"))
            }
            Tamper::ProposalsSwap => {
                if p.proposals.len() < 2 || p.proposals[0] == p.proposals[1] {
                    return None;
                }
                p.proposals.swap(0, 1);
                Some("proposal ids 0 and 1 swapped".into())
            }
            Tamper::ExtensionFlip => {
                let ext = p.extension.clone()?;
                let mut raw = ext.raw_data().to_vec();
                if raw.is_empty() {
                    return None;
                }
                let i = rng.usize_below(raw.len());
                raw[i] ^= 1 << rng.below(8);
                p.extension = Some(ckb_types::bytes::Bytes::from(raw).into());
                Some(format!("extension byte {i} flipped"))
            }
            Tamper::ExtensionDrop => {
                p.extension.as_ref()?;
                p.extension = None;
                Some("extension removed".into())
            }
            Tamper::ExtensionEmptyAdded => {
                if p.extension.is_some() {
                    return None;
                }
                p.extension = Some(ckb_types::bytes::Bytes::new().into());
                Some("an empty extension field added to a block that has none".into())
            }
            Tamper::ExtensionEmptied => {
                let ext = p.extension.clone()?;
                if ext.raw_data().is_empty() {
                    return None;
                }
                p.extension = Some(ckb_types::bytes::Bytes::new().into());
                Some("extension replaced by an empty extension field".into())
            }
            Tamper::ExtensionAppend => {
                let mut raw = p.extension.as_ref().map(|e| e.raw_data().to_vec()).unwrap_or_default();
                let extra_len = 1 + rng.usize_below(8);
                raw.extend_from_slice(&rng.bytes(extra_len));
                p.extension = Some(ckb_types::bytes::Bytes::from(raw).into());
                Some("bytes appended to the extension".into())
            }
        }
    }

    fn one_case(
        &mut self,
        x: &BlockView,
        pool: &HashMap<ProposalShortId, TransactionView>,
        others: &[TransactionView],
        r: &mut Report,
    ) {
        // every generated block carries an extension (the chain root is committed from epoch 0
        // on); one case in six is run on a twin without extension whose header commits to the
        // uncles alone (extra hash computed by the harness; reconstruction does not need a
        // contextually valid header)
        let stripped: BlockView;
        let x: &BlockView = if x.extension().is_some() && self.rng.chance(170, 1000) {
            let d = x.data();
            let uncles_hash: H = if d.uncles().is_empty() {
                [0u8; 32]
            } else {
                let mut buf = vec![];
                for u in d.uncles().into_iter() {
                    buf.extend_from_slice(&blake2b_256(u.header().as_slice()));
                }
                blake2b_256(&buf)
            };
            let raw = d.header().raw().as_builder().extra_hash(Byte32::from_slice(&uncles_hash).unwrap()).build();
            let header = d.header().as_builder().raw(raw).build();
            let b0 = packed::Block::new_builder().header(header).uncles(d.uncles()).transactions(d.transactions()).proposals(d.proposals()).build();
            stripped = vnode::builder::seal(&self.tg.gi.consensus, b0.into_view_without_reset_header());
            r.count("base.block_without_extension");
            &stripped
        } else {
            x
        };
        let txs = x.transactions();
        let n = txs.len() - 1;
        // prefilled index set
        let density = [0u64, 150, 500, 1000][self.rng.usize_below(4)];
        let prefilled: HashSet<usize> = (1..=n).filter(|_| self.rng.chance(density, 1000)).collect();
        let honest = packed::CompactBlock::build_from_block(x, &prefilled);
        let mut parts = parts_of(&honest);
        // tampering
        let mut kind = if self.rng.chance(300, 1000) { Tamper::None } else { *self.rng.pick(TAMPERS) };
        let how = match self.tamper(kind, &mut parts, x, pool) {
            Some(s) => s,
            None => {
                kind = Tamper::None;
                parts = parts_of(&honest);
                String::new()
            }
        };
        let tampered = kind != Tamper::None;
        let cb = build_compact(&parts);
        if !tampered && cb.as_slice() != honest.as_slice() {
            r.inconclusive("harness: compact block re-assembled from its parts differs from the original");
            self.dead = true;
            return;
        }
        r.count(&format!("tamper.{kind:?}"));
        // what the peer supplies
        let p_recv = [0u64, 350, 1000][self.rng.usize_below(3)];
        let mut received: Vec<TransactionView> = vec![];
        for (i, tx) in txs.iter().enumerate().skip(1) {
            if !prefilled.contains(&i) && self.rng.chance(p_recv, 1000) {
                received.push(tx.clone());
            }
        }
        if self.rng.chance(150, 1000) && !others.is_empty() {
            // a transaction the compact block does not ask for (ignored unless its id is listed)
            received.push(others[self.rng.usize_below(others.len())].clone());
        }
        if self.rng.chance(200, 1000) {
            self.rng.shuffle(&mut received);
        }
        let mut uncles_index: Vec<u32> = vec![];
        let mut received_uncles: Vec<UncleBlockView> = vec![];
        let p_unc = [0u64, 500, 1000][self.rng.usize_below(3)];
        for (i, uh) in parts.uncles.iter().enumerate() {
            if self.rng.chance(p_unc, 1000) {
                if let Some(b) = self.block_by_hash(&h(uh)) {
                    uncles_index.push(i as u32);
                    received_uncles.push(b.as_uncle());
                }
            }
        }
        // the node's own verifier decides whether reconstruction is attempted at all
        let status = verif_compact_block_verify(&cb);
        if !status.is_ok() {
            r.eval();
            r.count(&format!("verifier.rejected.{:?}", status.code()));
            r.count("verifier.rejected");
            return;
        }
        r.count("verifier.accepted");

        // ---- model ------------------------------------------------------------------
        let recv_ids: HashSet<ProposalShortId> = received.iter().map(|t| t.proposal_short_id()).collect();
        let total = parts.prefilled.len() + parts.short_ids.len();
        let pre_idx: HashSet<usize> = parts.prefilled.iter().map(|(i, _)| *i).collect();
        let mut lower: BTreeSet<usize> = BTreeSet::new(); // certainly missing
        let mut upper: BTreeSet<usize> = BTreeSet::new(); // possibly missing
        let mut avail_sig = String::new();
        {
            let mut ids = parts.short_ids.iter();
            for pos in 0..total {
                if pre_idx.contains(&pos) {
                    avail_sig.push('P');
                    r.count("split.prefilled");
                    continue;
                }
                let Some(id) = ids.next() else { break };
                if recv_ids.contains(id) {
                    avail_sig.push('r');
                    r.count("split.received");
                } else if pool.contains_key(id) {
                    avail_sig.push('p');
                    r.count("split.pool");
                } else if self.committed.contains_key(id) {
                    avail_sig.push('c');
                    r.count("split.committed_on_chain");
                } else if self.ever_submitted.contains(id) {
                    // handed to the pool once but not pooled now (rejected / conflict cache)
                    avail_sig.push('?');
                    upper.insert(pos);
                    r.count("split.uncertain");
                } else {
                    avail_sig.push('-');
                    lower.insert(pos);
                    upper.insert(pos);
                    r.count("split.missing");
                }
            }
        }
        let mut missing_uncles: BTreeSet<usize> = BTreeSet::new();
        let mut invalid_uncle = false;
        let mut uncle_sig = String::new();
        for (i, uh) in parts.uncles.iter().enumerate() {
            if uncles_index.contains(&(i as u32)) {
                uncle_sig.push('r');
                r.count("uncles.supplied");
                continue;
            }
            match self.delivered.get(&h(uh)) {
                Some(Known::Stored) => {
                    uncle_sig.push('s');
                    r.count("uncles.stored");
                }
                Some(Known::Orphan) => {
                    uncle_sig.push('o');
                    r.count("uncles.orphan");
                }
                Some(Known::Invalid) => {
                    uncle_sig.push('i');
                    invalid_uncle = true;
                    r.count("uncles.invalid");
                }
                None => {
                    uncle_sig.push('-');
                    missing_uncles.insert(i);
                    r.count("uncles.unknown");
                }
            }
        }

        // ---- the call ---------------------------------------------------------------
        let active_chain = self.n.relayer.shared().active_chain();
        let relayer = &self.n.relayer;
        let rt = &self.rt;
        let res = catch_unwind(AssertUnwindSafe(|| {
            rt.block_on(relayer.reconstruct_block(&active_chain, &cb, received.clone(), &uncles_index, &received_uncles))
        }));
        r.eval();
        let case = |extra: serde_json::Value| {
            json!({
                "block": format!("{}#{}", vbase::hex(x.hash().as_slice()), x.number()),
                "block_txs": txs.len(), "block_uncles": x.uncles().hashes().into_iter().map(|u| vbase::hex(u.as_slice())).collect::<Vec<_>>(),
                "tamper": format!("{kind:?}"), "how": how,
                "prefilled_indexes": parts.prefilled.iter().map(|(i, _)| *i).collect::<Vec<_>>(),
                "short_ids": parts.short_ids.iter().map(id_hex).collect::<Vec<_>>(),
                "availability_by_position (P prefilled, r received, p pool, c committed on chain, ? uncertain, - missing)": avail_sig,
                "compact_uncles": parts.uncles.iter().map(|u| vbase::hex(u.as_slice())).collect::<Vec<_>>(),
                "uncles_by_position (r supplied, s stored, o orphan, i invalid, - unknown)": uncle_sig,
                "uncles_index": uncles_index,
                "received_transactions": received.iter().map(|t| id_hex(&t.proposal_short_id())).collect::<Vec<_>>(),
                "compact_block": vbase::hex(cb.as_slice()),
                "extra": extra,
            })
        };
        let res = match res {
            Ok(v) => v,
            Err(p) => {
                let _ = hooks::take_panics();
                let msg = panic_msg(&p);
                r.count("outcome.panic");
                let group = match kind {
                    Tamper::None => "honest",
                    _ => "tampered",
                };
                r.violation(
                    &format!("reconstruct.panicked@{group}:{}", msg.chars().take(50).collect::<String>()),
                    format!("reconstruct_block panicked on a compact block accepted by CompactBlockVerifier: {msg}"),
                    self.witness(case(json!({"panic": msg}))),
                );
                return;
            }
        };
        let something_missing = !lower.is_empty() || !missing_uncles.is_empty();
        let outcome = match &res {
            ReconstructionResult::Block(_) => "block".to_string(),
            ReconstructionResult::Missing(..) => "missing".to_string(),
            ReconstructionResult::Collided => "collided".to_string(),
            ReconstructionResult::Error(s) => format!("error.{:?}", s.code()),
        };
        r.count(&format!("outcome.{outcome}"));
        r.distinct_str(&format!("{kind:?}|{avail_sig}|{uncle_sig}|{outcome}"));
        if r.samples.len() < 4 && (r.samples.len() as u64) < r.counter("outcome.block") / 40 + r.counter("outcome.missing") / 40 + r.counter("outcome.collided") {
            // evidence: a few of the judged cases, written out (compact block bytes shortened)
            let mut c = case(json!({"outcome": outcome}));
            if let Some(o) = c.as_object_mut() {
                let cbh = vbase::hex(cb.as_slice());
                o.insert("compact_block".into(), json!(format!("{}.. ({} bytes)", &cbh[..cbh.len().min(96)], cb.as_slice().len())));
            }
            r.sample(c);
        }
        match res {
            ReconstructionResult::Block(b) => {
                if something_missing {
                    r.violation(
                        "reconstruct.block_returned_while_parts_missing",
                        format!(
                            "Block returned although transactions at {:?} / uncles at {:?} are available neither locally nor from the peer",
                            lower, missing_uncles
                        ),
                        self.witness(case(json!({"result_block_hash": vbase::hex(b.hash().as_slice())}))),
                    );
                    return;
                }
                let hdr = &parts.header;
                let body = commitments_of_body(&b.data());
                let header_same = b.data().header().as_slice() == hdr.as_slice();
                let hash_same = h(&b.hash()) == blake2b_256(hdr.as_slice());
                let tx_ok = body.tx_root == h(&hdr.raw().transactions_root());
                let prop_ok = body.proposals_hash == h(&hdr.raw().proposals_hash());
                let extra_ok = body.extra_hash == h(&hdr.raw().extra_hash());
                if header_same && hash_same && tx_ok && prop_ok && extra_ok {
                    // the header commits to this body: it must be X itself
                    if b.data().as_slice() != x.data().as_slice() {
                        // only possible through a hash collision
                        r.violation(
                            "reconstruct.block_committed_by_header_but_different_bytes",
                            "reconstructed block satisfies every header commitment but its bytes differ from the original block".into(),
                            self.witness(case(json!({}))),
                        );
                    } else {
                        r.count("block.byte_identical");
                        if tampered {
                            r.count("block.identical_despite_tampering");
                        }
                    }
                    return;
                }
                // not the block the header commits to
                let downstream = {
                    let nonctx = BlockVerifier::new(self.n.shared.consensus()).verify(&b).map_err(|e| e.to_string());
                    let full = vnode::verify::full_verify_noncommit(&self.n.shared, &b);
                    json!({
                        "result_block_hash": vbase::hex(b.hash().as_slice()),
                        "compact_header_hash": vbase::hex(&blake2b_256(hdr.as_slice())),
                        "header_identical": header_same,
                        "tx_root_committed": tx_ok, "proposals_hash_committed": prop_ok, "extra_hash_committed": extra_ok,
                        "node_non_contextual_BlockVerifier_on_result": format!("{nonctx:?}"),
                        "node_full_verification_of_result_as_next_block": format!("{full:?}"),
                    })
                };
                let x_uncles: Vec<Byte32> = x.uncles().hashes().into_iter().collect();
                let b_uncles: Vec<Byte32> = b.uncles().hashes().into_iter().collect();
                let mut sigs = vec![];
                if !tx_ok {
                    sigs.push("reconstruct.block_with_transactions_not_committed_by_header");
                }
                if !prop_ok {
                    sigs.push("reconstruct.block_with_proposals_not_committed_by_header");
                }
                if !extra_ok {
                    if x_uncles != b_uncles {
                        sigs.push("reconstruct.block_with_uncles_not_committed_by_header");
                    }
                    if x.data().extension().map(|e| e.as_slice().to_vec()) != b.data().extension().map(|e| e.as_slice().to_vec()) {
                        sigs.push("reconstruct.block_with_extension_not_committed_by_header");
                    }
                    if sigs.is_empty() {
                        sigs.push("reconstruct.block_with_extra_hash_not_committed_by_header");
                    }
                }
                if sigs.is_empty() {
                    sigs.push("reconstruct.block_header_differs_from_compact_header");
                }
                for sig in sigs {
                    r.violation(
                        sig,
                        format!(
                            "reconstruct_block returned Block(b) that is not the block the compact block's header commits to ({how}): b.hash()={} header hash={} tx_root ok={tx_ok} proposals_hash ok={prop_ok} extra_hash ok={extra_ok}",
                            hx(&h(&b.hash())), hx(&blake2b_256(hdr.as_slice()))
                        ),
                        self.witness(case(downstream.clone())),
                    );
                }
            }
            ReconstructionResult::Missing(mt, mu) => {
                let mt: BTreeSet<usize> = mt.into_iter().collect();
                let mu: BTreeSet<usize> = mu.into_iter().collect();
                if invalid_uncle {
                    // the code may legitimately stop at the invalid uncle instead; a Missing
                    // report is still judged below
                    r.count("missing.with_invalid_uncle_listed");
                }
                if !(lower.is_subset(&mt) && mt.is_subset(&upper)) {
                    r.violation(
                        "reconstruct.missing_tx_indexes_differ_from_model",
                        format!("Missing reports transaction indexes {mt:?}; unavailable according to the model: {lower:?} (possibly also {:?})", upper.difference(&lower).collect::<Vec<_>>()),
                        self.witness(case(json!({}))),
                    );
                } else if mu != missing_uncles {
                    r.violation(
                        "reconstruct.missing_uncle_indexes_differ_from_model",
                        format!("Missing reports uncle indexes {mu:?}; unknown to the node and not supplied according to the model: {missing_uncles:?}"),
                        self.witness(case(json!({}))),
                    );
                } else if mt.is_empty() && mu.is_empty() {
                    r.violation(
                        "reconstruct.missing_reported_with_empty_sets",
                        "Missing returned with two empty index sets".into(),
                        self.witness(case(json!({}))),
                    );
                } else {
                    r.count("missing.exact");
                }
            }
            ReconstructionResult::Collided | ReconstructionResult::Error(_) => {
                if outcome == format!("error.{:?}", StatusCode::TxPool) {
                    r.inconclusive("harness: tx-pool service did not answer fetch_txs");
                    return;
                }
                if !tampered {
                    r.violation(
                        "reconstruct.honest_compact_block_not_reconstructed",
                        format!("an untampered compact block was answered {outcome} (model: missing txs {lower:?}..{upper:?}, missing uncles {missing_uncles:?})"),
                        self.witness(case(json!({}))),
                    );
                }
            }
        }
    }

    /// Message-level episode: a CompactBlock carrying the honest header of the next block but a
    /// tampered body part that the transactions root does not cover (proposals / extension /
    /// uncle list), every transaction prefilled. The refuting event: a block that no verified
    /// header commits to becomes the node's tip.
    fn forge_episode(&mut self, r: &mut Report) {
        let mut found: Option<(H, BlockView)> = None;
        for _ in 0..10 {
            if self.dead {
                return;
            }
            let p = self.tg.tip();
            let x = self.tg.extend(&p);
            let xb = (*self.tg.rc.get(&x).block).clone();
            let all_known = xb
                .uncles()
                .hashes()
                .into_iter()
                .all(|u| self.delivered.get(&h(&u)) == Some(&Known::Stored));
            if all_known {
                found = Some((p, xb));
                break;
            }
            if !self.deliver(&x, r, true) {
                return;
            }
        }
        let Some((p, xb)) = found else {
            r.count("msg.forge.no_suitable_block");
            return;
        };
        r.count("msg.forge.episodes");
        vnode::node::set_time(xb.timestamp() + 1_000);
        let all: HashSet<usize> = (1..xb.transactions().len()).collect();
        let honest = packed::CompactBlock::build_from_block(&xb, &all);
        let mut parts = parts_of(&honest);
        let kinds = [Tamper::ProposalsAdd, Tamper::ExtensionAppend, Tamper::UncleDrop, Tamper::ProposalsDrop];
        let mut kind = kinds[self.rng.usize_below(kinds.len())];
        let empty = HashMap::new();
        let how = match self.tamper(kind, &mut parts, &xb, &empty) {
            Some(s) => s,
            None => {
                kind = Tamper::ProposalsAdd;
                parts = parts_of(&honest);
                self.tamper(kind, &mut parts, &xb, &empty).unwrap()
            }
        };
        let cb = build_compact(&parts);
        let nc = Arc::new(netctx::RecordingContext::new(SupportProtocols::RelayV3));
        let peer: PeerIndex = 9usize.into();
        let msg = packed::RelayMessage::new_builder().set(cb).build().as_bytes();
        let rt = &self.rt;
        let relayer = &mut self.n.relayer;
        let nc1: Arc<dyn ckb_network::CKBProtocolContext + Sync> = nc.clone();
        let r1 = catch_unwind(AssertUnwindSafe(|| rt.block_on(relayer.received(nc1, peer, msg))));
        r.eval();
        r.distinct_str(&format!("forge|{kind:?}|{}", xb.uncles().hashes().len()));
        let reset_time = || vnode::node::set_time(ChainParams::default().genesis_timestamp + 3_000_000_000);
        self.dead = true;
        if let Err(pn) = r1 {
            let _ = hooks::take_panics();
            let msg = panic_msg(&pn);
            r.violation(
                &format!("relay.received_panicked@tampered_compact_block:{}", msg.chars().take(50).collect::<String>()),
                format!("Relayer::received panicked on a CompactBlock with {how}: {msg}"),
                self.witness(json!({"block": vbase::hex(xb.hash().as_slice()), "tamper": format!("{kind:?}")})),
            );
            reset_time();
            return;
        }
        // accept_block hands the reconstructed block to the chain service asynchronously
        let t0 = Instant::now();
        while self.n_tip() == p && t0.elapsed() < Duration::from_secs(6) {
            std::thread::sleep(Duration::from_millis(1));
        }
        let tip = self.n_tip();
        if tip == p {
            r.count("msg.forge.outcome.not_accepted");
            reset_time();
            return;
        }
        if tip == h(&xb.hash()) {
            r.count("msg.forge.outcome.honest_block_accepted");
            reset_time();
            return;
        }
        let tb = stored_block(&self.n.shared, &tip);
        let (pow_ok, desc) = match &tb {
            Some(b) => (
                self.n.shared.consensus().pow_engine().verify(&b.header().data()),
                format!(
                    "tip {}#{} parent {} proposals={} uncles={} extension={:?}",
                    vbase::hex(b.hash().as_slice()), b.number(), hx(&h(&b.parent_hash())), b.data().proposals().len(),
                    b.uncles().hashes().len(), b.extension().map(|e| e.raw_data().len())
                ),
            ),
            None => (false, "tip block not readable".into()),
        };
        // does the honest block still get through afterwards?
        let nc2: Arc<dyn ckb_network::CKBProtocolContext + Sync> = nc.clone();
        let msg2 = packed::RelayMessage::new_builder().set(honest).build().as_bytes();
        let relayer = &mut self.n.relayer;
        let peer2: PeerIndex = 10usize.into();
        let _ = catch_unwind(AssertUnwindSafe(|| rt.block_on(relayer.received(nc2, peer2, msg2))));
        let t1 = Instant::now();
        let mut honest_stored = false;
        while t1.elapsed() < Duration::from_secs(3) {
            if stored_block(&self.n.shared, &h(&xb.hash())).is_some() {
                honest_stored = true;
                break;
            }
            std::thread::sleep(Duration::from_millis(2));
        }
        r.count("msg.forge.outcome.forged_block_became_tip");
        r.violation(
            if pow_ok {
                "relay.block_no_verified_header_commits_to_became_tip"
            } else {
                "relay.block_with_invalid_pow_became_tip"
            },
            format!(
                "a CompactBlock with the honest header {} (verified by HeaderVerifier) and {how} made the node adopt {desc} — a block whose hash was never announced and whose seal is {}",
                vbase::hex(xb.hash().as_slice()),
                if pow_ok { "accepted by the PoW engine (dummy PoW in this session)" } else { "INVALID for the PoW engine" }
            ),
            self.witness(json!({
                "honest_block": vbase::hex(xb.hash().as_slice()), "tamper": format!("{kind:?}"), "how": how,
                "tip_after": vbase::hex(&tip), "tip_pow_valid": pow_ok, "tip": desc,
                "honest_block_stored_when_relayed_afterwards": honest_stored,
                "bans": nc.bans.lock().unwrap().iter().map(|(p, s)| format!("{p}: {s}")).collect::<Vec<_>>(),
            })),
        );
        reset_time();
    }

    /// Serving side: GetBlockTransactions for stored blocks with transaction / uncle indexes at
    /// and beyond the ends of the block's lists. The handler must not panic and must answer with
    /// exactly the existing entries, in request order.
    fn serve_episode(&mut self, r: &mut Report) {
        if self.dead {
            return;
        }
        let tip = self.n_tip();
        let path = self.tg.rc.path(&tip);
        let mut blocks: Vec<BlockView> = path.iter().rev().take(40).filter_map(|x| stored_block(&self.n.shared, x)).collect();
        // prefer blocks with uncles and with transactions, keep a plain one as well
        blocks.sort_by_key(|b| std::cmp::Reverse(b.uncles().hashes().len() * 10 + b.transactions().len().min(9)));
        let mut chosen: Vec<BlockView> = blocks.iter().take(3).cloned().collect();
        if let Some(last) = blocks.last() {
            chosen.push(last.clone());
        }
        let tip_ts = stored_block(&self.n.shared, &tip).map(|b| b.timestamp()).unwrap_or(0);
        vnode::node::set_time(tip_ts + 1_000);
        let max_u = self.n.shared.consensus().max_uncles_num();
        for b in chosen {
            let t = b.transactions().len() as u32;
            let n = b.uncles().hashes().len() as u32;
            let mut reqs: Vec<(Vec<u32>, Vec<u32>)> = vec![
                (vec![t], vec![n]),
                (vec![t.saturating_sub(1), t], vec![n.saturating_sub(1), n]),
                (vec![0, t + 1, u32::MAX], vec![n + 1]),
                (vec![], vec![u32::MAX]),
                ((0..t).collect(), (0..n).collect()),
            ];
            for (_, u) in reqs.iter_mut() {
                u.truncate(max_u);
            }
            for (ti, ui) in reqs {
                let nc = Arc::new(netctx::RecordingContext::new(SupportProtocols::RelayV3));
                let content = packed::GetBlockTransactions::new_builder()
                    .block_hash(b.hash())
                    .indexes(ti.as_slice())
                    .uncle_indexes(ui.as_slice())
                    .build();
                let msg = packed::RelayMessage::new_builder().set(content).build().as_bytes();
                let nc1: Arc<dyn ckb_network::CKBProtocolContext + Sync> = nc.clone();
                let rt = &self.rt;
                let relayer = &mut self.n.relayer;
                let peer: PeerIndex = 9usize.into();
                let res = catch_unwind(AssertUnwindSafe(|| rt.block_on(relayer.received(nc1, peer, msg))));
                r.eval();
                r.count("serve.requests");
                r.distinct_str(&format!("serve|{}|{}|{:?}|{:?}", t.min(3), n, ti.iter().map(|i| (*i as i64 - t as i64).clamp(-2, 2)).collect::<Vec<_>>(), ui.iter().map(|i| (*i as i64 - n as i64).clamp(-2, 2)).collect::<Vec<_>>()));
                let wit = self.witness(json!({"block": vbase::hex(b.hash().as_slice()), "transactions_in_block": t, "uncles_in_block": n, "indexes": ti, "uncle_indexes": ui}));
                if let Err(pn) = res {
                    let _ = hooks::take_panics();
                    let m = panic_msg(&pn);
                    r.violation(
                        "relay.received_panicked@get_block_transactions_index_at_or_past_end",
                        format!("Relayer::received panicked on GetBlockTransactions(indexes={ti:?}, uncle_indexes={ui:?}) for a stored block with {t} transactions and {n} uncles: {m}"),
                        wit,
                    );
                    self.dead = true;
                    vnode::node::set_time(ChainParams::default().genesis_timestamp + 3_000_000_000);
                    return;
                }
                let want_t: Vec<packed::Byte32> = ti.iter().filter_map(|i| b.transactions().get(*i as usize).map(|x| x.hash())).collect();
                let want_u: Vec<packed::Byte32> = ui.iter().filter_map(|i| b.uncles().hashes().get(*i as usize)).collect();
                let t0 = Instant::now();
                let got = loop {
                    let g = nc.block_transactions_replies();
                    if !g.is_empty() || t0.elapsed() > Duration::from_secs(3) {
                        break g;
                    }
                    std::thread::sleep(Duration::from_millis(1));
                };
                match got.first() {
                    None => r.count("serve.no_reply_observed"),
                    Some((gt, gu)) => {
                        r.count("serve.replies_checked");
                        if *gt != want_t || *gu != want_u {
                            r.violation(
                                "relay.get_block_transactions_reply_differs_from_block",
                                format!("reply carries {} transactions / {} uncles, the block's entries at the requested positions are {} / {}", gt.len(), gu.len(), want_t.len(), want_u.len()),
                                wit,
                            );
                        }
                    }
                }
            }
        }
        vnode::node::set_time(ChainParams::default().genesis_timestamp + 3_000_000_000);
    }

    /// Message-level episode with two peers: peer A announces the next block honestly (the node
    /// lacks its transactions and asks A for them); peer B announces the SAME header with a
    /// different body (extra short ids and/or extra uncle hashes), is asked for B's missing
    /// indexes, and answers with a BlockTransactions message. The node keeps only the first
    /// compact block per hash, so B's indexes do not fit it. Whatever the node makes of it, the
    /// handler must not panic, no unannounced block may become the tip, and the honest answer of
    /// peer A must still get the block accepted.
    fn two_peer_episode(&mut self, r: &mut Report, uncles_variant: bool) {
        let mut found: Option<BlockView> = None;
        for _ in 0..12 {
            if self.dead {
                return;
            }
            let p = self.tg.tip();
            let x = self.tg.extend(&p);
            let xb = (*self.tg.rc.get(&x).block).clone();
            if xb.transactions().len() >= 2 {
                found = Some(xb);
                break;
            }
            if !self.deliver(&x, r, true) {
                return;
            }
        }
        let Some(xb) = found else {
            r.count("msg2.no_block_with_transactions");
            return;
        };
        r.count("msg2.episodes");
        vnode::node::set_time(xb.timestamp() + 1_000);
        let reset_time = || vnode::node::set_time(ChainParams::default().genesis_timestamp + 3_000_000_000);
        self.dead = true;
        let honest = packed::CompactBlock::build_from_block(&xb, &HashSet::new());
        // peer B's body: same header, 10 more short ids and (variant) 5 more uncle hashes
        let mut ids: Vec<packed::ProposalShortId> = honest.short_ids().into_iter().collect();
        for i in 0..10u8 {
            let mut b = [0xEEu8; 10];
            b[0] = i;
            ids.push(packed::ProposalShortId::new(b));
        }
        let mut uncle_hashes: Vec<packed::Byte32> = honest.uncles().into_iter().collect();
        if uncles_variant {
            // as many unknown uncles as the consensus limit leaves room for
            let room = self.n.shared.consensus().max_uncles_num().saturating_sub(uncle_hashes.len());
            for i in 0..room as u8 {
                uncle_hashes.push(packed::Byte32::new([0xD0 + i; 32]));
            }
        }
        let other = honest.clone().as_builder().short_ids(ids).uncles(uncle_hashes).build();
        let nc = Arc::new(netctx::RecordingContext::new(SupportProtocols::RelayV3));
        let (pa, pb): (PeerIndex, PeerIndex) = (7usize.into(), 8usize.into());
        let send = |this: &mut Self, peer: PeerIndex, m: ckb_types::bytes::Bytes| {
            let nc1: Arc<dyn ckb_network::CKBProtocolContext + Sync> = nc.clone();
            let rt = &this.rt;
            let relayer = &mut this.n.relayer;
            catch_unwind(AssertUnwindSafe(|| rt.block_on(relayer.received(nc1, peer, m))))
        };
        let wit = |this: &Self, extra: serde_json::Value| this.witness(json!({"block": vbase::hex(xb.hash().as_slice()), "transactions": xb.transactions().len(), "uncles": xb.uncles().hashes().len(), "variant": if uncles_variant { "extra short ids and extra uncle hashes" } else { "extra short ids" }, "detail": extra}));
        let steps: Vec<(&str, PeerIndex, ckb_types::bytes::Bytes)> = vec![
            ("compact_block_from_first_peer", pa, packed::RelayMessage::new_builder().set(honest.clone()).build().as_bytes()),
            ("compact_block_same_header_other_body_from_second_peer", pb, packed::RelayMessage::new_builder().set(other).build().as_bytes()),
        ];
        for (name, peer, m) in steps {
            if let Err(pn) = send(self, peer, m) {
                let _ = hooks::take_panics();
                let msg = panic_msg(&pn);
                r.violation(&format!("relay.received_panicked@{name}"), format!("Relayer::received panicked: {msg}"), wit(self, json!({"panic": msg})));
                reset_time();
                return;
            }
        }
        let asked = {
            let t0 = Instant::now();
            loop {
                let a = nc.get_block_transactions_requests();
                if a.len() >= 2 || t0.elapsed() > Duration::from_secs(5) {
                    break a;
                }
                std::thread::sleep(Duration::from_millis(1));
            }
        };
        r.eval();
        if asked.len() < 2 {
            // the second announcement was refused outright: nothing further to ask of the node
            r.count("msg2.second_announcement_not_pending");
        } else {
            r.count("msg2.second_peer_pending");
            // peer B answers its request: the block's real transactions (and uncles)
            let (ask_txs, ask_uncles) = asked[1].clone();
            let txs: Vec<packed::Transaction> = xb.transactions().iter().skip(1).map(|t| t.data()).collect();
            let n_unc = if uncles_variant { ask_uncles.len().min(xb.uncles().hashes().len().max(1)) } else { 0 };
            let uncles: Vec<packed::UncleBlock> = xb.uncles().data().into_iter().take(n_unc).collect();
            let bt = packed::BlockTransactions::new_builder().block_hash(xb.hash()).transactions(txs).uncles(uncles).build();
            r.distinct_str(&format!("msg2|{uncles_variant}|{}|{}", ask_txs.len(), ask_uncles.len()));
            if let Err(pn) = send(self, pb, packed::RelayMessage::new_builder().set(bt).build().as_bytes()) {
                let _ = hooks::take_panics();
                let msg = panic_msg(&pn);
                r.count("msg2.outcome.panic");
                r.violation(
                    "relay.received_panicked@block_transactions_from_second_peer_with_other_body",
                    format!("Relayer::received panicked on the BlockTransactions answer of a second peer that had announced the same header with a different body (asked for transactions {ask_txs:?}, uncles {ask_uncles:?}): {msg}"),
                    wit(self, json!({"asked_of_second_peer": {"transactions": ask_txs, "uncles": ask_uncles}, "panic": msg})),
                );
                reset_time();
                return;
            }
            r.count("msg2.outcome.second_peer_answer_handled");
        }
        // no unannounced block may have become the tip
        std::thread::sleep(Duration::from_millis(50));
        let tip = self.n_tip();
        if tip != h(&xb.parent_hash()) && tip != h(&xb.hash()) {
            r.violation("relay.unannounced_block_became_tip@two_peers", format!("tip is {} after the two-peer episode", hx(&tip)), wit(self, json!({})));
            reset_time();
            return;
        }
        // control: the first peer's honest answer (all transactions) completes the block
        if tip != h(&xb.hash()) {
            let first = asked.first().cloned().unwrap_or_default();
            let txs: Vec<packed::Transaction> = first.0.iter().filter_map(|i| xb.transactions().get(*i as usize).map(|t| t.data())).collect();
            let uncles: Vec<packed::UncleBlock> = first.1.iter().filter_map(|i| xb.uncles().get(*i as usize).map(|u| u.data())).collect();
            let bt = packed::BlockTransactions::new_builder().block_hash(xb.hash()).transactions(txs).uncles(uncles).build();
            if let Err(pn) = send(self, pa, packed::RelayMessage::new_builder().set(bt).build().as_bytes()) {
                let _ = hooks::take_panics();
                let msg = panic_msg(&pn);
                r.violation("relay.received_panicked@block_transactions_from_first_peer_after_second_peer", format!("Relayer::received panicked: {msg}"), wit(self, json!({"panic": msg})));
                reset_time();
                return;
            }
            let t0 = Instant::now();
            while self.n_tip() != h(&xb.hash()) && t0.elapsed() < Duration::from_secs(10) {
                std::thread::sleep(Duration::from_millis(1));
            }
        }
        if self.n_tip() == h(&xb.hash()) {
            r.count("msg2.outcome.honest_block_accepted");
        } else {
            r.count("msg2.outcome.honest_block_not_accepted_in_10s");
        }
        reset_time();
    }

    /// Message-level episode through `Relayer::received` with a recording protocol context:
    /// CompactBlock with an uncle N does not know (all transactions prefilled) -> the node asks
    /// for the uncle -> BlockTransactions answering with the uncle (control) or with FEWER
    /// uncles than requested.
    fn message_episode(&mut self, r: &mut Report, fewer: bool) {
        // find a next block with an uncle unknown to N
        let mut found: Option<(BlockView, Vec<u32>)> = None;
        for _ in 0..10 {
            if self.dead {
                return;
            }
            let p = self.tg.tip();
            let _w = self.tg.extend(&p); // withheld sibling: a future uncle N never sees
            let x1 = self.tg.extend(&p);
            if !self.deliver(&x1, r, true) {
                return;
            }
            let x = self.tg.extend(&x1);
            let xb = (*self.tg.rc.get(&x).block).clone();
            let unknown: Vec<u32> = xb
                .uncles()
                .hashes()
                .into_iter()
                .enumerate()
                .filter(|(_, u)| !self.delivered.contains_key(&h(u)))
                .map(|(i, _)| i as u32)
                .collect();
            if !unknown.is_empty() {
                found = Some((xb, unknown));
                break;
            }
            if !self.deliver(&x, r, true) {
                return;
            }
        }
        let Some((xb, unknown)) = found else {
            r.count("msg.no_block_with_unknown_uncle");
            return;
        };
        r.count("msg.episodes");
        // the relay protocol is inert during initial block download: bring the clock to the tip
        vnode::node::set_time(xb.timestamp() + 1_000);
        let all: HashSet<usize> = (1..xb.transactions().len()).collect();
        let cb = packed::CompactBlock::build_from_block(&xb, &all);
        let nc = Arc::new(netctx::RecordingContext::new(SupportProtocols::RelayV3));
        let peer: PeerIndex = 7usize.into();
        let msg1 = packed::RelayMessage::new_builder().set(cb).build().as_bytes();
        let rt = &self.rt;
        let relayer = &mut self.n.relayer;
        let nc1: Arc<dyn ckb_network::CKBProtocolContext + Sync> = nc.clone();
        let r1 = catch_unwind(AssertUnwindSafe(|| rt.block_on(relayer.received(nc1, peer, msg1))));
        if let Err(p) = r1 {
            let _ = hooks::take_panics();
            let msg = panic_msg(&p);
            r.violation(
                &format!("relay.received_panicked@compact_block:{}", msg.chars().take(50).collect::<String>()),
                format!("Relayer::received panicked on a well-formed CompactBlock message: {msg}"),
                self.witness(json!({"block": vbase::hex(xb.hash().as_slice())})),
            );
            vnode::node::set_time(ChainParams::default().genesis_timestamp + 3_000_000_000);
            return;
        }
        // the node must now be asking for exactly the unknown uncles
        let asked = {
            let t0 = Instant::now();
            loop {
                let a = nc.get_block_transactions_requests();
                if !a.is_empty() || t0.elapsed() > Duration::from_secs(5) {
                    break a;
                }
                std::thread::sleep(Duration::from_millis(1));
            }
        };
        if asked.is_empty() {
            r.count("msg.no_request_observed");
            vnode::node::set_time(ChainParams::default().genesis_timestamp + 3_000_000_000);
            return;
        }
        r.eval();
        let (ask_txs, ask_uncles) = asked[0].clone();
        if !ask_txs.is_empty() || ask_uncles != unknown {
            r.violation(
                "relay.get_block_transactions_differs_from_model",
                format!("node asked for transactions {ask_txs:?} and uncles {ask_uncles:?}; model: no transactions, uncles {unknown:?}"),
                self.witness(json!({"block": vbase::hex(xb.hash().as_slice())})),
            );
        }
        let uncles: Vec<packed::UncleBlock> = if fewer {
            ask_uncles.iter().take(ask_uncles.len() - 1).map(|i| xb.uncles().get(*i as usize).unwrap().data()).collect()
        } else {
            ask_uncles.iter().map(|i| xb.uncles().get(*i as usize).unwrap().data()).collect()
        };
        let bt = packed::BlockTransactions::new_builder()
            .block_hash(xb.hash())
            .uncles(uncles)
            .build();
        let msg2 = packed::RelayMessage::new_builder().set(bt).build().as_bytes();
        let nc2: Arc<dyn ckb_network::CKBProtocolContext + Sync> = nc.clone();
        let relayer = &mut self.n.relayer;
        let r2 = catch_unwind(AssertUnwindSafe(|| rt.block_on(relayer.received(nc2, peer, msg2))));
        r.eval();
        r.distinct_str(&format!("msg|{fewer}|{}|{}", xb.uncles().hashes().len(), unknown.len()));
        match r2 {
            Err(p) => {
                let _ = hooks::take_panics();
                let msg = panic_msg(&p);
                r.count("msg.outcome.panic");
                r.violation(
                    if fewer {
                        "relay.received_panicked@block_transactions_with_fewer_uncles_than_requested"
                    } else {
                        "relay.received_panicked@block_transactions"
                    },
                    format!(
                        "Relayer::received panicked on a BlockTransactions message answering GetBlockTransactions(uncle_indexes={ask_uncles:?}) with {} uncle(s): {msg}",
                        if fewer { ask_uncles.len() - 1 } else { ask_uncles.len() }
                    ),
                    self.witness(json!({
                        "block": vbase::hex(xb.hash().as_slice()), "requested_uncle_indexes": ask_uncles,
                        "uncles_sent": if fewer { ask_uncles.len() - 1 } else { ask_uncles.len() }, "panic": msg,
                    })),
                );
            }
            Ok(()) => {
                if fewer {
                    r.count("msg.outcome.fewer_uncles_handled");
                    if self.n_tip() == h(&xb.hash()) {
                        r.violation(
                            "relay.block_accepted_without_requested_uncles",
                            "block became the tip although the peer did not supply the requested uncles".into(),
                            self.witness(json!({"block": vbase::hex(xb.hash().as_slice())})),
                        );
                    }
                } else {
                    // control: the complete answer must lead to the block being accepted
                    let t0 = Instant::now();
                    while self.n_tip() != h(&xb.hash()) && t0.elapsed() < Duration::from_secs(20) {
                        std::thread::sleep(Duration::from_millis(1));
                    }
                    if self.n_tip() == h(&xb.hash()) {
                        r.count("msg.outcome.block_accepted_through_messages");
                        self.delivered.insert(h(&xb.hash()), Known::Stored);
                    } else {
                        r.count("msg.outcome.block_not_accepted_in_20s");
                    }
                }
            }
        }
        vnode::node::set_time(ChainParams::default().genesis_timestamp + 3_000_000_000);
        // the builder's and the node's tips may differ now; the session ends here
        self.dead = true;
    }
}

fn run_session(si: u64, rng: &mut Rng, r: &mut Report, deadline: Instant, rounds: u64, variants: usize) {
    let mut params = ChainParams::default();
    match si % 3 {
        0 => params.window = (2, 10),
        1 => params.window = (1, 3),
        _ => params.window = (2, 4),
    }
    // long epochs: uncles must be of the block's epoch
    params.epoch = EpochMode::Permanent { genesis_len: 400, epoch_len: 400 };
    // every fourth session runs with real proof of work (Eaglesong, difficulty 64) so that the
    // message-level episodes can tell whether an accepted block carries a valid seal
    if si % 4 == 3 {
        params.eaglesong = true;
        params.compact_target = Some(0x2004_0000);
    }
    params.max_uncles_num = Some(2 + (si % 3) as usize);
    params.issued_cells = 40;
    let gi = consensus::build(&params);
    let tcfg = TreeCfg {
        n_blocks: 0,
        invalid: 0,
        fork_pm: 0,
        max_new_txs: 4,
        chain_pm: 400,
        conflict_pm: 80,
        uncle_pm: 850,
        junk_proposals: 2,
        ts_step_max: 9_000,
        ..Default::default()
    };
    let tg = TreeGen::new(&gi, tcfg, rng.next_u64());
    let n = boot(&gi);
    let rt = tokio::runtime::Builder::new_current_thread().enable_all().build().unwrap();
    let genesis = tg.rc.genesis;
    let mut s = Sess {
        si,
        tg,
        n,
        rng: rng.fork(5),
        rt,
        delivered: HashMap::from([(genesis, Known::Stored)]),
        extra_blocks: HashMap::new(),
        committed: HashMap::new(),
        ever_submitted: HashSet::new(),
        orphans: vec![],
        invalids: vec![],
        ops: vec![],
        params_desc: format!("window={:?} max_uncles={:?} eaglesong={}", params.window, params.max_uncles_num, params.eaglesong),
        dead: false,
    };
    r.count("sessions");
    // warm-up so that proposal windows are filled and uncle candidates exist
    for _ in 0..4 {
        if s.dead {
            return;
        }
        s.round(r, 0);
    }
    for _ in 0..rounds {
        if s.dead || Instant::now() > deadline {
            break;
        }
        s.round(r, variants);
    }
    s.serve_episode(r);
    if !s.dead {
        match si % 5 {
            0 => s.message_episode(r, true),
            1 => s.message_episode(r, false),
            2 => s.two_peer_episode(r, false),
            3 => s.two_peer_episode(r, true),
            _ => s.forge_episode(r),
        }
    }
    for (k, v) in s.tg.stats.iter() {
        r.count_n(&format!("treegen.{k}"), *v);
    }
}

fn main() {
    let args = Args::parse();
    let _ = vnode::node::scratch_dir();
    vnode::node::set_time(ChainParams::default().genesis_timestamp + 3_000_000_000);
    hooks::install_panic_monitor();
    let mut r = Report::new(
        "C16",
        "exploration",
        &args,
        "block reconstruction: for valid blocks (committed txs, uncles, proposals, extension) built on a real node's tip, compact blocks with arbitrary prefilled index sets and tampered short-id lists (simulated collisions) / uncle lists / proposals / extension pass the node's CompactBlockVerifier and Relayer::reconstruct_block with random splits of the transactions over pool / peer-supplied / missing and of the uncles over stored / orphan / invalid / unknown / supplied; Block(b) must be exactly the block the header commits to (independent recomputation of all three commitments, byte identity when untampered), Missing must equal the model's index sets; distinct = (tamper kind, availability pattern, uncle pattern, outcome)",
    );
    let mut rng = Rng::new(args.seed ^ 0x2E1A7);
    let budget = args.get_u64("budget_s", args.tier.pick(40, 480));
    // A node with a tx-pool service cannot be shut down inside a process (the stop handler is a
    // process-global one-shot), so every session leaves its RocksDB open (~75 MB of preallocated
    // WAL in the RAM scratch dir) until exit: few long sessions instead of many short ones.
    let sessions = args.get_u64("sessions", args.tier.pick(12, 400));
    let rounds = args.get_u64("rounds", args.tier.pick(28, 200));
    let variants = args.get_u64("variants", args.tier.pick(10, 24)) as usize;
    let deadline = Instant::now() + Duration::from_secs(budget);
    for si in 0..sessions {
        if Instant::now() > deadline {
            r.note("stopped_by_budget_after_sessions", json!(si));
            break;
        }
        let mut srng = rng.fork(si);
        let t0 = Instant::now();
        run_session(si, &mut srng, &mut r, deadline, rounds, variants);
        if std::env::var("VERIF_DEBUG").is_ok() {
            eprintln!("session {si} took {:.2}s", t0.elapsed().as_secs_f64());
        }
        for p in hooks::take_panics() {
            let file = p.location.rsplit('/').next().unwrap_or("").split(':').next().unwrap_or("").to_string();
            r.violation(
                &format!("node_thread_panicked@{}:{}:{}", p.thread, file, p.message.chars().take(60).collect::<String>()),
                format!("thread '{}' panicked at {}: {}", p.thread, p.location, p.message),
                json!({"session": si}),
            );
        }
    }
    let q = args.tier == vbase::Tier::Quick;
    r.require("serve.replies_checked", if q { 20 } else { 100 });
    r.require("msg2.episodes", 1);
    r.require("outcome.block", if q { 200 } else { 2000 });
    r.require("block.byte_identical", if q { 100 } else { 1000 });
    r.require("outcome.missing", if q { 100 } else { 1000 });
    r.require("missing.exact", if q { 100 } else { 1000 });
    r.require("outcome.collided", if q { 5 } else { 50 });
    let errors: u64 = r.counters.iter().filter(|(k, _)| k.starts_with("outcome.error.")).map(|(_, v)| *v).sum();
    r.count_n("outcome.error", errors);
    r.require("outcome.error", if q { 5 } else { 50 });
    r.require("verifier.rejected", if q { 20 } else { 200 });
    r.require("split.pool", if q { 100 } else { 1000 });
    r.require("split.received", if q { 100 } else { 1000 });
    r.require("split.missing", if q { 100 } else { 1000 });
    r.require("split.prefilled", if q { 100 } else { 1000 });
    r.require("uncles.stored", if q { 20 } else { 200 });
    r.require("uncles.unknown", if q { 20 } else { 200 });
    r.require("uncles.supplied", if q { 20 } else { 200 });
    r.require("uncles.orphan", if q { 1 } else { 10 });
    r.require("blocks_with_uncles", if q { 10 } else { 100 });
    r.require("blocks_with_txs", if q { 10 } else { 100 });
    r.assume("real short-id collisions cannot be mined; they are simulated by replacing listed ids with ids of other pooled / committed transactions");
    r.assume("uncles_index / received_uncles passed to reconstruct_block satisfy the precondition BlockUnclesVerifier is meant to establish (same length, hashes match the listed ones); the message-level episode exercises the real verifiers");
    r.assume("what the node knows (pool contents via hook H5 dump, stored / orphan / invalid blocks via the harness's delivery log) is the model's availability; ckb-types is used to read fields");
    let dir = std::env::var("VERIF_OUT_DIR")
        .map(std::path::PathBuf::from)
        .unwrap_or_else(|_| vbase::verif_root().join("evidence"));
    let path = args
        .get_str("out")
        .map(std::path::PathBuf::from)
        .unwrap_or_else(|| dir.join("C16.part-relay.json"));
    let code = r.finish(Some(&path));
    let known = vbase::KnownFindings::load();
    for v in &r.violations {
        let tag = if known.is_known("C16", &v.signature) { "KNOWN-FINDING(shard):" } else { "VIOLATION(shard)" };
        println!("{tag} property=C16 signature={} occurrences={}\n  detail: {}", v.signature, r.counter(&format!("violation::{}", v.signature)), v.detail.chars().take(500).collect::<String>());
    }
    for i in &r.inconclusive {
        println!("INCONCLUSIVE(shard) property=C16 reason={i}");
    }
    println!(
        "[C16/relay] {} seed={} evaluations={} distinct={} block={} missing={} collided={} error={} rejected_by_verifier={} exit={} shard={}",
        args.tier.as_str(), args.seed, r.evaluations, r.distinct_count(), r.counter("outcome.block"), r.counter("outcome.missing"),
        r.counter("outcome.collided"), r.counter("outcome.error"), r.counter("verifier.rejected"), code, path.display()
    );
    vnode::node::exit(code)
}
