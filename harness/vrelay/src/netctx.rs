//! A recording `CKBProtocolContext`: nothing is sent anywhere; outgoing messages, bans and
//! disconnects are kept for inspection.

use ckb_network::{
    Behaviour, CKBProtocolContext, Error, Peer, PeerIndex, ProtocolId, SupportProtocols, TargetSession,
    async_trait, bytes::Bytes,
};
use ckb_types::packed;
use ckb_types::prelude::*;
use std::future::Future;
use std::pin::Pin;
use std::sync::Mutex;
use std::time::Duration;

type Task = Pin<Box<dyn Future<Output = ()> + 'static + Send>>;

pub struct RecordingContext {
    protocol: SupportProtocols,
    pub sent: Mutex<Vec<(PeerIndex, Bytes)>>,
    pub bans: Mutex<Vec<(PeerIndex, String)>>,
}

impl RecordingContext {
    pub fn new(protocol: SupportProtocols) -> Self {
        RecordingContext { protocol, sent: Mutex::new(vec![]), bans: Mutex::new(vec![]) }
    }

    fn record(&self, peer: PeerIndex, data: Bytes) {
        self.sent.lock().unwrap().push((peer, data));
    }

    /// (transaction hashes, uncle hashes) of every BlockTransactions message sent so far.
    pub fn block_transactions_replies(&self) -> Vec<(Vec<packed::Byte32>, Vec<packed::Byte32>)> {
        let mut out = vec![];
        for (_, data) in self.sent.lock().unwrap().iter() {
            if let Ok(msg) = packed::RelayMessageReader::from_compatible_slice(data) {
                if let packed::RelayMessageUnionReader::BlockTransactions(b) = msg.to_enum() {
                    let b = b.to_entity();
                    out.push((
                        b.transactions().into_iter().map(|t| t.calc_tx_hash()).collect(),
                        b.uncles().into_iter().map(|u| u.header().calc_header_hash()).collect(),
                    ));
                }
            }
        }
        out
    }

    /// (transaction indexes, uncle indexes) of every GetBlockTransactions sent so far.
    pub fn get_block_transactions_requests(&self) -> Vec<(Vec<u32>, Vec<u32>)> {
        let mut out = vec![];
        for (_, data) in self.sent.lock().unwrap().iter() {
            if let Ok(msg) = packed::RelayMessageReader::from_compatible_slice(data) {
                if let packed::RelayMessageUnionReader::GetBlockTransactions(g) = msg.to_enum() {
                    let txs: Vec<u32> = g.indexes().iter().map(|i| i.into()).collect();
                    let uncles: Vec<u32> = g.uncle_indexes().iter().map(|i| i.into()).collect();
                    out.push((txs, uncles));
                }
            }
        }
        out
    }
}

#[async_trait]
impl CKBProtocolContext for RecordingContext {
    async fn set_notify(&self, _interval: Duration, _token: u64) -> Result<(), Error> {
        Ok(())
    }
    async fn remove_notify(&self, _token: u64) -> Result<(), Error> {
        Ok(())
    }
    async fn async_quick_send_message(&self, _proto_id: ProtocolId, peer_index: PeerIndex, data: Bytes) -> Result<(), Error> {
        self.record(peer_index, data);
        Ok(())
    }
    async fn async_quick_send_message_to(&self, peer_index: PeerIndex, data: Bytes) -> Result<(), Error> {
        self.record(peer_index, data);
        Ok(())
    }
    async fn async_quick_filter_broadcast(&self, _target: TargetSession, _data: Bytes) -> Result<(), Error> {
        Ok(())
    }
    async fn async_future_task(&self, _task: Task, _blocking: bool) -> Result<(), Error> {
        Ok(())
    }
    async fn async_send_message(&self, _proto_id: ProtocolId, peer_index: PeerIndex, data: Bytes) -> Result<(), Error> {
        self.record(peer_index, data);
        Ok(())
    }
    async fn async_send_message_to(&self, peer_index: PeerIndex, data: Bytes) -> Result<(), Error> {
        self.record(peer_index, data);
        Ok(())
    }
    async fn async_filter_broadcast(&self, _target: TargetSession, _data: Bytes) -> Result<(), Error> {
        Ok(())
    }
    async fn async_filter_broadcast_with_proto(&self, _proto_id: ProtocolId, _target: TargetSession, _data: Bytes) -> Result<(), Error> {
        Ok(())
    }
    async fn async_quick_filter_broadcast_with_proto(&self, _proto_id: ProtocolId, _target: TargetSession, _data: Bytes) -> Result<(), Error> {
        Ok(())
    }
    async fn async_disconnect(&self, _peer_index: PeerIndex, _message: &str) -> Result<(), Error> {
        Ok(())
    }
    fn quick_send_message(&self, _proto_id: ProtocolId, peer_index: PeerIndex, data: Bytes) -> Result<(), Error> {
        self.record(peer_index, data);
        Ok(())
    }
    fn quick_send_message_to(&self, peer_index: PeerIndex, data: Bytes) -> Result<(), Error> {
        self.record(peer_index, data);
        Ok(())
    }
    fn quick_filter_broadcast(&self, _target: TargetSession, _data: Bytes) -> Result<(), Error> {
        Ok(())
    }
    fn quick_filter_broadcast_with_proto(&self, _proto_id: ProtocolId, _target: TargetSession, _data: Bytes) -> Result<(), Error> {
        Ok(())
    }
    fn future_task(&self, _task: Task, _blocking: bool) -> Result<(), Error> {
        Ok(())
    }
    fn send_message(&self, _proto_id: ProtocolId, peer_index: PeerIndex, data: Bytes) -> Result<(), Error> {
        self.record(peer_index, data);
        Ok(())
    }
    fn send_message_to(&self, peer_index: PeerIndex, data: Bytes) -> Result<(), Error> {
        self.record(peer_index, data);
        Ok(())
    }
    fn filter_broadcast(&self, _target: TargetSession, _data: Bytes) -> Result<(), Error> {
        Ok(())
    }
    fn disconnect(&self, _peer_index: PeerIndex, _message: &str) -> Result<(), Error> {
        Ok(())
    }
    fn get_peer(&self, _peer_index: PeerIndex) -> Option<Peer> {
        None
    }
    fn with_peer_mut(&self, _peer_index: PeerIndex, _f: Box<dyn FnOnce(&mut Peer)>) {}
    fn connected_peers(&self) -> Vec<PeerIndex> {
        vec![]
    }
    fn full_relay_connected_peers(&self) -> Vec<PeerIndex> {
        vec![]
    }
    fn report_peer(&self, _peer_index: PeerIndex, _behaviour: Behaviour) {}
    fn ban_peer(&self, peer_index: PeerIndex, _duration: Duration, reason: String) {
        self.bans.lock().unwrap().push((peer_index, reason));
    }
    fn protocol_id(&self) -> ProtocolId {
        self.protocol.protocol_id()
    }
}
