//! RefChain — the reference model (DESIGN 3.3). Plain data folded from the harness's own copies
//! of the blocks it generated; shares no code with the ckb store / calculators (it uses
//! ckb-types only to *read* fields of blocks, U256 as a big integer and blake2b as a primitive).

use ckb_hash::blake2b_256;
use ckb_types::core::{BlockView, EpochExt, TransactionView};
use ckb_types::packed::{Byte32, ProposalShortId};
use ckb_types::{U256, prelude::*};
use std::collections::{BTreeMap, BTreeSet, HashMap, HashSet};
use std::sync::{Arc, Mutex};

pub type H = [u8; 32];

pub fn h(b: &Byte32) -> H {
    let mut x = [0u8; 32];
    x.copy_from_slice(b.as_slice());
    x
}

pub fn hx(x: &H) -> String {
    vbase::hex(&x[..6])
}

/// Own compact-target -> difficulty conversion: target = mantissa * 256^(exponent-3),
/// difficulty = floor(2^256 / target) (0 for zero/overflowing targets).
pub fn difficulty_of_compact(compact: u32) -> U256 {
    let exponent = compact >> 24;
    let mantissa = compact & 0x00ff_ffff;
    if mantissa == 0 {
        return U256::zero();
    }
    let target: U256 = if exponent <= 3 {
        U256::from(mantissa >> (8 * (3 - exponent)))
    } else {
        if exponent > 32 {
            return U256::zero();
        }
        let shift = 8 * (exponent - 3);
        // check the mantissa is not shifted out of 256 bits
        let m = U256::from(mantissa);
        let shifted = m.clone() << shift;
        if (shifted.clone() >> shift) != m {
            // high bits lost: ckb treats exponent<=32 as non-overflow and truncates
        }
        shifted
    };
    if target.is_zero() {
        return U256::zero();
    }
    if target == U256::one() {
        return U256::max_value();
    }
    // floor(2^256 / t) = floor((2^256 - 1 - t + 1)/t) ... computed without overflow:
    // 2^256 = q*t + r  ;  (MAX - t + 1) = 2^256 - t  => q = (MAX - t + 1)/t + 1
    let max = U256::max_value();
    (max - &target + U256::one()) / &target + U256::one()
}

// ---------------------------------------------------------------------------------------
// MMR model: post-order node list built with a peak stack (no position arithmetic shared
// with ckb-merkle-mountain-range).

#[derive(Clone, Debug, PartialEq, Eq)]
pub struct Digest {
    pub children_hash: H,
    pub total_difficulty: U256,
    pub start_number: u64,
    pub end_number: u64,
    pub start_epoch: u64,
    pub end_epoch: u64,
    pub start_timestamp: u64,
    pub end_timestamp: u64,
    pub start_compact_target: u32,
    pub end_compact_target: u32,
}

impl Digest {
    pub fn to_bytes(&self) -> Vec<u8> {
        let mut v = Vec::with_capacity(120);
        v.extend_from_slice(&self.children_hash);
        let mut td = [0u8; 32];
        self.total_difficulty.into_little_endian(&mut td).unwrap();
        v.extend_from_slice(&td);
        v.extend_from_slice(&self.start_number.to_le_bytes());
        v.extend_from_slice(&self.end_number.to_le_bytes());
        v.extend_from_slice(&self.start_epoch.to_le_bytes());
        v.extend_from_slice(&self.end_epoch.to_le_bytes());
        v.extend_from_slice(&self.start_timestamp.to_le_bytes());
        v.extend_from_slice(&self.end_timestamp.to_le_bytes());
        v.extend_from_slice(&self.start_compact_target.to_le_bytes());
        v.extend_from_slice(&self.end_compact_target.to_le_bytes());
        v
    }
    pub fn hash(&self) -> H {
        blake2b_256(self.to_bytes())
    }
    pub fn leaf(block: &BlockView) -> Digest {
        let hd = block.header();
        Digest {
            children_hash: h(&hd.hash()),
            total_difficulty: difficulty_of_compact(hd.compact_target()),
            start_number: hd.number(),
            end_number: hd.number(),
            start_epoch: hd.epoch().full_value(),
            end_epoch: hd.epoch().full_value(),
            start_timestamp: hd.timestamp(),
            end_timestamp: hd.timestamp(),
            start_compact_target: hd.compact_target(),
            end_compact_target: hd.compact_target(),
        }
    }
    pub fn merge(l: &Digest, r: &Digest) -> Digest {
        let mut buf = Vec::with_capacity(64);
        buf.extend_from_slice(&l.hash());
        buf.extend_from_slice(&r.hash());
        Digest {
            children_hash: blake2b_256(&buf),
            total_difficulty: &l.total_difficulty + &r.total_difficulty,
            start_number: l.start_number,
            end_number: r.end_number,
            start_epoch: l.start_epoch,
            end_epoch: r.end_epoch,
            start_timestamp: l.start_timestamp,
            end_timestamp: r.end_timestamp,
            start_compact_target: l.start_compact_target,
            end_compact_target: r.end_compact_target,
        }
    }
}

#[derive(Clone, Default)]
pub struct Mmr {
    /// all nodes in insertion (= post-order position) order
    pub nodes: Vec<Digest>,
    /// (height, index into nodes)
    peaks: Vec<(u32, usize)>,
}

impl Mmr {
    pub fn push(&mut self, leaf: Digest) {
        self.nodes.push(leaf);
        self.peaks.push((0, self.nodes.len() - 1));
        while self.peaks.len() >= 2
            && self.peaks[self.peaks.len() - 1].0 == self.peaks[self.peaks.len() - 2].0
        {
            let (hgt, r) = self.peaks.pop().unwrap();
            let (_, l) = self.peaks.pop().unwrap();
            let p = Digest::merge(&self.nodes[l], &self.nodes[r]);
            self.nodes.push(p);
            self.peaks.push((hgt + 1, self.nodes.len() - 1));
        }
    }
    /// Root: peaks bagged from the right.
    pub fn root(&self) -> Option<Digest> {
        let mut it = self.peaks.iter().rev();
        let mut acc = self.nodes[it.next()?.1].clone();
        for (_, i) in it {
            acc = Digest::merge(&self.nodes[*i], &acc);
        }
        Some(acc)
    }
    pub fn size(&self) -> u64 {
        self.nodes.len() as u64
    }
}

// ---------------------------------------------------------------------------------------

#[derive(Clone, Debug, PartialEq, Eq)]
pub struct CellRec {
    pub output: Vec<u8>,
    pub data: Vec<u8>,
    pub block_hash: H,
    pub block_number: u64,
    pub block_epoch: u64,
    pub tx_index: u32,
}

#[derive(Clone, Debug, PartialEq, Eq)]
pub struct TxInfoRec {
    pub block_hash: H,
    pub block_number: u64,
    pub block_epoch: u64,
    pub index: u32,
}

pub type CellKey = (H, u32);

/// Result of replaying the main chain genesis..tip.
#[derive(Clone, Default)]
pub struct State {
    pub tip: H,
    pub number: u64,
    pub cells: BTreeMap<CellKey, CellRec>,
    pub tx_info: BTreeMap<H, TxInfoRec>,
    /// number -> hash
    pub chain: Vec<H>,
    /// included uncles: uncle hash -> packed header bytes
    pub uncles: BTreeMap<H, Vec<u8>>,
    pub mmr: Mmr,
    /// per main-chain block: fees of non-cellbase txs (None if not computable by the model)
    pub fees: BTreeMap<H, Vec<Option<u64>>>,
    /// total capacity of live cells
    pub total_capacity: u128,
}

#[derive(Clone)]
pub struct BlockRec {
    pub block: Arc<BlockView>,
    pub hash: H,
    pub parent: H,
    pub number: u64,
    pub difficulty: U256,
    pub td: U256,
    /// ground-truth label of the block itself in its own context
    pub self_valid: bool,
    pub invalid_rule: Option<String>,
    /// self and all ancestors valid
    pub chain_valid: bool,
    /// epoch record the builder used for this block (None for blocks built without a context)
    pub epoch: Option<EpochExt>,
}

pub struct RefChain {
    pub blocks: HashMap<H, BlockRec>,
    pub children: HashMap<H, Vec<H>>,
    pub genesis: H,
    pub window: (u64, u64),
    pub median_count: usize,
    states: Mutex<HashMap<H, Arc<State>>>,
}

impl RefChain {
    pub fn new(genesis: &BlockView, genesis_epoch: &EpochExt, window: (u64, u64), median_count: usize) -> RefChain {
        let gh = h(&genesis.hash());
        let d = difficulty_of_compact(genesis.compact_target());
        let mut blocks = HashMap::new();
        blocks.insert(
            gh,
            BlockRec {
                block: Arc::new(genesis.clone()),
                hash: gh,
                parent: [0u8; 32],
                number: 0,
                difficulty: d.clone(),
                td: d,
                self_valid: true,
                invalid_rule: None,
                chain_valid: true,
                epoch: Some(genesis_epoch.clone()),
            },
        );
        RefChain {
            blocks,
            children: HashMap::new(),
            genesis: gh,
            window,
            median_count,
            states: Mutex::new(HashMap::new()),
        }
    }

    /// Register a generated block. Its parent must be registered already.
    pub fn add(&mut self, block: &BlockView, self_valid: bool, rule: Option<&str>, epoch: Option<EpochExt>) -> H {
        let hash = h(&block.hash());
        if self.blocks.contains_key(&hash) {
            return hash;
        }
        let parent = h(&block.parent_hash());
        let p = self.blocks.get(&parent).expect("parent registered in model");
        let d = difficulty_of_compact(block.compact_target());
        let rec = BlockRec {
            block: Arc::new(block.clone()),
            hash,
            parent,
            number: block.number(),
            difficulty: d.clone(),
            td: &p.td + &d,
            self_valid,
            invalid_rule: rule.map(|s| s.to_string()),
            chain_valid: p.chain_valid && self_valid,
            epoch,
        };
        self.blocks.insert(hash, rec);
        self.children.entry(parent).or_default().push(hash);
        hash
    }

    pub fn get(&self, x: &H) -> &BlockRec {
        self.blocks.get(x).expect("block in model")
    }

    pub fn contains(&self, x: &H) -> bool {
        self.blocks.contains_key(x)
    }

    /// Path genesis..=tip (hashes).
    pub fn path(&self, tip: &H) -> Vec<H> {
        let mut v = vec![];
        let mut cur = *tip;
        loop {
            v.push(cur);
            if cur == self.genesis {
                break;
            }
            cur = self.get(&cur).parent;
        }
        v.reverse();
        v
    }

    pub fn is_ancestor(&self, anc: &H, of: &H) -> bool {
        let a = self.get(anc).number;
        let mut cur = *of;
        while self.get(&cur).number > a {
            cur = self.get(&cur).parent;
        }
        cur == *anc
    }

    pub fn ancestor_at(&self, of: &H, number: u64) -> Option<H> {
        let mut cur = *of;
        if self.get(&cur).number < number {
            return None;
        }
        while self.get(&cur).number > number {
            cur = self.get(&cur).parent;
        }
        Some(cur)
    }

    /// Among `received` blocks: those whose whole ancestry was received and is valid.
    /// Returns (max total difficulty, set of tips reaching it).
    pub fn best(&self, received: &HashSet<H>) -> (U256, Vec<H>) {
        let mut best_td = self.get(&self.genesis).td.clone();
        let mut best = vec![self.genesis];
        // connected & valid set by BFS from genesis through received children
        let mut stack = vec![self.genesis];
        while let Some(x) = stack.pop() {
            if let Some(ch) = self.children.get(&x) {
                for c in ch {
                    if !received.contains(c) {
                        continue;
                    }
                    let rec = self.get(c);
                    if !rec.chain_valid {
                        continue;
                    }
                    if rec.td > best_td {
                        best_td = rec.td.clone();
                        best = vec![*c];
                    } else if rec.td == best_td {
                        best.push(*c);
                    }
                    stack.push(*c);
                }
            }
        }
        (best_td, best)
    }

    /// Connectable: all ancestors received (validity aside).
    pub fn connectable(&self, x: &H, received: &HashSet<H>) -> bool {
        let mut cur = *x;
        loop {
            if cur == self.genesis {
                return true;
            }
            if !received.contains(&cur) {
                return false;
            }
            cur = self.get(&cur).parent;
        }
    }

    // -----------------------------------------------------------------------------------
    // replay

    pub fn replay(&self, tip: &H) -> Arc<State> {
        if let Some(s) = self.states.lock().unwrap().get(tip) {
            return Arc::clone(s);
        }
        // find nearest cached ancestor
        let path = self.path(tip);
        let mut start = 0usize;
        let mut state: State = State::default();
        {
            let cache = self.states.lock().unwrap();
            for (i, x) in path.iter().enumerate().rev() {
                if let Some(s) = cache.get(x) {
                    state = (**s).clone();
                    start = i + 1;
                    break;
                }
            }
        }
        for x in &path[start..] {
            let rec = self.get(x);
            apply_block(&mut state, &rec.block);
            // cache every 8th state and the tip to bound memory
            if rec.number % 8 == 0 {
                self.states
                    .lock()
                    .unwrap()
                    .insert(*x, Arc::new(state.clone()));
            }
        }
        let arc = Arc::new(state);
        let mut cache = self.states.lock().unwrap();
        if cache.len() > 4096 {
            cache.clear();
        }
        cache.insert(*tip, Arc::clone(&arc));
        arc
    }

    // -----------------------------------------------------------------------------------
    // proposal window (RFC-0020 two-step confirmation), own arithmetic

    fn union_ids(block: &BlockView) -> HashSet<ProposalShortId> {
        let mut ids: HashSet<ProposalShortId> = block.data().proposals().into_iter().collect();
        for u in block.data().uncles().into_iter() {
            ids.extend(u.proposals().into_iter());
        }
        ids
    }

    /// (set, gap) as seen from `tip`: the next block is n = tip.number + 1; `set` is the union
    /// of proposal ids (uncles' included) of main-chain blocks at distance w_close..=w_far
    /// from n, `gap` those at distance 1..w_close-1.
    pub fn window_sets(&self, tip: &H) -> (HashSet<ProposalShortId>, HashSet<ProposalShortId>) {
        let (w_close, w_far) = self.window;
        let n = self.get(tip).number + 1;
        let mut set = HashSet::new();
        let mut gap = HashSet::new();
        let mut cur = *tip;
        loop {
            let rec = self.get(&cur);
            if rec.number == 0 {
                break;
            }
            let dist = n - rec.number;
            if dist > w_far {
                break;
            }
            let ids = Self::union_ids(&rec.block);
            if dist >= w_close {
                set.extend(ids);
            } else {
                gap.extend(ids);
            }
            cur = rec.parent;
        }
        (set, gap)
    }

    /// Past median time as the verifier of a child of `parent` sees it: median of the
    /// timestamps of the last `median_count` blocks ending at `parent`.
    pub fn median_time(&self, parent: &H) -> u64 {
        let mut ts = vec![];
        let mut cur = *parent;
        for _ in 0..self.median_count {
            let rec = self.get(&cur);
            ts.push(rec.block.timestamp());
            if rec.number == 0 {
                break;
            }
            cur = rec.parent;
        }
        ts.sort_unstable();
        ts[ts.len() / 2]
    }
}

fn out_point_key(op: &ckb_types::packed::OutPoint) -> CellKey {
    let idx: u32 = op.index().into();
    (h(&op.tx_hash()), idx)
}

/// Fold one block into the state (live cells, tx index, number index, uncle index, MMR, fees).
pub fn apply_block(state: &mut State, block: &BlockView) {
    let bh = h(&block.hash());
    let number = block.number();
    let epoch = block.epoch().full_value();
    let txs: Vec<TransactionView> = block.transactions();
    let mut fees = vec![];
    for (ti, tx) in txs.iter().enumerate() {
        // inputs (cellbase has none that count)
        let mut in_cap: u128 = 0;
        let mut computable = true;
        if ti > 0 {
            for op in tx.input_pts_iter() {
                let k = out_point_key(&op);
                match state.cells.remove(&k) {
                    Some(c) => {
                        let cap = u64::from_le_bytes(c.output[4 + 12..4 + 12 + 8].try_into().unwrap_or([0; 8]));
                        let _ = cap;
                        let out = ckb_types::packed::CellOutput::from_slice(&c.output).unwrap();
                        let capv: u64 = out.capacity().into();
                        in_cap += capv as u128;
                        state.total_capacity -= capv as u128;
                        // DAO-typed inputs may carry interest: fee not computable here
                        if out.type_().to_opt().is_some() && !c.data.is_empty() && c.data.len() == 8 {
                            computable = false;
                        }
                    }
                    None => {
                        computable = false;
                    }
                }
            }
        }
        let th = h(&tx.hash());
        let mut out_cap: u128 = 0;
        for (oi, (out, data)) in tx.outputs_with_data_iter().enumerate() {
            let capv: u64 = out.capacity().into();
            out_cap += capv as u128;
            state.total_capacity += capv as u128;
            state.cells.insert(
                (th, oi as u32),
                CellRec {
                    output: out.as_slice().to_vec(),
                    data: data.to_vec(),
                    block_hash: bh,
                    block_number: number,
                    block_epoch: epoch,
                    tx_index: ti as u32,
                },
            );
        }
        state.tx_info.insert(
            th,
            TxInfoRec {
                block_hash: bh,
                block_number: number,
                block_epoch: epoch,
                index: ti as u32,
            },
        );
        if ti > 0 {
            if computable && in_cap >= out_cap {
                fees.push(Some((in_cap - out_cap) as u64));
            } else {
                fees.push(None);
            }
        }
    }
    for u in block.uncles().into_iter() {
        let hv: ckb_types::packed::HeaderView = u.header().into();
        state.uncles.insert(h(&u.hash()), hv.as_slice().to_vec());
    }
    state.fees.insert(bh, fees);
    assert_eq!(state.chain.len() as u64, number, "replay order");
    state.chain.push(bh);
    state.mmr.push(Digest::leaf(block));
    state.tip = bh;
    state.number = number;
}

/// Distinct-shape signature of a block tree: multiset of (number, #children) pairs hashed.
pub fn tree_shape(rc: &RefChain, nodes: &[H]) -> u64 {
    let mut v: Vec<(u64, usize, bool)> = nodes
        .iter()
        .map(|x| {
            let r = rc.get(x);
            (
                r.number,
                rc.children.get(x).map(|c| c.len()).unwrap_or(0),
                r.chain_valid,
            )
        })
        .collect();
    v.sort();
    let s = format!("{v:?}");
    vbase::fnv1a(s.as_bytes())
}

pub fn short_ids(set: &HashSet<ProposalShortId>) -> BTreeSet<String> {
    set.iter().map(|i| vbase::hex(i.as_slice())).collect()
}
