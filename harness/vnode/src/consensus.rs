//! Consensus construction for nodes under test (DESIGN 3.1): the bundled `specs/dev.toml`
//! chain spec plus always_success / always_failure system cells and harness-owned issued cells,
//! with the parameters that make rule boundaries reachable set small.

use ckb_chain_spec::consensus::{Consensus, ProposalWindow};
use ckb_chain_spec::{ChainSpec, IssuedCell, SystemCell};
use ckb_jsonrpc_types as json;
use ckb_pow::Pow;
use ckb_resource::Resource;
use ckb_types::core::{Capacity, EpochNumberWithFraction, ScriptHashType, TransactionView};
use ckb_types::packed::{self, CellDep, OutPoint, Script};
use ckb_types::{H256, bytes::Bytes, prelude::*};
use std::path::PathBuf;

pub const ALWAYS_SUCCESS_PATH: &str = "/repo/script/testdata/always_success";
pub const ALWAYS_FAILURE_PATH: &str = "/repo/script/testdata/always_failure";

/// Dev-chain private key (from resource/specs/dev.toml): owner of the 20_000_000_000 CKB cell.
pub const DEV_PRIVKEY_1: &str = "d00c06bfd800d27397002dca6fb0993d5ba6399b4238b2f29ee9deb97593d2bc";
pub const DEV_LOCK_ARG_1: &str = "c8328aabcd9b9e8e64fbc566c4385c3bdeb219d7";

#[derive(Clone, Debug)]
pub enum EpochMode {
    /// `permanent_difficulty_in_dummy`: every later epoch has `ceil(target/8)` blocks and the
    /// genesis difficulty. `genesis_len` blocks in epoch 0, `epoch_len` afterwards.
    Permanent { genesis_len: u64, epoch_len: u64 },
    /// Real difficulty adjustment: epoch 0 has `genesis_len` blocks, later epochs >= 300.
    Adjusting {
        genesis_len: u64,
        duration_target: u64,
    },
}

#[derive(Clone, Debug)]
pub struct ChainParams {
    pub epoch: EpochMode,
    pub window: (u64, u64),
    /// cellbase maturity (epoch number, index, length)
    pub maturity: (u64, u64, u64),
    pub max_block_bytes: Option<u64>,
    pub max_block_cycles: Option<u64>,
    pub max_block_proposals_limit: Option<u64>,
    pub max_uncles_num: Option<usize>,
    pub median_time_block_count: Option<usize>,
    pub eaglesong: bool,
    pub genesis_timestamp: u64,
    /// number of always_success-locked issued cells in genesis and their capacity (CKB)
    pub issued_cells: usize,
    pub issued_capacity_ckb: u64,
    pub halving_interval: Option<u64>,
    pub compact_target: Option<u32>,
    /// initial primary / secondary epoch reward in CKB (None: the spec's defaults); tiny values
    /// make the finalised reward too small to fund a cell, so cellbases must stay empty
    pub primary_epoch_reward_ckb: Option<u64>,
    pub secondary_epoch_reward_ckb: Option<u64>,
}

impl Default for ChainParams {
    fn default() -> Self {
        ChainParams {
            epoch: EpochMode::Permanent {
                genesis_len: 4,
                epoch_len: 4,
            },
            window: (2, 10),
            maturity: (0, 0, 1),
            max_block_bytes: None,
            max_block_cycles: None,
            max_block_proposals_limit: None,
            max_uncles_num: None,
            median_time_block_count: None,
            eaglesong: false,
            genesis_timestamp: 1_700_000_000_000,
            issued_cells: 24,
            issued_capacity_ckb: 100_000,
            halving_interval: None,
            compact_target: None,
            primary_epoch_reward_ckb: None,
            secondary_epoch_reward_ckb: None,
        }
    }
}

/// Everything a workload generator needs to know about the genesis of a chain.
#[derive(Clone)]
pub struct GenesisInfo {
    pub consensus: Consensus,
    pub always_success_script: Script,
    pub always_success_dep: CellDep,
    pub always_success_out_point: OutPoint,
    pub always_failure_script: Script,
    pub always_failure_dep: CellDep,
    pub dao_type_script: Script,
    pub dao_dep: CellDep,
    pub secp_dep_group: CellDep,
    pub secp_lock_dev1: Script,
    pub dev1_out_point: OutPoint,
    /// always_success-locked spendable cells created in genesis
    pub issued: Vec<(OutPoint, Capacity)>,
}

fn data_script(data: &[u8], hash_type: ScriptHashType, args: &[u8]) -> Script {
    Script::new_builder()
        .code_hash(packed::CellOutput::calc_data_hash(data))
        .hash_type(hash_type)
        .args(Bytes::from(args.to_vec()))
        .build()
}

pub fn build(p: &ChainParams) -> GenesisInfo {
    let mut spec = ChainSpec::load_from(&Resource::bundled("specs/dev.toml".to_string()))
        .expect("load bundled dev spec");
    let as_data = std::fs::read(ALWAYS_SUCCESS_PATH).expect("always_success binary");
    let af_data = std::fs::read(ALWAYS_FAILURE_PATH).expect("always_failure binary");
    spec.genesis.system_cells.push(SystemCell {
        file: Resource::file_system(PathBuf::from(ALWAYS_SUCCESS_PATH)),
        create_type_id: false,
        capacity: None,
    });
    spec.genesis.system_cells.push(SystemCell {
        file: Resource::file_system(PathBuf::from(ALWAYS_FAILURE_PATH)),
        create_type_id: false,
        capacity: None,
    });
    let always_success_script = data_script(&as_data, ScriptHashType::Data1, &[]);
    let always_failure_script = data_script(&af_data, ScriptHashType::Data1, &[]);
    let as_json: json::Script = always_success_script.clone().into();
    for i in 0..p.issued_cells {
        // distinct args so that cells are distinguishable by lock (indexer / filter workloads)
        let lock = json::Script {
            args: json::JsonBytes::from_vec(vec![(i % 4) as u8]),
            ..as_json.clone()
        };
        spec.genesis.issued_cells.push(IssuedCell {
            capacity: Capacity::bytes(p.issued_capacity_ckb as usize).unwrap(),
            data: None,
            type_: None,
            lock,
        });
    }
    spec.genesis.timestamp = p.genesis_timestamp;
    if let Some(ct) = p.compact_target {
        spec.genesis.compact_target = ct;
    }
    match &p.epoch {
        EpochMode::Permanent {
            genesis_len,
            epoch_len,
        } => {
            spec.params.genesis_epoch_length = Some(*genesis_len);
            spec.params.permanent_difficulty_in_dummy = Some(true);
            // next_epoch_length = ceil(target / MIN_BLOCK_INTERVAL(8))
            spec.params.epoch_duration_target = Some(epoch_len * 8);
        }
        EpochMode::Adjusting {
            genesis_len,
            duration_target,
        } => {
            spec.params.genesis_epoch_length = Some(*genesis_len);
            spec.params.permanent_difficulty_in_dummy = Some(false);
            spec.params.epoch_duration_target = Some(*duration_target);
        }
    }
    spec.params.max_block_bytes = p.max_block_bytes.or(spec.params.max_block_bytes);
    spec.params.max_block_cycles = p.max_block_cycles.or(spec.params.max_block_cycles);
    spec.params.max_block_proposals_limit = p
        .max_block_proposals_limit
        .or(spec.params.max_block_proposals_limit);
    spec.params.primary_epoch_reward_halving_interval = p
        .halving_interval
        .or(spec.params.primary_epoch_reward_halving_interval);
    if let Some(c) = p.primary_epoch_reward_ckb {
        spec.params.initial_primary_epoch_reward = Some(ckb_types::core::Capacity::bytes(c as usize).expect("capacity"));
    }
    if let Some(c) = p.secondary_epoch_reward_ckb {
        spec.params.secondary_epoch_reward = Some(ckb_types::core::Capacity::bytes(c as usize).expect("capacity"));
    }
    spec.params.cellbase_maturity = Some(
        EpochNumberWithFraction::new(p.maturity.0, p.maturity.1, p.maturity.2).full_value(),
    );
    if p.eaglesong {
        spec.pow = Pow::Eaglesong;
    }
    let mut consensus = spec.build_consensus().expect("build consensus");
    consensus.tx_proposal_window = ProposalWindow(p.window.0, p.window.1);
    if let Some(n) = p.max_uncles_num {
        consensus.max_uncles_num = n;
    }
    if let Some(n) = p.median_time_block_count {
        consensus.median_time_block_count = n;
    }

    // locate cells in genesis
    let genesis = consensus.genesis_block().clone();
    let tx0: TransactionView = genesis.transaction(0).unwrap();
    let tx1: TransactionView = genesis.transaction(1).unwrap();
    let find_data = |data: &[u8]| -> OutPoint {
        let want = packed::CellOutput::calc_data_hash(data);
        for (i, d) in tx0.outputs_data().into_iter().enumerate() {
            if !d.raw_data().is_empty() && packed::CellOutput::calc_data_hash(&d.raw_data()) == want
            {
                return OutPoint::new(tx0.hash(), i as u32);
            }
        }
        panic!("system cell not found in genesis")
    };
    let dep = |op: OutPoint| CellDep::new_builder().out_point(op).build();
    let always_success_out_point = find_data(&as_data);
    let always_failure_out_point = find_data(&af_data);
    let dao_out_point = OutPoint::new(tx0.hash(), 2);
    let dao_type_script = Script::new_builder()
        .code_hash(consensus.dao_type_hash())
        .hash_type(ScriptHashType::Type)
        .build();
    let secp_dep_group = CellDep::new_builder()
        .out_point(OutPoint::new(tx1.hash(), 0))
        .dep_type(ckb_types::core::DepType::DepGroup)
        .build();
    let secp_type_hash = consensus
        .secp256k1_blake160_sighash_all_type_hash()
        .expect("secp type hash");
    let dev_arg: Vec<u8> = (0..20)
        .map(|i| u8::from_str_radix(&DEV_LOCK_ARG_1[i * 2..i * 2 + 2], 16).unwrap())
        .collect();
    let secp_lock_dev1 = Script::new_builder()
        .code_hash(secp_type_hash)
        .hash_type(ScriptHashType::Type)
        .args(Bytes::from(dev_arg))
        .build();
    let mut issued = vec![];
    let mut dev1_out_point = None;
    for (i, out) in tx0.outputs().into_iter().enumerate() {
        let lock = out.lock();
        if lock.code_hash() == always_success_script.code_hash()
            && lock.hash_type() == always_success_script.hash_type()
        {
            issued.push((OutPoint::new(tx0.hash(), i as u32), out.capacity().into()));
        }
        if lock == secp_lock_dev1 {
            dev1_out_point = Some(OutPoint::new(tx0.hash(), i as u32));
        }
    }
    assert_eq!(issued.len(), p.issued_cells);
    let _: H256 = consensus.genesis_hash().into();
    GenesisInfo {
        consensus,
        always_success_script,
        always_success_dep: dep(always_success_out_point.clone()),
        always_success_out_point,
        always_failure_script,
        always_failure_dep: dep(always_failure_out_point),
        dao_type_script,
        dao_dep: dep(dao_out_point),
        secp_dep_group,
        secp_lock_dev1,
        dev1_out_point: dev1_out_point.expect("dev1 cell"),
        issued,
    }
}
