//! The node's own full verification of a candidate block on top of its current tip, without
//! committing anything (header check as in the miner RPC, then the checks the chain service
//! and the verify thread run, on a store transaction that is dropped afterwards).

use ckb_merkle_mountain_range::leaf_index_to_mmr_size;
use ckb_shared::Shared;
use ckb_types::core::BlockView;
use ckb_types::core::cell::{BlockCellProvider, OverlayCellProvider, resolve_transaction};
use ckb_types::utilities::merkle_mountain_range::ChainRootMMR;
use ckb_verification::{BlockVerifier, HeaderVerifier, NonContextualBlockTxsVerifier};
use ckb_verification_contextual::{ContextualBlockVerifier, VerifyContext};
use ckb_verification_traits::{Switch, Verifier};
use std::collections::HashSet;
use std::sync::Arc;

pub fn full_verify_noncommit(shared: &Shared, block: &BlockView) -> Result<u64, String> {
    let snapshot = shared.snapshot();
    let consensus = snapshot.consensus();
    if snapshot.tip_hash() != block.parent_hash() {
        return Err("stale: parent is not the current tip".into());
    }
    HeaderVerifier::new(snapshot.as_ref(), consensus)
        .verify(&block.header())
        .map_err(|e| format!("HeaderVerifier: {e}"))?;
    BlockVerifier::new(consensus)
        .verify(block)
        .map_err(|e| format!("BlockVerifier: {e}"))?;
    NonContextualBlockTxsVerifier::new(consensus)
        .verify(block)
        .map_err(|e| format!("NonContextualBlockTxsVerifier: {e}"))?;
    let txn = Arc::new(shared.store().begin_transaction());
    let mmr_size = leaf_index_to_mmr_size(block.number() - 1);
    let mmr = ChainRootMMR::new(mmr_size, txn.as_ref());
    let ctx = VerifyContext::new(Arc::clone(&txn), shared.cloned_consensus());
    let resolved = {
        let mut seen_inputs = HashSet::new();
        let block_cp = BlockCellProvider::new(block).map_err(|e| format!("BlockCellProvider: {e}"))?;
        let cp = OverlayCellProvider::new(&block_cp, txn.as_ref());
        let mut out = vec![];
        for tx in block.transactions() {
            let rtx = resolve_transaction(tx, &mut seen_inputs, &cp, &ctx)
                .map_err(|e| format!("resolve: {e}"))?;
            out.push(Arc::new(rtx));
        }
        out
    };
    let cache = shared.txs_verify_cache();
    let handle = shared.tx_pool_controller().handle();
    let v = ContextualBlockVerifier::new(ctx.clone(), handle, Switch::NONE, Arc::clone(&cache), &mmr);
    let (cycles, _) = v
        .verify(&resolved, block)
        .map_err(|e| format!("ContextualBlockVerifier: {e}"))?;
    Ok(cycles)
}
