//! Boot real nodes exactly as `ckb run` / the chain tests do (DESIGN 3.1).

use crate::consensus::GenesisInfo;
use ckb_app_config::{
    BlockAssemblerConfig, DBConfig, NetworkConfig, StoreConfig, TxPoolConfig,
};
use ckb_chain::{ChainController, ChainServiceScope, VerifyResult};
use ckb_jsonrpc_types::{JsonBytes, ScriptHashType as JsonHashType};
use ckb_network::{Flags, NetworkController, NetworkService, NetworkState, network::TransportType};
use ckb_shared::{Shared, SharedBuilder};
use ckb_types::core::BlockView;
use ckb_types::packed::Script;
use std::path::PathBuf;
use std::sync::{Arc, Mutex, OnceLock};

/// Process-wide scratch directory (RAM). `TMPDIR` is pointed there before the first temp DB is
/// created so that `SharedBuilder::with_temp_db` follows. Call `cleanup()` before exiting.
static SCRATCH: OnceLock<Mutex<Option<vbase::Scratch>>> = OnceLock::new();

pub fn scratch_dir() -> PathBuf {
    let m = SCRATCH.get_or_init(|| {
        let s = vbase::Scratch::new("node");
        // SAFETY: called before any other thread is started by the harness (first thing in main)
        unsafe {
            std::env::set_var("TMPDIR", &s.path);
        }
        Mutex::new(Some(s))
    });
    m.lock().unwrap().as_ref().map(|s| s.path.clone()).unwrap()
}

/// Remove the scratch directory (static destructors do not run at process exit).
pub fn cleanup() {
    if let Some(m) = SCRATCH.get() {
        m.lock().unwrap().take();
    }
}

/// Exit the process after cleaning up scratch data.
pub fn exit(code: i32) -> ! {
    cleanup();
    std::process::exit(code)
}

#[derive(Clone)]
pub enum DbKind {
    Temp,
    /// production path: `SharedBuilder::new` (migration check) on a directory
    Path {
        root: PathBuf,
        freezer: bool,
    },
}

#[derive(Clone)]
pub struct NodeCfg {
    pub db: DbKind,
    /// start the tx-pool service (with a dummy network)
    pub tx_pool: Option<TxPoolConfig>,
    /// configure a block assembler paying to this lock
    pub assembler_lock: Option<Script>,
    pub assembler_update_interval_ms: u64,
    pub store_config: Option<StoreConfig>,
    pub start_chain: bool,
    /// `SyncConfig::assume_valid_targets` (scripts are skipped until the last one is reached)
    pub assume_valid_targets: Option<Vec<ckb_types::H256>>,
}

impl Default for NodeCfg {
    fn default() -> Self {
        NodeCfg {
            db: DbKind::Temp,
            tx_pool: None,
            assembler_lock: None,
            assembler_update_interval_ms: 0,
            store_config: None,
            start_chain: true,
            assume_valid_targets: None,
        }
    }
}

pub struct Node {
    pub shared: Shared,
    /// dropping the scope joins the chain service threads
    pub scope: Option<ChainServiceScope>,
    pub network: Option<NetworkController>,
    _net_dir: Option<tempfile::TempDir>,
}

pub fn dummy_network(shared: &Shared) -> (NetworkController, tempfile::TempDir) {
    let tmp_dir = tempfile::Builder::new().tempdir_in(scratch_dir()).unwrap();
    let config = NetworkConfig {
        max_peers: 19,
        max_outbound_peers: 5,
        path: tmp_dir.path().to_path_buf(),
        ping_interval_secs: 15,
        ping_timeout_secs: 20,
        connect_outbound_interval_secs: 1,
        discovery_local_address: true,
        bootnode_mode: true,
        reuse_port_on_linux: true,
        ..Default::default()
    };
    let network_state =
        Arc::new(NetworkState::from_config(config).expect("Init network state failed"));
    let nc = NetworkService::new(
        network_state,
        vec![],
        vec![],
        (
            shared.consensus().identify_name(),
            "test".to_string(),
            Flags::COMPATIBILITY,
        ),
        TransportType::Tcp,
    )
    .start(shared.async_handle())
    .expect("Start network service failed");
    (nc, tmp_dir)
}

pub fn assembler_config(lock: &Script, update_interval_ms: u64) -> BlockAssemblerConfig {
    let hash_type: ckb_types::core::ScriptHashType = lock.hash_type().try_into().unwrap();
    BlockAssemblerConfig {
        code_hash: lock.code_hash().into(),
        args: JsonBytes::from_bytes(lock.args().raw_data()),
        hash_type: JsonHashType::from(hash_type),
        message: Default::default(),
        use_binary_version_as_message_prefix: false,
        binary_version: "VERIF".to_string(),
        update_interval_millis: update_interval_ms,
        notify: vec![],
        notify_scripts: vec![],
        notify_timeout_millis: 800,
    }
}

impl Node {
    pub fn boot(gi: &GenesisInfo, cfg: &NodeCfg) -> Node {
        let _ = scratch_dir();
        let mut builder = match &cfg.db {
            DbKind::Temp => SharedBuilder::with_temp_db().consensus(gi.consensus.clone()),
            DbKind::Path { root, freezer } => {
                std::fs::create_dir_all(root).expect("create node root dir");
                let db_config = DBConfig {
                    path: root.join("db"),
                    ..Default::default()
                };
                let ancient = if *freezer {
                    std::fs::create_dir_all(root.join("ancient")).expect("create ancient dir");
                    Some(root.join("ancient"))
                } else {
                    None
                };
                let handle = runtime_handle();
                SharedBuilder::new(
                    "vmon",
                    root,
                    &db_config,
                    ancient,
                    handle,
                    gi.consensus.clone(),
                )
                .expect("open db through production path")
            }
        };
        if let Some(tp) = &cfg.tx_pool {
            builder = builder.tx_pool_config(tp.clone());
        }
        if let Some(sc) = &cfg.store_config {
            builder = builder.store_config(*sc);
        } else if let DbKind::Path { freezer: true, .. } = &cfg.db {
            builder = builder.store_config(StoreConfig {
                freezer_enable: true,
                ..Default::default()
            });
        }
        if let Some(t) = &cfg.assume_valid_targets {
            builder = builder.sync_config(ckb_app_config::SyncConfig {
                assume_valid_targets: Some(t.clone()),
                ..Default::default()
            });
        }
        if let Some(lock) = &cfg.assembler_lock {
            builder = builder.block_assembler_config(Some(assembler_config(
                lock,
                cfg.assembler_update_interval_ms,
            )));
        }
        let (shared, mut pack) = builder.build().expect("SharedBuilder::build");
        let mut network = None;
        let mut net_dir = None;
        if cfg.tx_pool.is_some() {
            let (nc, dir) = dummy_network(&shared);
            pack.take_tx_pool_builder().start(nc.clone());
            network = Some(nc);
            net_dir = Some(dir);
        }
        let scope = if cfg.start_chain {
            Some(ChainServiceScope::new(pack.take_chain_services_builder()))
        } else {
            None
        };
        let node = Node {
            shared,
            scope,
            network,
            _net_dir: net_dir,
        };
        // The production pipeline (synchronizer, `ckb import`) does not feed blocks before the
        // start-up scan for stored-but-unverified blocks has finished; neither do we.
        if node.scope.is_some() {
            assert!(node.wait_startup(120_000), "start-up scan did not finish");
        }
        node
    }

    pub fn chain(&self) -> &ChainController {
        self.scope.as_ref().expect("chain started").chain_controller()
    }

    pub fn process(&self, block: &BlockView) -> VerifyResult {
        self.chain().blocking_process_block(Arc::new(block.clone()))
    }

    pub fn tip_hash(&self) -> ckb_types::packed::Byte32 {
        self.shared.snapshot().tip_hash()
    }

    pub fn tip_number(&self) -> u64 {
        self.shared.snapshot().tip_number()
    }

    /// Wait until the start-up scan of unverified blocks is finished (logical condition; the
    /// generous wall-clock cap only yields `false` = inconclusive).
    pub fn wait_startup(&self, cap_ms: u64) -> bool {
        let t0 = std::time::Instant::now();
        while self.chain().is_verifying_unverified_blocks_on_startup() {
            if t0.elapsed().as_millis() as u64 > cap_ms {
                return false;
            }
            std::thread::sleep(std::time::Duration::from_micros(200));
        }
        true
    }
}

/// A process-wide background runtime for nodes opened on a path.
pub fn runtime_handle() -> ckb_async_runtime::Handle {
    static H: OnceLock<ckb_async_runtime::Handle> = OnceLock::new();
    H.get_or_init(ckb_async_runtime::new_background_runtime)
        .clone()
}

/// Virtual time (process-wide). The guard is kept alive for the whole process.
pub fn set_time(ms: u64) {
    static G: OnceLock<ckb_systemtime::FaketimeGuard> = OnceLock::new();
    G.get_or_init(ckb_systemtime::faketime).set_faketime(ms);
}
