//! Process-wide schedule hook (H1): records `(thread, point)` hits, injects seeded delays at
//! the suspension points, and lets the engine observe every published snapshot of the one
//! node currently under observation (engines run one observed node at a time per process;
//! parallelism comes from sharding over processes).

use ckb_shared::Shared;
use ckb_types::U256;
use ckb_types::packed::ProposalShortId;
use std::collections::{BTreeMap, HashSet};
use std::sync::atomic::{AtomicBool, AtomicU64, Ordering};
use std::sync::{Mutex, OnceLock};

use crate::model::{H, h};

#[derive(Clone)]
pub struct Published {
    pub seq: u64,
    pub tip: H,
    pub number: u64,
    pub td: U256,
    pub epoch_number: u64,
    pub set: HashSet<ProposalShortId>,
    pub gap: HashSet<ProposalShortId>,
}

#[derive(Default)]
pub struct DelayPlan {
    /// per point name: (per-mille probability, max micros)
    pub points: BTreeMap<&'static str, (u64, u64)>,
    pub seed: u64,
}

struct Global {
    observed: Mutex<Option<Shared>>,
    published: Mutex<Vec<Published>>,
    plan: Mutex<DelayPlan>,
    hits: Mutex<BTreeMap<&'static str, u64>>,
    trace_sig: AtomicU64,
    counter: AtomicU64,
    enabled: AtomicBool,
}

static G: OnceLock<Global> = OnceLock::new();
pub static SEQ: AtomicU64 = AtomicU64::new(0);

pub fn next_seq() -> u64 {
    SEQ.fetch_add(1, Ordering::SeqCst)
}

fn g() -> &'static Global {
    G.get_or_init(|| Global {
        observed: Mutex::new(None),
        published: Mutex::new(vec![]),
        plan: Mutex::new(DelayPlan::default()),
        hits: Mutex::new(BTreeMap::new()),
        trace_sig: AtomicU64::new(0),
        counter: AtomicU64::new(0),
        enabled: AtomicBool::new(false),
    })
}

fn thread_tag() -> u64 {
    let name = std::thread::current()
        .name()
        .map(|s| s.to_string())
        .unwrap_or_default();
    vbase::fnv1a(name.as_bytes())
}

fn on_point(name: &'static str) {
    let gl = g();
    if !gl.enabled.load(Ordering::Relaxed) {
        return;
    }
    *gl.hits.lock().unwrap().entry(name).or_insert(0) += 1;
    // order-sensitive signature of the interleaving of named points across thread roles
    let n = gl.counter.fetch_add(1, Ordering::SeqCst);
    let mix = vbase::fnv1a(name.as_bytes()) ^ thread_tag().rotate_left(17);
    let prev = gl.trace_sig.load(Ordering::Relaxed);
    gl.trace_sig.store(
        (prev.rotate_left(5) ^ mix).wrapping_mul(0x100000001b3),
        Ordering::Relaxed,
    );
    if name == "chain::after_store_snapshot" {
        if let Some(shared) = gl.observed.lock().unwrap().as_ref() {
            let snap = shared.snapshot();
            gl.published.lock().unwrap().push(Published {
                seq: next_seq(),
                tip: h(&snap.tip_hash()),
                number: snap.tip_number(),
                td: snap.total_difficulty().clone(),
                epoch_number: snap.epoch_ext().number(),
                set: snap.proposals().set().clone(),
                gap: snap.proposals().gap().clone(),
            });
        }
    }
    // gate (see `arm_gate`): hold the first thread reaching the armed point until released
    if GATE_ARMED.load(Ordering::SeqCst) {
        gate_hold(name);
    }
    // delay
    let (pm, max_us, seed) = {
        let p = gl.plan.lock().unwrap();
        match p.points.get(name) {
            Some((pm, mx)) => (*pm, *mx, p.seed),
            None => return,
        }
    };
    let r = vbase::fnv1a(&[n.to_le_bytes(), seed.to_le_bytes()].concat());
    if r % 1000 < pm {
        // pm > 1000 means: always, and always the full delay
        let us = if pm > 1000 { max_us } else { (r >> 20) % (max_us + 1) };
        if us == 0 {
            std::thread::yield_now();
        } else {
            std::thread::sleep(std::time::Duration::from_micros(us));
        }
    }
}

/// Install the callback (idempotent) and enable recording.
pub fn install() {
    let _ = ckb_util::verif::install(Box::new(on_point));
    g().enabled.store(true, Ordering::SeqCst);
}

pub fn observe(shared: Option<Shared>) {
    *g().observed.lock().unwrap() = shared;
    g().published.lock().unwrap().clear();
    g().trace_sig.store(0, Ordering::SeqCst);
}

pub fn take_published() -> Vec<Published> {
    std::mem::take(&mut *g().published.lock().unwrap())
}

pub fn set_plan(plan: DelayPlan) {
    *g().plan.lock().unwrap() = plan;
}

pub fn trace_signature() -> u64 {
    g().trace_sig.load(Ordering::SeqCst)
}

pub fn hits() -> BTreeMap<&'static str, u64> {
    g().hits.lock().unwrap().clone()
}

pub const CHAIN_POINTS: &[&str] = &[
    "chain::after_insert_block",
    "chain::before_send_unverified",
    "chain::before_preload",
    "chain::before_verify_block",
    "chain::between_commit_and_store_snapshot",
    "chain::after_store_snapshot",
    // inside Shared::refresh_snapshot, between building the refreshed snapshot and publishing it
    // (hook H4b): the published snapshot has one publisher, the verify thread; a second publisher
    // would be exposed by a delay here
    "shared::refresh_snapshot_before_store",
];

/// A seeded plan over the chain points: each point independently gets no delay, yields, or
/// sleeps of up to 50us..3ms.
pub fn random_chain_plan(rng: &mut vbase::Rng) -> DelayPlan {
    let mut points = BTreeMap::new();
    for p in CHAIN_POINTS {
        match rng.below(4) {
            0 => {}
            1 => {
                points.insert(*p, (500, 0));
            }
            2 => {
                points.insert(*p, (300, 50 + rng.below(250)));
            }
            _ => {
                points.insert(*p, (150, 200 + rng.below(2800)));
            }
        }
    }
    // hook H4c: after every snapshot load (readers, services, the chain service itself); hit very
    // often, so only a small share of the hits is stretched
    match rng.below(3) {
        0 => {}
        1 => {
            points.insert("shared::after_snapshot_load", (40, 0));
        }
        _ => {
            points.insert("shared::after_snapshot_load", (25, 30 + rng.below(200)));
        }
    }
    DelayPlan {
        points,
        seed: rng.next_u64(),
    }
}

// ---------------------------------------------------------------------------------------
// Gate: a logical hold (not a sleep). The engine arms a point name; the FIRST thread of the
// node that reaches that point afterwards is parked there until the engine releases it (or a
// generous timeout expires, which the engine reports as inconclusive). Other threads and other
// points are unaffected; nothing happens unless a gate is armed.

#[derive(Default)]
struct GateState {
    point: Option<&'static str>,
    holding: bool,
    released: bool,
    timed_out: bool,
}

static GATE_ARMED: AtomicBool = AtomicBool::new(false);
static GATE: Mutex<GateState> = Mutex::new(GateState {
    point: None,
    holding: false,
    released: false,
    timed_out: false,
});
static GATE_CV: std::sync::Condvar = std::sync::Condvar::new();

/// Longest time a thread is parked at a gate when the engine never releases it.
const GATE_MAX_HOLD: std::time::Duration = std::time::Duration::from_secs(60);

fn gate_hold(name: &'static str) {
    let mut st = GATE.lock().unwrap();
    if st.point != Some(name) || st.holding || st.released {
        return;
    }
    st.holding = true;
    GATE_CV.notify_all();
    let (mut st, res) = GATE_CV
        .wait_timeout_while(st, GATE_MAX_HOLD, |s| !s.released)
        .unwrap();
    if res.timed_out() {
        st.timed_out = true;
    }
    st.holding = false;
    st.point = None;
    GATE_ARMED.store(false, Ordering::SeqCst);
    GATE_CV.notify_all();
}

/// Arm a one-shot gate at `point` (replaces any previous gate that is not holding a thread).
pub fn arm_gate(point: &'static str) {
    let mut st = GATE.lock().unwrap();
    if st.holding {
        return;
    }
    *st = GateState {
        point: Some(point),
        ..Default::default()
    };
    GATE_ARMED.store(true, Ordering::SeqCst);
}

/// Wait until a thread is parked at the armed gate. `false`: nobody arrived in time.
pub fn wait_gate_held(timeout: std::time::Duration) -> bool {
    let st = GATE.lock().unwrap();
    let (st, _) = GATE_CV
        .wait_timeout_while(st, timeout, |s| !s.holding)
        .unwrap();
    st.holding
}

/// Is a thread parked at the gate right now?
pub fn gate_is_holding() -> bool {
    GATE.lock().unwrap().holding
}

/// Release the parked thread (or disarm a gate nobody reached). Returns `true` iff a thread was
/// parked and is being released by this call (i.e. the hold was ended by the engine, not by the
/// timeout).
pub fn release_gate() -> bool {
    let mut st = GATE.lock().unwrap();
    let was_holding = st.holding && !st.timed_out;
    st.released = true;
    if !st.holding {
        st.point = None;
        GATE_ARMED.store(false, Ordering::SeqCst);
    }
    GATE_CV.notify_all();
    was_holding
}

// ---------------------------------------------------------------------------------------
// Panic monitor: a panic in any thread of a node under test (chain service, preload, verify,
// tx-pool workers ...) is recorded with thread name, message and location. The default hook
// output is kept (stderr) so that logs show the backtrace.

#[derive(Clone, Debug)]
pub struct PanicRecord {
    pub thread: String,
    pub message: String,
    pub location: String,
    /// in-repo frames of the panicking thread, innermost first
    pub frames: Vec<String>,
}

static PANICS: Mutex<Vec<PanicRecord>> = Mutex::new(Vec::new());

pub fn install_panic_monitor() {
    static ONCE: std::sync::Once = std::sync::Once::new();
    ONCE.call_once(|| {
        let default = std::panic::take_hook();
        std::panic::set_hook(Box::new(move |info| {
            let thread = std::thread::current()
                .name()
                .map(|s| s.to_string())
                .unwrap_or_else(|| "<unnamed>".into());
            let message = if let Some(s) = info.payload().downcast_ref::<&str>() {
                s.to_string()
            } else if let Some(s) = info.payload().downcast_ref::<String>() {
                s.clone()
            } else {
                "<non-string panic payload>".into()
            };
            let location = info
                .location()
                .map(|l| format!("{}:{}", l.file(), l.line()))
                .unwrap_or_default();
            if let Ok(mut g) = PANICS.lock() {
                // in-repo frames of the panicking thread (for witnesses of panics that do not
                // reproduce on demand)
                let bt = std::backtrace::Backtrace::force_capture().to_string();
                let mut frames: Vec<String> = vec![];
                let mut last_fn = String::new();
                for line in bt.lines() {
                    let t = line.trim();
                    if let Some(rest) = t.strip_prefix("at ") {
                        if rest.starts_with("/repo/") && frames.len() < 24 {
                            frames.push(format!("{} ({})", last_fn, rest.trim_start_matches("/repo/")));
                        }
                    } else if let Some((_, f)) = t.split_once(": ") {
                        last_fn = f.to_string();
                    }
                }
                g.push(PanicRecord {
                    thread,
                    message,
                    location,
                    frames,
                });
            }
            default(info);
        }));
    });
}

pub fn take_panics() -> Vec<PanicRecord> {
    std::mem::take(&mut *PANICS.lock().unwrap())
}

pub fn peek_panics() -> usize {
    PANICS.lock().unwrap().len()
}
