//! Block / transaction construction on top of a real node used as a construction site
//! (DESIGN 3.2). Production calculators fill in epoch / reward / dao / chain-root fields so the
//! blocks are acceptable; whether those numbers are *right* is judged elsewhere (C06/C07).

use crate::consensus::GenesisInfo;
use ckb_dao::DaoCalculator;
use ckb_reward_calculator::RewardCalculator;
use ckb_shared::{Shared, Snapshot};
use ckb_store::ChainStore;
use ckb_types::core::cell::{
    BlockCellProvider, OverlayCellProvider, ResolvedTransaction, resolve_transaction,
};
use ckb_types::core::{
    BlockBuilder, BlockView, Capacity, EpochExt, HeaderView, TransactionBuilder,
    TransactionView, UncleBlockView,
};
use ckb_types::packed::{
    self, Byte32, CellDep, CellInput, CellOutput, CellbaseWitness, OutPoint, ProposalShortId,
    Script,
};
use ckb_types::{bytes::Bytes, prelude::*};
use std::collections::HashSet;
use std::sync::Arc;

#[derive(Clone, Default)]
pub struct BlockSpec {
    /// committed non-cellbase transactions, parents first
    pub txs: Vec<TransactionView>,
    pub proposals: Vec<ProposalShortId>,
    pub uncles: Vec<UncleBlockView>,
    /// absolute timestamp; default parent + 1000 ms
    pub timestamp: Option<u64>,
    /// cellbase witness lock (the "miner"); default always_success with empty args
    pub miner_lock: Option<Script>,
    pub message: Vec<u8>,
    /// extra bytes appended after the 32-byte chain root in the extension (<= 64)
    pub extension_extra: Vec<u8>,
    pub nonce: u128,
}

pub struct Built {
    pub block: BlockView,
    pub epoch: EpochExt,
    pub reward_total: Capacity,
}

pub fn cellbase_witness(lock: &Script, message: &[u8]) -> packed::Bytes {
    CellbaseWitness::new_builder()
        .lock(lock.clone())
        .message(Bytes::from(message.to_vec()))
        .build()
        .as_bytes()
        .into()
}

/// Build the cellbase for a child of `parent` (which must be the tip of `snapshot`'s main chain).
pub fn build_cellbase(
    snapshot: &Snapshot,
    parent: &HeaderView,
    miner_lock: &Script,
    message: &[u8],
) -> (TransactionView, Capacity) {
    let number = parent.number() + 1;
    let consensus = snapshot.consensus();
    let (target_lock, reward) = RewardCalculator::new(consensus, snapshot)
        .block_reward_to_finalize(parent)
        .expect("reward");
    let builder = TransactionBuilder::default()
        .input(CellInput::new_cellbase_input(number))
        .witness(cellbase_witness(miner_lock, message));
    let output = CellOutput::new_builder()
        .capacity(reward.total)
        .lock(target_lock)
        .build();
    let no_target = number <= consensus.finalization_delay_length();
    let insufficient = output
        .is_lack_of_capacity(Capacity::zero())
        .expect("capacity");
    let tx = if no_target || insufficient {
        builder.build()
    } else {
        builder.output(output).output_data(Bytes::new()).build()
    };
    (tx, reward.total)
}

/// Resolve the transactions of a candidate block against the snapshot (parent = tip).
pub fn resolve_block(
    snapshot: &Snapshot,
    block: &BlockView,
) -> Result<Vec<Arc<ResolvedTransaction>>, ckb_error::Error> {
    let mut seen_inputs = HashSet::new();
    let block_cp = BlockCellProvider::new(block)?;
    let cell_provider = OverlayCellProvider::new(&block_cp, snapshot);
    let mut out = vec![];
    for tx in block.transactions() {
        let rtx = resolve_transaction(tx, &mut seen_inputs, &cell_provider, snapshot)?;
        out.push(Arc::new(rtx));
    }
    Ok(out)
}

/// Chain root (MMR root over blocks 0..=parent) as the 32-byte extension prefix.
pub fn chain_root_hash(snapshot: &Snapshot, parent_number: u64) -> Byte32 {
    snapshot
        .chain_root_mmr(parent_number)
        .get_root()
        .expect("chain root")
        .calc_mmr_hash()
}

/// Build a fully valid child of `shared`'s current tip. Panics if the spec is not buildable
/// (e.g. unresolvable transactions) — generators only pass valid specs here.
pub fn build_block(shared: &Shared, gi: &GenesisInfo, spec: &BlockSpec) -> Built {
    try_build_block(shared, gi, spec).expect("buildable block spec")
}

pub fn try_build_block(
    shared: &Shared,
    gi: &GenesisInfo,
    spec: &BlockSpec,
) -> Result<Built, ckb_error::Error> {
    let snapshot = shared.snapshot();
    let parent = snapshot.tip_header().clone();
    let consensus = snapshot.consensus();
    let number = parent.number() + 1;
    let epoch = consensus
        .next_epoch_ext(&parent, &snapshot.borrow_as_data_loader())
        .expect("epoch")
        .epoch();
    let miner_lock = spec
        .miner_lock
        .clone()
        .unwrap_or_else(|| gi.always_success_script.clone());
    let (cellbase, reward_total) = build_cellbase(&snapshot, &parent, &miner_lock, &spec.message);
    let mut ext = chain_root_hash(&snapshot, parent.number()).as_slice().to_vec();
    ext.extend_from_slice(&spec.extension_extra);
    let ext_bytes: packed::Bytes = Bytes::from(ext).into();
    let draft = BlockBuilder::default()
        .parent_hash(parent.hash())
        .number(number)
        .timestamp(spec.timestamp.unwrap_or(parent.timestamp() + 1000))
        .epoch(epoch.number_with_fraction(number))
        .compact_target(epoch.compact_target())
        .transaction(cellbase)
        .transactions(spec.txs.clone())
        .proposals(spec.proposals.clone())
        .uncles(spec.uncles.clone())
        .extension(Some(ext_bytes))
        .nonce(spec.nonce)
        .build();
    let rtxs = resolve_block(&snapshot, &draft)?;
    let dl = snapshot.borrow_as_data_loader();
    let dao = DaoCalculator::new(consensus, &dl)
        .dao_field(rtxs.iter().map(AsRef::as_ref), &parent)
        .map_err(ckb_error::Error::from)?;
    let block = draft.as_advanced_builder().dao(dao).build();
    let block = seal(consensus, block);
    Ok(Built {
        block,
        epoch,
        reward_total,
    })
}

/// The dao field the production calculator gives for `block`'s body on top of `shared`'s tip
/// (the block's parent). None if the body does not resolve there. Lets a harness keep a mutant
/// block consistent in everything except the one rule it breaks.
pub fn recompute_dao(shared: &Shared, block: &BlockView) -> Option<Byte32> {
    let snapshot = shared.snapshot();
    let parent = snapshot.tip_header().clone();
    if parent.hash() != block.parent_hash() {
        return None;
    }
    let rtxs = resolve_block(&snapshot, block).ok()?;
    let dl = snapshot.borrow_as_data_loader();
    DaoCalculator::new(snapshot.consensus(), &dl)
        .dao_field(rtxs.iter().map(AsRef::as_ref), &parent)
        .ok()
}

/// Find a nonce satisfying the PoW engine (no-op for Dummy). Only the nonce is touched (no
/// builder that would re-derive or assert other header fields).
pub fn seal(consensus: &ckb_chain_spec::consensus::Consensus, block: BlockView) -> BlockView {
    let engine = consensus.pow_engine();
    if engine.verify(&block.data().header()) {
        return block;
    }
    let mut nonce: u128 = block.nonce();
    loop {
        nonce = nonce.wrapping_add(1);
        let header = block.data().header().as_builder().nonce(nonce).build();
        if engine.verify(&header) {
            return replace_header(&block, header);
        }
    }
}

/// Re-seal after a header mutation (keeps everything else).
pub fn reseal(consensus: &ckb_chain_spec::consensus::Consensus, block: BlockView) -> BlockView {
    seal(consensus, block)
}

// ---------------------------------------------------------------------------------------
// transactions

#[derive(Clone)]
pub struct OutSpec {
    pub capacity: u64,
    pub lock: Script,
    pub type_: Option<Script>,
    pub data: Vec<u8>,
}

/// A plain transfer spending `inputs` (always_success locked) into `outputs`.
pub fn build_tx(
    gi: &GenesisInfo,
    inputs: &[(OutPoint, u64)],
    outputs: &[OutSpec],
    extra_deps: &[CellDep],
    header_deps: &[Byte32],
    witness: Option<Vec<u8>>,
) -> TransactionView {
    let mut b = TransactionBuilder::default().cell_dep(gi.always_success_dep.clone());
    for d in extra_deps {
        b = b.cell_dep(d.clone());
    }
    for hd in header_deps {
        b = b.header_dep(hd.clone());
    }
    for (op, since) in inputs {
        b = b.input(CellInput::new(op.clone(), *since));
    }
    for o in outputs {
        let out = CellOutput::new_builder()
            .capacity(Capacity::shannons(o.capacity))
            .lock(o.lock.clone())
            .type_(o.type_.clone())
            .build();
        b = b.output(out).output_data(Bytes::from(o.data.clone()));
    }
    if let Some(w) = witness {
        b = b.witness(Bytes::from(w));
    }
    b.build()
}

pub fn lock_with_args(gi: &GenesisInfo, args: &[u8]) -> Script {
    gi.always_success_script
        .clone()
        .as_builder()
        .args(Bytes::from(args.to_vec()))
        .build()
}

/// Minimal capacity (shannons) of an output with this lock/type/data.
pub fn occupied(lock: &Script, type_: &Option<Script>, data_len: usize) -> u64 {
    let out = CellOutput::new_builder()
        .lock(lock.clone())
        .type_(type_.clone())
        .build();
    out.occupied_capacity(Capacity::bytes(data_len).unwrap())
        .unwrap()
        .as_u64()
}

/// Replace the packed header of a block keeping the body (incl. the extension) byte for byte and
/// WITHOUT recomputing any root / hash field.
pub fn replace_header(block: &BlockView, header: packed::Header) -> BlockView {
    let data = block.data();
    match block.extension() {
        Some(ext) => packed::BlockV1::new_builder()
            .header(header)
            .uncles(data.uncles())
            .transactions(data.transactions())
            .proposals(data.proposals())
            .extension(ext)
            .build()
            .as_v0()
            .into_view_without_reset_header(),
        None => data
            .as_builder()
            .header(header)
            .build()
            .into_view_without_reset_header(),
    }
}

/// Sign input group 0 of `tx` (all inputs locked by the same secp256k1_blake160_sighash_all
/// lock) with the given private key: witness 0 becomes WitnessArgs{lock: 65-byte signature}.
pub fn sign_secp(tx: TransactionView, privkey_hex: &str) -> TransactionView {
    use ckb_crypto::secp::Privkey;
    let key: Vec<u8> = (0..32)
        .map(|i| u8::from_str_radix(&privkey_hex[i * 2..i * 2 + 2], 16).unwrap())
        .collect();
    let privkey = Privkey::from_slice(&key);
    let zero_lock: Bytes = vec![0u8; 65].into();
    let placeholder = packed::WitnessArgs::new_builder()
        .lock(Some(zero_lock))
        .build();
    let mut hasher = ckb_hash::new_blake2b();
    hasher.update(tx.hash().as_slice());
    let w0 = placeholder.as_bytes();
    hasher.update(&(w0.len() as u64).to_le_bytes());
    hasher.update(&w0);
    // other witnesses of the same group (inputs 1..) and extra witnesses
    let witnesses: Vec<packed::Bytes> = tx.witnesses().into_iter().collect();
    for w in witnesses.iter().skip(1) {
        let raw = w.raw_data();
        hasher.update(&(raw.len() as u64).to_le_bytes());
        hasher.update(&raw);
    }
    let mut msg = [0u8; 32];
    hasher.finalize(&mut msg);
    let sig = privkey
        .sign_recoverable(&ckb_types::H256::from(msg))
        .expect("sign")
        .serialize();
    let signed = placeholder
        .as_builder()
        .lock(Some(Bytes::from(sig)))
        .build();
    let mut ws = witnesses;
    if ws.is_empty() {
        ws.push(Default::default());
    }
    ws[0] = signed.as_bytes().into();
    tx.as_advanced_builder().set_witnesses(ws).build()
}
