//! Workload generator for block trees (DESIGN 3.2): a real builder node B is used as the
//! construction site; trees are generated in DFS order (extend B's tip, or `truncate` to an
//! ancestor and extend there). Invalid blocks are single-mutation twins of valid ones and are
//! never fed to B; descendants of invalid blocks are produced by twin re-parenting.

use crate::builder::{self, BlockSpec, OutSpec};
use crate::consensus::GenesisInfo;
use crate::model::{self, H, RefChain, h};
use crate::node::{Node, NodeCfg};
use ckb_types::core::{BlockView, TransactionView, UncleBlockView};
use ckb_types::packed::{self, OutPoint, ProposalShortId};
use ckb_types::{bytes::Bytes, prelude::*};
use std::collections::{HashMap, HashSet};
use vbase::Rng;

#[derive(Clone, Debug)]
pub struct TreeCfg {
    pub n_blocks: usize,
    /// probability (per mille) of backtracking before a block
    pub fork_pm: u64,
    pub max_fork_depth: u64,
    /// new transactions proposed per block: 0..=max_new_txs
    pub max_new_txs: usize,
    /// per mille chance that a new tx spends an output of a not-yet-committed tx
    pub chain_pm: u64,
    /// per mille chance of a deliberately conflicting (double-spending) proposal
    pub conflict_pm: u64,
    pub uncle_pm: u64,
    pub junk_proposals: usize,
    /// number of invalid blocks to derive
    pub invalid: usize,
    /// max ms between blocks
    pub ts_step_max: u64,
    /// min ms between blocks (default 0: steps are 1..=ts_step_max)
    pub ts_step_min: u64,
    /// per mille chance to skip a committable transaction (keeps proposals uncommitted longer)
    pub commit_skip_pm: u64,
    /// upper bound on committed (non-cellbase) transactions per generated block (sessions with a
    /// small consensus cycle limit)
    pub max_commits: usize,
    /// upper bound on the summed serialized size of the committed transactions per generated
    /// block (sessions with a small consensus `max_block_bytes`)
    pub max_commit_bytes: usize,
}

impl Default for TreeCfg {
    fn default() -> Self {
        TreeCfg {
            n_blocks: 40,
            fork_pm: 200,
            max_fork_depth: 6,
            max_new_txs: 3,
            chain_pm: 300,
            conflict_pm: 80,
            uncle_pm: 400,
            junk_proposals: 2,
            invalid: 2,
            ts_step_max: 20_000,
            ts_step_min: 0,
            commit_skip_pm: 150,
            max_commits: usize::MAX,
            max_commit_bytes: usize::MAX,
        }
    }
}

#[derive(Clone, Default)]
pub struct NodeInfo {
    /// transactions whose short id this block proposes (full tx known to the generator)
    pub proposed: Vec<TransactionView>,
}

#[derive(Clone, Copy, Debug, PartialEq, Eq)]
pub enum Mutation {
    DaoField,
    RewardPlusOne,
    UnproposedCommit,
    BadTxRoot,
    BadChainRoot,
    DoubleSpendInBlock,
    SpendDeadCell,
}

pub const ALL_MUTATIONS: &[Mutation] = &[
    Mutation::DaoField,
    Mutation::RewardPlusOne,
    Mutation::UnproposedCommit,
    Mutation::BadTxRoot,
    Mutation::BadChainRoot,
    Mutation::DoubleSpendInBlock,
    Mutation::SpendDeadCell,
];

pub struct TreeGen {
    pub gi: GenesisInfo,
    pub b: Node,
    pub rc: RefChain,
    pub rng: Rng,
    pub cfg: TreeCfg,
    pub info: HashMap<H, NodeInfo>,
    /// generation order (parents before children), valid and invalid blocks
    pub order: Vec<H>,
    /// counters describing what the generator produced
    pub stats: HashMap<&'static str, u64>,
    /// cells the generator's own transactions never spend (engines reserve them for their probes)
    pub keep: HashSet<(H, u32)>,
    salt: u64,
}

fn is_plain_spendable(gi: &GenesisInfo, c: &model::CellRec) -> bool {
    let out = match packed::CellOutput::from_slice(&c.output) {
        Ok(o) => o,
        Err(_) => return false,
    };
    out.type_().to_opt().is_none()
        && out.lock().code_hash() == gi.always_success_script.code_hash()
        && out.lock().hash_type() == gi.always_success_script.hash_type()
}

impl TreeGen {
    pub fn new(gi: &GenesisInfo, cfg: TreeCfg, seed: u64) -> TreeGen {
        let b = Node::boot(gi, &NodeCfg::default());
        let c = &gi.consensus;
        let rc = RefChain::new(
            c.genesis_block(),
            c.genesis_epoch_ext(),
            (c.tx_proposal_window().closest(), c.tx_proposal_window().farthest()),
            c.median_time_block_count(),
        );
        let mut info = HashMap::new();
        info.insert(rc.genesis, NodeInfo::default());
        TreeGen {
            gi: gi.clone(),
            b,
            rc,
            rng: Rng::new(seed),
            cfg,
            info,
            order: vec![],
            stats: HashMap::new(),
            keep: HashSet::new(),
            salt: seed,
        }
    }

    fn stat(&mut self, k: &'static str) {
        *self.stats.entry(k).or_insert(0) += 1;
    }

    pub fn tip(&self) -> H {
        h(&self.b.tip_hash())
    }

    /// Make `target` (an ancestor of B's tip, or the tip itself) the tip of B.
    pub fn goto(&mut self, target: &H) {
        let tip = self.tip();
        if tip == *target {
            return;
        }
        assert!(self.rc.is_ancestor(target, &tip), "DFS order: target must be an ancestor of the builder's tip");
        let hash: packed::Byte32 = packed::Byte32::from_slice(target).unwrap();
        self.b.chain().truncate(hash).expect("truncate");
        assert_eq!(self.tip(), *target);
        self.stat("truncations");
    }

    /// Transactions proposed on the path to `parent` that are inside the commit window for a
    /// child of `parent`, not yet committed, in proposal order.
    pub fn committable(&self, parent: &H) -> Vec<TransactionView> {
        let (w_close, w_far) = self.rc.window;
        let n = self.rc.get(parent).number + 1;
        let st = self.rc.replay(parent);
        let mut out: Vec<TransactionView> = vec![];
        let mut seen = HashSet::new();
        let mut stack = vec![];
        let mut cur = *parent;
        loop {
            let rec = self.rc.get(&cur);
            if rec.number == 0 {
                break;
            }
            let dist = n - rec.number;
            if dist > w_far {
                break;
            }
            if dist >= w_close {
                stack.push(cur);
            }
            cur = rec.parent;
        }
        // oldest first
        for x in stack.iter().rev() {
            if let Some(i) = self.info.get(x) {
                for tx in &i.proposed {
                    let th = h(&tx.hash());
                    if st.tx_info.contains_key(&th) || !seen.insert(th) {
                        continue;
                    }
                    out.push(tx.clone());
                }
            }
        }
        out
    }

    /// All txs proposed on the path within w_far of the next block (committed or not), used to
    /// avoid accidental conflicts and to build chains on uncommitted outputs.
    fn pending_on_path(&self, parent: &H) -> Vec<TransactionView> {
        let (_, w_far) = self.rc.window;
        let n = self.rc.get(parent).number + 1;
        let st = self.rc.replay(parent);
        let mut out = vec![];
        let mut cur = *parent;
        loop {
            let rec = self.rc.get(&cur);
            if rec.number == 0 || n - rec.number > w_far {
                break;
            }
            if let Some(i) = self.info.get(&cur) {
                for tx in &i.proposed {
                    if !st.tx_info.contains_key(&h(&tx.hash())) {
                        out.push(tx.clone());
                    }
                }
            }
            cur = rec.parent;
        }
        out
    }

    /// Select a conflict-free, parents-first subset of the committable txs for a child of parent.
    pub fn select_commits(&mut self, parent: &H, max: usize) -> Vec<TransactionView> {
        let cands = self.committable(parent);
        let st = self.rc.replay(parent);
        let mut chosen: Vec<TransactionView> = vec![];
        let mut spent: HashSet<(H, u32)> = HashSet::new();
        let mut created: HashSet<H> = HashSet::new();
        let max = max.min(self.cfg.max_commits);
        let mut bytes: usize = 0;
        // several passes so that children proposed before their parents can still be picked
        for _pass in 0..3 {
            for tx in &cands {
                if chosen.len() >= max {
                    break;
                }
                let th = h(&tx.hash());
                if created.contains(&th) {
                    continue;
                }
                let tx_bytes = tx.data().serialized_size_in_block();
                if bytes.saturating_add(tx_bytes) > self.cfg.max_commit_bytes {
                    continue;
                }
                if self.rng.chance(self.cfg.commit_skip_pm, 1000) {
                    continue;
                }
                let mut ok = true;
                let mut keys = vec![];
                for op in tx.input_pts_iter() {
                    let idx: u32 = op.index().into();
                    let k = (h(&op.tx_hash()), idx);
                    let live = st.cells.contains_key(&k) || created.contains(&k.0);
                    if !live || spent.contains(&k) {
                        ok = false;
                        break;
                    }
                    keys.push(k);
                }
                // cell deps must be live (and not consumed earlier in this block), header deps on
                // this branch
                for dep in tx.cell_deps_iter() {
                    let op = dep.out_point();
                    let idx: u32 = op.index().into();
                    let k = (h(&op.tx_hash()), idx);
                    let live = st.cells.contains_key(&k) || created.contains(&k.0);
                    if !live || spent.contains(&k) {
                        ok = false;
                    }
                }
                for hd in tx.header_deps_iter() {
                    if !st.chain.contains(&h(&hd)) {
                        ok = false;
                    }
                }
                // an input must not be a cell some already chosen tx depends on... (fine for
                // validity: deps are resolved before the later spend) — but a later tx must not
                // depend on a cell spent by an earlier chosen one (checked above via `spent`)
                if ok {
                    for k in keys {
                        spent.insert(k);
                    }
                    created.insert(th);
                    bytes += tx_bytes;
                    chosen.push(tx.clone());
                }
            }
        }
        chosen
    }

    fn new_tx(&mut self, parent: &H, in_block: &[TransactionView]) -> Option<TransactionView> {
        let st = self.rc.replay(parent);
        let pending = self.pending_on_path(parent);
        let mut reserved: HashSet<(H, u32)> = self.keep.clone();
        for tx in pending.iter().chain(in_block.iter()) {
            for op in tx.input_pts_iter() {
                let idx: u32 = op.index().into();
                reserved.insert((h(&op.tx_hash()), idx));
            }
        }
        let conflict = self.rng.chance(self.cfg.conflict_pm, 1000);
        let chain = self.rng.chance(self.cfg.chain_pm, 1000);
        // candidate inputs
        let mut inputs: Vec<(OutPoint, u64)> = vec![];
        let mut in_cap: u64 = 0;
        let n_in = 1 + self.rng.usize_below(2);
        if chain {
            // spend outputs of a pending (uncommitted) tx
            let pool: Vec<&TransactionView> = pending.iter().chain(in_block.iter()).collect();
            if !pool.is_empty() {
                let ptx = pool[self.rng.usize_below(pool.len())];
                let th = h(&ptx.hash());
                for (i, out) in ptx.outputs().into_iter().enumerate() {
                    if inputs.len() >= n_in {
                        break;
                    }
                    if out.type_().to_opt().is_some() {
                        continue;
                    }
                    if (reserved.contains(&(th, i as u32)) && !conflict) || self.keep.contains(&(th, i as u32)) {
                        continue;
                    }
                    let cap: u64 = out.capacity().into();
                    inputs.push((OutPoint::new(ptx.hash(), i as u32), 0));
                    in_cap += cap;
                }
            }
        }
        if inputs.is_empty() {
            // cellbase outputs are only spent when there is no maturity period to respect
            let maturity_zero = self.gi.consensus.cellbase_maturity().full_value()
                == ckb_types::core::EpochNumberWithFraction::new(0, 0, 1).full_value();
            let live: Vec<(&(H, u32), &model::CellRec)> = st
                .cells
                .iter()
                .filter(|(k, c)| {
                    is_plain_spendable(&self.gi, c)
                        && (conflict || !reserved.contains(*k))
                        && !self.keep.contains(*k)
                        && (maturity_zero || !(c.tx_index == 0 && c.block_number > 0))
                })
                .collect();
            if live.is_empty() {
                return None;
            }
            let start = self.rng.usize_below(live.len());
            for j in 0..n_in.min(live.len()) {
                let (k, c) = live[(start + j * 7) % live.len()];
                if inputs.iter().any(|(op, _)| h(&op.tx_hash()) == k.0 && {
                    let i: u32 = op.index().into();
                    i == k.1
                }) {
                    continue;
                }
                let out = packed::CellOutput::from_slice(&c.output).unwrap();
                let cap: u64 = out.capacity().into();
                inputs.push((
                    OutPoint::new(packed::Byte32::from_slice(&k.0).unwrap(), k.1),
                    0,
                ));
                in_cap += cap;
            }
        }
        // outputs
        self.salt = self.salt.wrapping_add(1);
        let n_out = 1 + self.rng.usize_below(3);
        let fee = self.rng.range(0, 5_000);
        let mut outs = vec![];
        let mut remaining = in_cap.checked_sub(fee)?;
        for i in 0..n_out {
            let args = vec![self.rng.below(4) as u8];
            let lock = builder::lock_with_args(&self.gi, &args);
            let data_len = if self.rng.chance(400, 1000) {
                0
            } else {
                1 + self.rng.usize_below(40)
            };
            let mut data = self.rng.bytes(data_len);
            if i == 0 {
                // uniqueness salt (so tx hashes never collide across the tree)
                data.extend_from_slice(&self.salt.to_le_bytes());
            }
            let occ = builder::occupied(&lock, &None, data.len());
            let cap = if i + 1 == n_out {
                remaining
            } else {
                let share = remaining / (n_out - i) as u64;
                share.max(occ)
            };
            if cap < occ || cap > remaining {
                if i == 0 {
                    return None;
                }
                // fold the rest into the previous output
                let last: &mut OutSpec = outs.last_mut().unwrap();
                last.capacity += remaining;
                remaining = 0;
                break;
            }
            remaining -= cap;
            outs.push(OutSpec {
                capacity: cap,
                lock,
                type_: None,
                data,
            });
        }
        if remaining > 0 {
            outs.last_mut()?.capacity += remaining;
        }
        let witness = if self.rng.bool() {
            Some(self.rng.bytes(8))
        } else {
            None
        };
        Some(builder::build_tx(&self.gi, &inputs, &outs, &[], &[], witness))
    }

    /// Uncle candidates for a child of `parent`.
    fn uncle_candidates(&self, parent: &H, child_epoch_number: u64, child_number: u64) -> Vec<UncleBlockView> {
        let st = self.rc.replay(parent);
        let on_path: HashSet<H> = st.chain.iter().cloned().collect();
        let mut out = vec![];
        for x in &self.order {
            let rec = self.rc.get(x);
            if on_path.contains(x) || rec.number >= child_number || rec.number == 0 {
                continue;
            }
            if rec.block.epoch().number() != child_epoch_number {
                continue;
            }
            if !on_path.contains(&rec.parent) {
                continue;
            }
            if st.uncles.contains_key(x) {
                continue;
            }
            // invalid-by-header blocks are never generated here, so any tree block qualifies
            out.push(rec.block.as_uncle());
        }
        out
    }

    /// Generate one valid block on top of `parent` (B is moved there), feed it to B, register
    /// it in the model. Returns its hash.
    pub fn extend(&mut self, parent: &H) -> H {
        self.extend_ex(parent, &[])
    }

    /// Build (but neither process nor register) a valid child of `parent`; returns the built
    /// block, the spec it was built from and the transactions it newly proposes.
    pub fn draft_ex(&mut self, parent: &H, extra: &[TransactionView]) -> (builder::Built, BlockSpec, Vec<TransactionView>) {
        self.goto(parent);
        let prec = self.rc.get(parent).clone();
        let n = prec.number + 1;
        let commits = {
            let max = 1 + self.rng.usize_below(6);
            self.select_commits(parent, max)
        };
        // new proposals
        let mut new_txs: Vec<TransactionView> = vec![];
        let k = self.rng.usize_below(self.cfg.max_new_txs + 1);
        for _ in 0..k {
            if let Some(tx) = self.new_tx(parent, &new_txs) {
                new_txs.push(tx);
            }
        }
        {
            let st = self.rc.replay(parent);
            for t in extra {
                if !st.tx_info.contains_key(&h(&t.hash())) && !new_txs.iter().any(|x| x.hash() == t.hash()) {
                    new_txs.push(t.clone());
                }
            }
        }
        let mut proposals: Vec<ProposalShortId> =
            new_txs.iter().map(|t| t.proposal_short_id()).collect();
        // occasionally re-propose something already pending (re-proposal inside the window)
        let pend = self.pending_on_path(parent);
        if !pend.is_empty() && self.rng.chance(300, 1000) {
            let t = &pend[self.rng.usize_below(pend.len())];
            if !proposals.contains(&t.proposal_short_id()) {
                proposals.push(t.proposal_short_id());
                new_txs.push(t.clone());
                self.stat("reproposals");
            }
        }
        for _ in 0..self.rng.usize_below(self.cfg.junk_proposals + 1) {
            let b = self.rng.bytes(10);
            proposals.push(ProposalShortId::from_slice(&b).unwrap());
        }
        let mut seen = HashSet::new();
        proposals.retain(|p| seen.insert(p.clone()));
        // timestamp
        let median = self.rc.median_time(parent);
        let step = self.cfg.ts_step_min + 1 + self.rng.below(self.cfg.ts_step_max.max(self.cfg.ts_step_min + 1) - self.cfg.ts_step_min);
        let ts = (prec.block.timestamp() + step).max(median + 1);
        // epoch of the child (needed for uncle choice)
        let epoch = {
            let snap = self.b.shared.snapshot();
            use ckb_store::ChainStore;
            snap.consensus()
                .next_epoch_ext(snap.tip_header(), &snap.borrow_as_data_loader())
                .unwrap()
                .epoch()
        };
        let mut uncles = vec![];
        if self.rng.chance(self.cfg.uncle_pm, 1000) {
            let mut cands = self.uncle_candidates(parent, epoch.number(), n);
            cands.retain(|u| u.compact_target() == epoch.compact_target());
            self.rng.shuffle(&mut cands);
            let max = self.gi.consensus.max_uncles_num();
            let take = 1 + self.rng.usize_below(max.max(1));
            uncles = cands.into_iter().take(take.min(max)).collect();
        }
        let miner = builder::lock_with_args(&self.gi, &[0xA0 + (self.rng.below(3) as u8)]);
        let spec = BlockSpec {
            txs: commits.clone(),
            proposals,
            uncles: uncles.clone(),
            timestamp: Some(ts),
            miner_lock: Some(miner),
            message: self.rng.bytes(4),
            extension_extra: if self.rng.chance(200, 1000) {
                let n = 1 + self.rng.usize_below(64);
                self.rng.bytes(n)
            } else {
                vec![]
            },
            nonce: self.rng.next_u64() as u128,
        };
        let built = builder::build_block(&self.b.shared, &self.gi, &spec);
        (built, spec, new_txs)
    }

    /// Like `extend`, additionally proposing the given (externally known) transactions.
    pub fn extend_ex(&mut self, parent: &H, extra: &[TransactionView]) -> H {
        let (built, spec, new_txs) = self.draft_ex(parent, extra);
        let n = self.rc.get(parent).number + 1;
        let commits = spec.txs.clone();
        let uncles = spec.uncles.clone();
        let res = self.b.process(&built.block);
        match res {
            Ok(true) => {}
            other => panic!(
                "builder node refused a block generated as valid (#{} txs={} uncles={}): {:?}",
                n,
                commits.len(),
                uncles.len(),
                other
            ),
        }
        let hash = self.rc.add(&built.block, true, None, Some(built.epoch));
        self.info.insert(hash, NodeInfo { proposed: new_txs });
        self.order.push(hash);
        if !commits.is_empty() {
            self.stat("blocks_with_commits");
        }
        if !uncles.is_empty() {
            self.stat("blocks_with_uncles");
        }
        self.stat("valid_blocks");
        hash
    }

    /// Register a valid block built elsewhere (e.g. mined from the node-under-test's block
    /// template) on top of B's current tip: B must accept it. `known` maps proposal ids to
    /// transaction bodies the generator knows, so that later blocks can commit them.
    pub fn adopt(&mut self, block: &BlockView, known: &dyn Fn(&ProposalShortId) -> Option<TransactionView>) -> Result<H, String> {
        let parent = h(&block.parent_hash());
        if parent != self.tip() {
            return Err("adopt: block does not extend the builder's tip".into());
        }
        let epoch = {
            let snap = self.b.shared.snapshot();
            use ckb_store::ChainStore;
            snap.consensus()
                .next_epoch_ext(snap.tip_header(), &snap.borrow_as_data_loader())
                .unwrap()
                .epoch()
        };
        match self.b.process(block) {
            Ok(true) => {}
            other => return Err(format!("{other:?}")),
        }
        let hash = self.rc.add(block, true, None, Some(epoch));
        let mut proposed = vec![];
        for id in block.union_proposal_ids_iter() {
            if let Some(tx) = known(&id) {
                proposed.push(tx);
            }
        }
        self.info.insert(hash, NodeInfo { proposed });
        self.order.push(hash);
        self.stat("adopted_blocks");
        Ok(hash)
    }

    /// Generate the whole tree.
    pub fn generate(&mut self) {
        let mut made = 0;
        while made < self.cfg.n_blocks {
            let tip = self.tip();
            let tip_n = self.rc.get(&tip).number;
            let parent = if tip_n > 0 && self.rng.chance(self.cfg.fork_pm, 1000) {
                let d = 1 + self.rng.below(self.cfg.max_fork_depth.min(tip_n));
                self.stat("forks");
                self.rc.ancestor_at(&tip, tip_n - d).unwrap()
            } else {
                tip
            };
            self.extend(&parent);
            made += 1;
        }
        for _ in 0..self.cfg.invalid {
            self.derive_invalid();
        }
    }

    /// Derive an invalid twin of a random valid block, plus (sometimes) re-parented descendants.
    pub fn derive_invalid(&mut self) -> Option<H> {
        let valid: Vec<H> = self
            .order
            .iter()
            .filter(|x| self.rc.get(x).chain_valid)
            .cloned()
            .collect();
        if valid.is_empty() {
            return None;
        }
        let v = valid[self.rng.usize_below(valid.len())];
        let m = *self.rng.pick(ALL_MUTATIONS);
        let twin = self.mutate(&v, m)?;
        let th = self.rc.add(&twin, false, Some(&format!("{m:?}")), self.rc.get(&v).epoch.clone());
        self.info.insert(th, self.info.get(&v).cloned().unwrap_or_default());
        self.order.push(th);
        self.stat("invalid_blocks");
        // descendants of the invalid twin: re-parent up to 3 valid descendants of v
        let mut cur_v = v;
        let mut cur_m = th;
        let depth = self.rng.usize_below(4);
        for _ in 0..depth {
            let kids: Vec<H> = self
                .rc
                .children
                .get(&cur_v)
                .cloned()
                .unwrap_or_default()
                .into_iter()
                .filter(|k| self.rc.get(k).self_valid)
                .collect();
            if kids.is_empty() {
                break;
            }
            let kid = kids[self.rng.usize_below(kids.len())];
            let re = self.reparent(&kid, &cur_m);
            let rh = self.rc.add(&re, true, None, self.rc.get(&kid).epoch.clone());
            self.info.insert(rh, self.info.get(&kid).cloned().unwrap_or_default());
            self.order.push(rh);
            self.stat("descendants_of_invalid");
            cur_v = kid;
            cur_m = rh;
        }
        Some(th)
    }

    /// Re-point `block` to `new_parent` (same height as its real parent): recompute the
    /// chain-root extension with the model's own MMR, re-seal.
    pub fn reparent(&self, block: &H, new_parent: &H) -> BlockView {
        let rec = self.rc.get(block);
        let st = self.rc.replay(new_parent);
        let root = st.mmr.root().unwrap().hash();
        let old_ext = rec.block.extension().map(|e| e.raw_data().to_vec()).unwrap_or_default();
        let mut ext = root.to_vec();
        if old_ext.len() > 32 {
            ext.extend_from_slice(&old_ext[32..]);
        }
        let ext_bytes: packed::Bytes = Bytes::from(ext).into();
        let b = rec
            .block
            .as_advanced_builder()
            .parent_hash(packed::Byte32::from_slice(new_parent).unwrap())
            .extension(Some(ext_bytes))
            .build();
        builder::reseal(&self.gi.consensus, b)
    }

    /// One-rule mutation of a valid block (block-level rules only: these blocks are delivered
    /// straight to the chain service, which does not run the header verifier).
    pub fn mutate(&mut self, v: &H, m: Mutation) -> Option<BlockView> {
        let rec = self.rc.get(v).clone();
        let block = (*rec.block).clone();
        let out = match m {
            Mutation::DaoField => {
                let mut dao = block.dao().as_slice().to_vec();
                dao[8] ^= 0x01; // accumulated rate field
                block
                    .as_advanced_builder()
                    .dao(packed::Byte32::from_slice(&dao).unwrap())
                    .build()
            }
            Mutation::BadTxRoot => {
                let mut r = block.transactions_root().as_slice().to_vec();
                r[0] ^= 0xff;
                let header = block
                    .header()
                    .as_advanced_builder()
                    .transactions_root(packed::Byte32::from_slice(&r).unwrap())
                    .build();
                // keep body, replace header without recomputing roots
                builder::replace_header(&block, header.data())
            }
            Mutation::BadChainRoot => {
                let mut ext = block.extension()?.raw_data().to_vec();
                ext[0] ^= 0x01;
                let ext_bytes: packed::Bytes = Bytes::from(ext).into();
                block.as_advanced_builder().extension(Some(ext_bytes)).build()
            }
            Mutation::RewardPlusOne => {
                let cb = block.transaction(0)?;
                if cb.outputs().is_empty() {
                    return None;
                }
                let out0 = cb.outputs().get(0)?;
                let cap: u64 = out0.capacity().into();
                let new_out = out0.as_builder().capacity(ckb_types::core::Capacity::shannons(cap + 1)).build();
                let new_cb = cb
                    .as_advanced_builder()
                    .set_outputs(vec![new_out])
                    .build();
                let mut txs = block.transactions();
                txs[0] = new_cb;
                block.as_advanced_builder().set_transactions(txs).build()
            }
            Mutation::UnproposedCommit => {
                // a fresh valid transaction that was never proposed
                let tx = self.new_tx(&rec.parent, &block.transactions()[1..])?;
                let mut txs = block.transactions();
                txs.push(tx);
                block.as_advanced_builder().set_transactions(txs).build()
            }
            Mutation::DoubleSpendInBlock => {
                // commit a second (proposed) tx spending the same input as a committed one
                let txs = block.transactions();
                if txs.len() < 2 {
                    return None;
                }
                let victim = &txs[1];
                let input = victim.inputs().get(0)?;
                let out = victim.outputs().get(0)?;
                self.salt = self.salt.wrapping_add(1);
                let evil = victim
                    .as_advanced_builder()
                    .set_inputs(vec![input])
                    .set_outputs(vec![out])
                    .set_outputs_data(vec![Bytes::from(self.salt.to_le_bytes().to_vec()).into()])
                    .build();
                let mut txs2 = txs.clone();
                txs2.push(evil);
                block.as_advanced_builder().set_transactions(txs2).build()
            }
            Mutation::SpendDeadCell => {
                // re-spend a cell consumed by an ancestor block
                let st_parent = self.rc.replay(&rec.parent);
                let mut found = None;
                let path = self.rc.path(&rec.parent);
                for x in path.iter().rev() {
                    let b = &self.rc.get(x).block;
                    for tx in b.transactions().iter().skip(1) {
                        if let Some(i) = tx.inputs().get(0) {
                            found = Some((i, tx.clone()));
                            break;
                        }
                    }
                    if found.is_some() {
                        break;
                    }
                }
                let (input, old) = found?;
                let _ = st_parent;
                self.salt = self.salt.wrapping_add(1);
                let evil = old
                    .as_advanced_builder()
                    .set_inputs(vec![input])
                    .set_outputs(vec![old.outputs().get(0)?])
                    .set_outputs_data(vec![Bytes::from(self.salt.to_le_bytes().to_vec()).into()])
                    .build();
                let mut txs = block.transactions();
                txs.push(evil);
                block.as_advanced_builder().set_transactions(txs).build()
            }
        };
        let out = builder::reseal(&self.gi.consensus, out);
        if out.hash() == block.hash() {
            return None;
        }
        Some(out)
    }

    pub fn blocks_in_order(&self) -> Vec<std::sync::Arc<BlockView>> {
        self.order
            .iter()
            .map(|x| std::sync::Arc::clone(&self.rc.get(x).block))
            .collect()
    }
}
