//! Node-level machinery shared by the chain-dependent engines: consensus construction, real
//! node boot, block/tx builder, reference model (RefChain), store dumps.
pub mod builder;
pub mod consensus;
pub mod dump;
pub mod treegen;
pub mod verify;
pub mod hooks;
pub mod model;
pub mod node;
