pub mod placeholder {}
