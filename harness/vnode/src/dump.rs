//! Store / snapshot dumps (DESIGN 3.4) and their comparison with `model::State`.
//! Columns are iterated raw and compared *as sets in both directions*.

use crate::model::{self, H, RefChain, State, h, hx};
use ckb_db::IteratorMode;
use ckb_db_schema::*;
use ckb_store::ChainStore;
use ckb_types::packed;
use ckb_types::prelude::*;
use std::collections::BTreeMap;

pub struct Dump {
    pub tip: H,
    pub cells: BTreeMap<(H, u32), model::CellRec>,
    /// raw data / data-hash column entries (key -> bytes) for the both-directions check
    pub cell_data: BTreeMap<(H, u32), Vec<u8>>,
    pub cell_data_hash: BTreeMap<(H, u32), Vec<u8>>,
    pub tx_info: BTreeMap<H, model::TxInfoRec>,
    pub index_num_to_hash: BTreeMap<u64, H>,
    pub index_hash_to_num: BTreeMap<H, u64>,
    pub uncles: BTreeMap<H, Vec<u8>>,
    pub mmr: BTreeMap<u64, Vec<u8>>,
    pub current_epoch: Vec<u8>,
    /// COLUMN_EPOCH: 8-byte keys (epoch number -> index hash)
    pub epoch_number_index: BTreeMap<u64, H>,
    /// COLUMN_EPOCH: 32-byte keys (index hash -> EpochExt bytes)
    pub epoch_ext: BTreeMap<H, Vec<u8>>,
    /// COLUMN_BLOCK_EPOCH: block hash -> index hash
    pub block_epoch: BTreeMap<H, H>,
    /// COLUMN_BLOCK_EXT raw
    pub block_ext: BTreeMap<H, Vec<u8>>,
    /// COLUMN_NUMBER_HASH keys
    pub number_hash: Vec<(u64, H)>,
}

fn key_cell(k: &[u8]) -> (H, u32) {
    let mut x = [0u8; 32];
    x.copy_from_slice(&k[..32]);
    (x, u32::from_be_bytes(k[32..36].try_into().unwrap()))
}

fn key_h(k: &[u8]) -> H {
    let mut x = [0u8; 32];
    x.copy_from_slice(&k[..32]);
    x
}

pub fn dump<S: ChainStore>(store: &S) -> Dump {
    let tip = store
        .get(COLUMN_META, META_TIP_HEADER_KEY)
        .map(|v| key_h(v.as_ref()))
        .unwrap_or([0u8; 32]);
    let mut d = Dump {
        tip,
        cells: BTreeMap::new(),
        cell_data: BTreeMap::new(),
        cell_data_hash: BTreeMap::new(),
        tx_info: BTreeMap::new(),
        index_num_to_hash: BTreeMap::new(),
        index_hash_to_num: BTreeMap::new(),
        uncles: BTreeMap::new(),
        mmr: BTreeMap::new(),
        current_epoch: store
            .get(COLUMN_META, META_CURRENT_EPOCH_KEY)
            .map(|v| v.as_ref().to_vec())
            .unwrap_or_default(),
        epoch_number_index: BTreeMap::new(),
        epoch_ext: BTreeMap::new(),
        block_epoch: BTreeMap::new(),
        block_ext: BTreeMap::new(),
        number_hash: vec![],
    };
    for (k, v) in store.get_iter(COLUMN_CELL, IteratorMode::Start) {
        let e = packed::CellEntryReader::from_slice_should_be_ok(v.as_ref());
        d.cells.insert(
            key_cell(&k),
            model::CellRec {
                output: e.output().as_slice().to_vec(),
                data: vec![],
                block_hash: key_h(e.block_hash().as_slice()),
                block_number: e.block_number().into(),
                block_epoch: e.block_epoch().into(),
                tx_index: e.index().into(),
            },
        );
    }
    for (k, v) in store.get_iter(COLUMN_CELL_DATA, IteratorMode::Start) {
        d.cell_data.insert(key_cell(&k), v.to_vec());
    }
    for (k, v) in store.get_iter(COLUMN_CELL_DATA_HASH, IteratorMode::Start) {
        d.cell_data_hash.insert(key_cell(&k), v.to_vec());
    }
    for (k, v) in store.get_iter(COLUMN_TRANSACTION_INFO, IteratorMode::Start) {
        let e = packed::TransactionInfoReader::from_slice_should_be_ok(v.as_ref());
        d.tx_info.insert(
            key_h(&k),
            model::TxInfoRec {
                block_hash: key_h(e.key().block_hash().as_slice()),
                block_number: e.block_number().into(),
                block_epoch: e.block_epoch().into(),
                index: {
                    let i: u32 = e.key().index().into();
                    i
                },
            },
        );
    }
    for (k, v) in store.get_iter(COLUMN_INDEX, IteratorMode::Start) {
        if k.len() == 8 {
            d.index_num_to_hash
                .insert(u64::from_le_bytes(k[..8].try_into().unwrap()), key_h(&v));
        } else {
            d.index_hash_to_num
                .insert(key_h(&k), u64::from_le_bytes(v[..8].try_into().unwrap()));
        }
    }
    for (k, v) in store.get_iter(COLUMN_UNCLES, IteratorMode::Start) {
        d.uncles.insert(key_h(&k), v.to_vec());
    }
    for (k, v) in store.get_iter(COLUMN_CHAIN_ROOT_MMR, IteratorMode::Start) {
        d.mmr
            .insert(u64::from_le_bytes(k[..8].try_into().unwrap()), v.to_vec());
    }
    for (k, v) in store.get_iter(COLUMN_EPOCH, IteratorMode::Start) {
        if k.len() == 8 {
            d.epoch_number_index
                .insert(u64::from_le_bytes(k[..8].try_into().unwrap()), key_h(&v));
        } else {
            d.epoch_ext.insert(key_h(&k), v.to_vec());
        }
    }
    for (k, v) in store.get_iter(COLUMN_BLOCK_EPOCH, IteratorMode::Start) {
        d.block_epoch.insert(key_h(&k), key_h(&v));
    }
    for (k, v) in store.get_iter(COLUMN_BLOCK_EXT, IteratorMode::Start) {
        d.block_ext.insert(key_h(&k), v.to_vec());
    }
    for (k, _v) in store.get_iter(COLUMN_NUMBER_HASH, IteratorMode::Start) {
        let r = packed::NumberHashReader::from_slice_should_be_ok(k.as_ref());
        d.number_hash
            .push((r.number().into(), key_h(r.block_hash().as_slice())));
    }
    d
}

/// One difference between a dump and the model: (signature, detail).
pub type Diff = (String, String);

fn blake(data: &[u8]) -> [u8; 32] {
    ckb_hash::blake2b_256(data)
}

/// Compare the canonical-chain columns of `d` with the replay of the model's chain ending at
/// the dump's tip. `check_epoch_index`: also compare the epoch-number -> index rows.
pub fn compare(d: &Dump, rc: &RefChain, label: &str) -> Vec<Diff> {
    let mut diffs: Vec<Diff> = vec![];
    if !rc.contains(&d.tip) {
        diffs.push((
            format!("{label}.tip_unknown_to_model"),
            format!("tip {} not among generated blocks", hx(&d.tip)),
        ));
        return diffs;
    }
    let st: std::sync::Arc<State> = rc.replay(&d.tip);
    let mut push = |sig: &str, detail: String| {
        if diffs.len() < 40 {
            diffs.push((format!("{label}.{sig}"), detail));
        }
    };
    // live cells, both directions
    for (k, c) in &st.cells {
        match d.cells.get(k) {
            None => push(
                "live_cell_missing",
                format!("model live cell {}:{} (created in block {}) absent from store", hx(&k.0), k.1, c.block_number),
            ),
            Some(s) => {
                if s.output != c.output
                    || s.block_hash != c.block_hash
                    || s.block_number != c.block_number
                    || s.block_epoch != c.block_epoch
                    || s.tx_index != c.tx_index
                {
                    push(
                        "live_cell_meta_mismatch",
                        format!("cell {}:{} store=({},{},{:#x},{}) model=({},{},{:#x},{})", hx(&k.0), k.1,
                            hx(&s.block_hash), s.block_number, s.block_epoch, s.tx_index,
                            hx(&c.block_hash), c.block_number, c.block_epoch, c.tx_index),
                    );
                }
                // data & data hash
                let dv = d.cell_data.get(k);
                let hv = d.cell_data_hash.get(k);
                if c.data.is_empty() {
                    if dv.map(|v| !v.is_empty()).unwrap_or(true) || hv.map(|v| !v.is_empty()).unwrap_or(true) {
                        push("live_cell_data_mismatch", format!("cell {}:{} empty data expected, rows: data={:?} hash={:?}", hx(&k.0), k.1, dv.map(|v| v.len()), hv.map(|v| v.len())));
                    }
                } else {
                    let ok = dv
                        .and_then(|v| packed::CellDataEntryReader::from_slice(v).ok().map(|e| {
                            e.output_data().raw_data() == &c.data[..]
                                && e.output_data_hash().as_slice() == &blake(&c.data)[..]
                        }))
                        .unwrap_or(false);
                    let okh = hv.map(|v| v[..] == blake(&c.data)[..]).unwrap_or(false);
                    if !ok || !okh {
                        push("live_cell_data_mismatch", format!("cell {}:{} data/data-hash rows do not match model data ({} bytes)", hx(&k.0), k.1, c.data.len()));
                    }
                }
            }
        }
    }
    for k in d.cells.keys() {
        if !st.cells.contains_key(k) {
            push(
                "dead_cell_present",
                format!("store has cell {}:{} which is not live on the replayed main chain", hx(&k.0), k.1),
            );
        }
    }
    for k in d.cell_data.keys() {
        if !st.cells.contains_key(k) {
            push("dead_cell_data_present", format!("cell data row {}:{} without live cell", hx(&k.0), k.1));
        }
    }
    for k in d.cell_data_hash.keys() {
        if !st.cells.contains_key(k) {
            push("dead_cell_data_hash_present", format!("cell data-hash row {}:{} without live cell", hx(&k.0), k.1));
        }
    }
    // tx info
    for (k, t) in &st.tx_info {
        match d.tx_info.get(k) {
            None => push("tx_info_missing", format!("tx {} of main-chain block {} has no location row", hx(k), t.block_number)),
            Some(s) if s != t => push("tx_info_mismatch", format!("tx {} store={:?} model={:?}", hx(k), s, t)),
            _ => {}
        }
    }
    for k in d.tx_info.keys() {
        if !st.tx_info.contains_key(k) {
            push("tx_info_stale", format!("tx-location row for {} which is not on the main chain", hx(k)));
        }
    }
    // number <-> hash index
    for (n, x) in st.chain.iter().enumerate() {
        if d.index_num_to_hash.get(&(n as u64)) != Some(x) {
            push("index_number_to_hash", format!("number {} -> {:?}, model {}", n, d.index_num_to_hash.get(&(n as u64)).map(hx), hx(x)));
        }
        if d.index_hash_to_num.get(x) != Some(&(n as u64)) {
            push("index_hash_to_number", format!("hash {} -> {:?}, model {}", hx(x), d.index_hash_to_num.get(x), n));
        }
    }
    if d.index_num_to_hash.len() != st.chain.len() || d.index_hash_to_num.len() != st.chain.len() {
        push("index_extra_rows", format!("index rows num->hash {} hash->num {} but main chain has {} blocks", d.index_num_to_hash.len(), d.index_hash_to_num.len(), st.chain.len()));
    }
    // uncles
    if d.uncles != st.uncles {
        let extra: Vec<String> = d.uncles.keys().filter(|k| !st.uncles.contains_key(*k)).map(hx).collect();
        let missing: Vec<String> = st.uncles.keys().filter(|k| !d.uncles.contains_key(*k)).map(hx).collect();
        push("uncle_index", format!("uncle index differs: extra={extra:?} missing={missing:?}"));
    }
    // MMR nodes below mmr_size(tip)
    for (i, n) in st.mmr.nodes.iter().enumerate() {
        match d.mmr.get(&(i as u64)) {
            Some(v) if v[..] == n.to_bytes()[..] => {}
            other => push("mmr_node", format!("MMR node {} differs from model (present={})", i, other.is_some())),
        }
    }
    // tip epoch == epoch record of the tip block; per-block epoch records of main-chain blocks
    let tip_rec = rc.get(&d.tip);
    if let Some(ep) = &tip_rec.epoch {
        let want: packed::EpochExt = ep.clone().into();
        if d.current_epoch[..] != want.as_slice()[..] {
            push("current_epoch", format!("current epoch row differs from the epoch of tip {}", hx(&d.tip)));
        }
    }
    for x in &st.chain {
        let rec = rc.get(x);
        if let Some(ep) = &rec.epoch {
            let idx = h(&ep.last_block_hash_in_previous_epoch());
            if d.block_epoch.get(x) != Some(&idx) {
                push("block_epoch_index", format!("block {} (#{}) epoch index row {:?} != {}", hx(x), rec.number, d.block_epoch.get(x).map(hx), hx(&idx)));
            }
            let want: packed::EpochExt = ep.clone().into();
            match d.epoch_ext.get(&idx) {
                Some(v) if v[..] == want.as_slice()[..] => {}
                other => push("epoch_ext_record", format!("epoch record for block {} (#{}) differs (present={})", hx(x), rec.number, other.is_some())),
            }
        }
    }
    // block ext of main-chain blocks
    for x in &st.chain {
        let rec = rc.get(x);
        match d.block_ext.get(x) {
            None => push("block_ext_missing", format!("main-chain block {} (#{}) has no ext", hx(x), rec.number)),
            Some(raw) => {
                let ext = decode_ext(raw);
                match ext {
                    None => push("block_ext_undecodable", format!("block {}", hx(x))),
                    Some(ext) => {
                        if ext.verified != Some(true) {
                            push("block_ext_not_verified", format!("main-chain block {} (#{}) verified={:?}", hx(x), rec.number, ext.verified));
                        }
                        if ext.total_difficulty != rec.td {
                            push("block_ext_total_difficulty", format!("block {} (#{}) td {:#x} != model {:#x}", hx(x), rec.number, ext.total_difficulty, rec.td));
                        }
                        if rec.number > 0 {
                            if let Some(fees) = st.fees.get(x) {
                                if ext.txs_fees.len() != fees.len() {
                                    push("block_ext_fees_len", format!("block {} (#{}) has {} fee entries for {} txs", hx(x), rec.number, ext.txs_fees.len(), fees.len()));
                                } else {
                                    for (i, f) in fees.iter().enumerate() {
                                        if let Some(f) = f {
                                            if ext.txs_fees[i].as_u64() != *f {
                                                push("block_ext_fee", format!("block {} tx {} fee {} != model {}", hx(x), i + 1, ext.txs_fees[i].as_u64(), f));
                                            }
                                        }
                                    }
                                }
                            }
                            let sizes: Vec<u64> = rec.block.transactions().iter().map(|tx| tx.data().as_slice().len() as u64 + 4).collect();
                            if let Some(s) = &ext.txs_sizes {
                                if *s != sizes {
                                    push("block_ext_sizes", format!("block {} sizes {:?} != {:?}", hx(x), s, sizes));
                                }
                            } else {
                                push("block_ext_sizes", format!("block {} has no sizes", hx(x)));
                            }
                            match &ext.cycles {
                                Some(c) if c.len() + 1 == rec.block.transactions().len() => {}
                                other => push("block_ext_cycles", format!("block {} cycles {:?} for {} txs", hx(x), other.as_ref().map(|c| c.len()), rec.block.transactions().len())),
                            }
                        }
                    }
                }
            }
        }
    }
    // every stored ext has the model's accumulated difficulty
    for (x, raw) in &d.block_ext {
        if let (Some(ext), true) = (decode_ext(raw), rc.contains(x)) {
            let rec = rc.get(x);
            if ext.total_difficulty != rec.td {
                push("stored_ext_total_difficulty", format!("block {} (#{}) td {:#x} != model {:#x}", hx(x), rec.number, ext.total_difficulty, rec.td));
            }
            if ext.verified == Some(true) && !rec.chain_valid {
                push("invalid_block_marked_verified", format!("block {} (#{}) rule {:?}", hx(x), rec.number, rec.invalid_rule));
            }
        }
    }
    diffs
}

/// Epoch-number -> epoch-index rows must point at the main chain's epochs (C02/C10).
pub fn compare_epoch_index(d: &Dump, rc: &RefChain, label: &str) -> Vec<Diff> {
    let mut diffs = vec![];
    if !rc.contains(&d.tip) {
        return diffs;
    }
    let st = rc.replay(&d.tip);
    let mut want: BTreeMap<u64, H> = BTreeMap::new();
    for x in &st.chain {
        if let Some(ep) = &rc.get(x).epoch {
            want.insert(ep.number(), h(&ep.last_block_hash_in_previous_epoch()));
        }
    }
    for (n, idx) in &want {
        if d.epoch_number_index.get(n) != Some(idx) {
            diffs.push((
                format!("{label}.epoch_number_index"),
                format!("epoch {} -> index {:?} but the main chain's epoch {} starts after {}", n, d.epoch_number_index.get(n).map(hx), n, hx(idx)),
            ));
        }
    }
    diffs
}

pub fn decode_ext(raw: &[u8]) -> Option<ckb_types::core::BlockExt> {
    let reader = packed::BlockExtReader::from_compatible_slice(raw).ok()?;
    match reader.count_extra_fields() {
        0 => Some(reader.into()),
        2 => packed::BlockExtV1Reader::from_slice(raw).ok().map(Into::into),
        _ => None,
    }
}

// ---------------------------------------------------------------------------------------
// (de)serialisation of dumps, for child processes (crash / restart engines)

fn hexs(b: &[u8]) -> String {
    vbase::hex(b)
}

fn unhex(s: &str) -> Vec<u8> {
    (0..s.len() / 2)
        .map(|i| u8::from_str_radix(&s[2 * i..2 * i + 2], 16).unwrap_or(0))
        .collect()
}

fn unh(s: &str) -> H {
    let v = unhex(s);
    let mut x = [0u8; 32];
    if v.len() == 32 {
        x.copy_from_slice(&v);
    }
    x
}

pub fn to_json(d: &Dump) -> serde_json::Value {
    use serde_json::json;
    json!({
        "tip": hexs(&d.tip),
        "cells": d.cells.iter().map(|(k, c)| json!([hexs(&k.0), k.1, hexs(&c.output), hexs(&c.block_hash), c.block_number, c.block_epoch, c.tx_index])).collect::<Vec<_>>(),
        "cell_data": d.cell_data.iter().map(|(k, v)| json!([hexs(&k.0), k.1, hexs(v)])).collect::<Vec<_>>(),
        "cell_data_hash": d.cell_data_hash.iter().map(|(k, v)| json!([hexs(&k.0), k.1, hexs(v)])).collect::<Vec<_>>(),
        "tx_info": d.tx_info.iter().map(|(k, t)| json!([hexs(k), hexs(&t.block_hash), t.block_number, t.block_epoch, t.index])).collect::<Vec<_>>(),
        "index_num_to_hash": d.index_num_to_hash.iter().map(|(k, v)| json!([k, hexs(v)])).collect::<Vec<_>>(),
        "index_hash_to_num": d.index_hash_to_num.iter().map(|(k, v)| json!([hexs(k), v])).collect::<Vec<_>>(),
        "uncles": d.uncles.iter().map(|(k, v)| json!([hexs(k), hexs(v)])).collect::<Vec<_>>(),
        "mmr": d.mmr.iter().map(|(k, v)| json!([k, hexs(v)])).collect::<Vec<_>>(),
        "current_epoch": hexs(&d.current_epoch),
        "epoch_number_index": d.epoch_number_index.iter().map(|(k, v)| json!([k, hexs(v)])).collect::<Vec<_>>(),
        "epoch_ext": d.epoch_ext.iter().map(|(k, v)| json!([hexs(k), hexs(v)])).collect::<Vec<_>>(),
        "block_epoch": d.block_epoch.iter().map(|(k, v)| json!([hexs(k), hexs(v)])).collect::<Vec<_>>(),
        "block_ext": d.block_ext.iter().map(|(k, v)| json!([hexs(k), hexs(v)])).collect::<Vec<_>>(),
        "number_hash": d.number_hash.iter().map(|(n, x)| json!([n, hexs(x)])).collect::<Vec<_>>(),
    })
}

pub fn from_json(v: &serde_json::Value) -> Dump {
    let arr = |k: &str| v[k].as_array().cloned().unwrap_or_default();
    let s = |x: &serde_json::Value| x.as_str().unwrap_or("").to_string();
    let mut d = Dump {
        tip: unh(&s(&v["tip"])),
        cells: BTreeMap::new(),
        cell_data: BTreeMap::new(),
        cell_data_hash: BTreeMap::new(),
        tx_info: BTreeMap::new(),
        index_num_to_hash: BTreeMap::new(),
        index_hash_to_num: BTreeMap::new(),
        uncles: BTreeMap::new(),
        mmr: BTreeMap::new(),
        current_epoch: unhex(&s(&v["current_epoch"])),
        epoch_number_index: BTreeMap::new(),
        epoch_ext: BTreeMap::new(),
        block_epoch: BTreeMap::new(),
        block_ext: BTreeMap::new(),
        number_hash: vec![],
    };
    for e in arr("cells") {
        d.cells.insert(
            (unh(&s(&e[0])), e[1].as_u64().unwrap_or(0) as u32),
            model::CellRec {
                output: unhex(&s(&e[2])),
                data: vec![],
                block_hash: unh(&s(&e[3])),
                block_number: e[4].as_u64().unwrap_or(0),
                block_epoch: e[5].as_u64().unwrap_or(0),
                tx_index: e[6].as_u64().unwrap_or(0) as u32,
            },
        );
    }
    for e in arr("cell_data") {
        d.cell_data.insert((unh(&s(&e[0])), e[1].as_u64().unwrap_or(0) as u32), unhex(&s(&e[2])));
    }
    for e in arr("cell_data_hash") {
        d.cell_data_hash.insert((unh(&s(&e[0])), e[1].as_u64().unwrap_or(0) as u32), unhex(&s(&e[2])));
    }
    for e in arr("tx_info") {
        d.tx_info.insert(
            unh(&s(&e[0])),
            model::TxInfoRec {
                block_hash: unh(&s(&e[1])),
                block_number: e[2].as_u64().unwrap_or(0),
                block_epoch: e[3].as_u64().unwrap_or(0),
                index: e[4].as_u64().unwrap_or(0) as u32,
            },
        );
    }
    for e in arr("index_num_to_hash") {
        d.index_num_to_hash.insert(e[0].as_u64().unwrap_or(0), unh(&s(&e[1])));
    }
    for e in arr("index_hash_to_num") {
        d.index_hash_to_num.insert(unh(&s(&e[0])), e[1].as_u64().unwrap_or(0));
    }
    for e in arr("uncles") {
        d.uncles.insert(unh(&s(&e[0])), unhex(&s(&e[1])));
    }
    for e in arr("mmr") {
        d.mmr.insert(e[0].as_u64().unwrap_or(0), unhex(&s(&e[1])));
    }
    for e in arr("epoch_number_index") {
        d.epoch_number_index.insert(e[0].as_u64().unwrap_or(0), unh(&s(&e[1])));
    }
    for e in arr("epoch_ext") {
        d.epoch_ext.insert(unh(&s(&e[0])), unhex(&s(&e[1])));
    }
    for e in arr("block_epoch") {
        d.block_epoch.insert(unh(&s(&e[0])), unh(&s(&e[1])));
    }
    for e in arr("block_ext") {
        d.block_ext.insert(unh(&s(&e[0])), unhex(&s(&e[1])));
    }
    for e in arr("number_hash") {
        d.number_hash.push((e[0].as_u64().unwrap_or(0), unh(&s(&e[1]))));
    }
    d
}
