//! C16 (b): `ckb_network::compress::{compress, decompress, LengthDelimitedCodecWithCompress}`.
//! Runs as the `compress-child` sub-command; writes a JSON result file.

use crate::util::*;
use ckb_network::bytes::{Bytes, BytesMut};
use ckb_network::compress::{LengthDelimitedCodecWithCompress, compress, decompress};
use serde_json::{Value, json};
use std::io::Write;
use std::time::Instant;
use tokio_util::codec::{Decoder, Encoder, length_delimited::LengthDelimitedCodec};
use vbase::{Args, Rng, Tier};

/// `MAX_UNCOMPRESSED_LEN` in network/src/compress.rs (private): 1 << 23.
const MAX_UNCOMPRESSED_LEN: usize = 1 << 23;
/// `COMPRESSION_SIZE_THRESHOLD` (pub(crate)): frames (flag + payload) longer than this are compressed.
const THRESHOLD: usize = 1024;
const COMPRESS_FLAG: u8 = 0x80;

fn max_rss_kib() -> i64 {
    unsafe {
        let mut ru: libc::rusage = std::mem::zeroed();
        libc::getrusage(libc::RUSAGE_SELF, &mut ru);
        ru.ru_maxrss as i64
    }
}

fn payload(rng: &mut Rng, n: usize) -> Vec<u8> {
    let mut v = vec![0u8; n];
    match rng.below(5) {
        0 => {}
        1 => {
            for b in v.iter_mut() {
                *b = rng.next_u64() as u8;
            }
        }
        2 => {
            let pat = b"nervos ckb common knowledge base ";
            for (i, b) in v.iter_mut().enumerate() {
                *b = pat[i % pat.len()];
            }
        }
        3 => {
            // compressible runs interleaved with noise
            let mut i = 0;
            while i < n {
                let run = (rng.below(200) + 1) as usize;
                let byte = rng.next_u64() as u8;
                let noisy = rng.below(3) == 0;
                for _ in 0..run {
                    if i >= n {
                        break;
                    }
                    v[i] = if noisy { rng.next_u64() as u8 } else { byte };
                    i += 1;
                }
            }
        }
        _ => {
            for (i, b) in v.iter_mut().enumerate() {
                *b = (i % 251) as u8;
            }
        }
    }
    v
}

fn varint(mut v: u64) -> Vec<u8> {
    let mut out = vec![];
    loop {
        let b = (v & 0x7f) as u8;
        v >>= 7;
        if v == 0 {
            out.push(b);
            return out;
        }
        out.push(b | 0x80);
    }
}

struct Res {
    evals: u64,
    counters: std::collections::BTreeMap<String, u64>,
    findings: Vec<Value>,
}

impl Res {
    fn count(&mut self, k: &str) {
        *self.counters.entry(k.to_string()).or_insert(0) += 1;
    }
    fn finding(&mut self, sig: &str, detail: String, witness: Value) {
        if !self.findings.iter().any(|f| f["sig"] == sig) {
            self.findings
                .push(json!({"sig": sig, "detail": detail, "witness": witness}));
        }
    }
}

/// decompress under catch_unwind with the oracle applied.
fn check_decompress(res: &mut Res, frame: &[u8], what: &str) -> Option<Result<Bytes, ()>> {
    res.evals += 1;
    let t0 = Instant::now();
    let r = guarded(|| decompress(BytesMut::from(frame)));
    let dt = t0.elapsed();
    let wit = || json!({"frame_hex": hex_witness(frame), "frame_len": frame.len(), "case": what});
    match r {
        Err(msg) => {
            res.finding("panic@decompress", msg, wit());
            None
        }
        Ok(Ok(out)) => {
            res.count("compress.decompress_ok");
            let compressed = !frame.is_empty() && frame[0] & COMPRESS_FLAG != 0;
            if compressed && out.len() > MAX_UNCOMPRESSED_LEN {
                res.finding(
                    "decompress.exceeds_max",
                    format!("decompress returned {} bytes > {MAX_UNCOMPRESSED_LEN}", out.len()),
                    wit(),
                );
            }
            if !compressed && out[..] != frame[1..] {
                res.finding(
                    "decompress.uncompressed_payload_changed",
                    "an uncompressed frame must yield its payload unchanged".into(),
                    wit(),
                );
            }
            if dt.as_secs_f64() > 2.0 {
                res.finding("slow@decompress", format!("{dt:?} for one frame"), wit());
            }
            Some(Ok(out))
        }
        Ok(Err(_)) => {
            res.count("compress.decompress_err");
            if dt.as_secs_f64() > 2.0 {
                res.finding("slow@decompress", format!("{dt:?} for one rejected frame"), wit());
            }
            Some(Err(()))
        }
    }
}

pub fn child_main(args: &Args) -> i32 {
    install_panic_capture();
    let out_path = std::path::PathBuf::from(args.get_str("out").expect("out="));
    let progress_path = format!("{}.progress", out_path.display());
    let progress = |s: &str| {
        if let Ok(mut f) = std::fs::File::create(&progress_path) {
            let _ = f.write_all(s.as_bytes());
        }
    };
    // generous limit: an attempt to allocate a peer-declared 4 GiB buffer aborts the child
    unsafe {
        let lim = libc::rlimit {
            rlim_cur: 3 << 30,
            rlim_max: 3 << 30,
        };
        libc::setrlimit(libc::RLIMIT_AS, &lim);
    }
    let mut rng = Rng::new(args.seed ^ 0xC0_4D_9E_55);
    let mut res = Res {
        evals: 0,
        counters: Default::default(),
        findings: vec![],
    };
    let thorough = args.tier == Tier::Thorough;

    // ---- 1. round trips around the threshold and up to the maximum ---------------------------
    progress("roundtrip");
    let mut sizes: Vec<usize> = vec![0, 1, 2, 3, 100, 512];
    sizes.extend(THRESHOLD - 6..THRESHOLD + 6);
    sizes.extend([2048, 4095, 4096, 65535, 65536, 65537, 100_000, 1 << 20]);
    sizes.extend([MAX_UNCOMPRESSED_LEN - 1, MAX_UNCOMPRESSED_LEN]);
    let random_sizes = if thorough { 3000 } else { 300 };
    for _ in 0..random_sizes {
        let s = match rng.below(4) {
            0 => rng.below(64) as usize,
            1 => THRESHOLD - 40 + rng.below(80) as usize,
            2 => rng.below(20_000) as usize,
            _ => rng.below(if thorough { 2_000_000 } else { 300_000 }) as usize,
        };
        sizes.push(s);
    }
    let mut flag_small_ok = 0u64;
    for (i, n) in sizes.iter().enumerate() {
        let reps = if i < 32 { 5 } else { 1 };
        for _ in 0..reps {
            let data = payload(&mut rng, *n);
            res.evals += 1;
            let frame = match guarded(|| compress(Bytes::from(data.clone()))) {
                Ok(f) => f,
                Err(msg) => {
                    res.finding("panic@compress", msg, json!({"len": n}));
                    continue;
                }
            };
            res.count("compress.roundtrip");
            // frames (flag+payload) of at most THRESHOLD bytes are sent uncompressed
            if n + 1 <= THRESHOLD {
                if frame.is_empty() || frame[0] & COMPRESS_FLAG != 0 || frame[1..] != data[..] {
                    res.finding(
                        "compress.small_frame_not_plain",
                        format!("payload of {n} bytes (<= threshold) must be sent as flag 0 + payload"),
                        json!({"len": n, "frame_head": hex(&frame[..frame.len().min(16)])}),
                    );
                } else {
                    flag_small_ok += 1;
                }
            } else if !frame.is_empty() && frame[0] & COMPRESS_FLAG != 0 {
                res.count("compress.frames_compressed");
            }
            match check_decompress(&mut res, &frame, "roundtrip") {
                Some(Ok(out)) => {
                    if out[..] != data[..] {
                        res.finding(
                            "compress.roundtrip_mismatch",
                            format!("decompress(compress(x)) != x for |x| = {n}"),
                            json!({"len": n, "x_head": hex(&data[..data.len().min(64)])}),
                        );
                    }
                }
                Some(Err(())) => {
                    res.finding(
                        "compress.roundtrip_rejected",
                        format!("decompress(compress(x)) is an error for |x| = {n} <= {MAX_UNCOMPRESSED_LEN}"),
                        json!({"len": n, "x_head": hex(&data[..data.len().min(64)])}),
                    );
                }
                None => {}
            }
            // a few valid compressed frames become seeds for mutation below
        }
    }
    res.counters
        .insert("compress.small_frames_plain".into(), flag_small_ok);

    // ---- 2. hostile frames ----------------------------------------------------------------------
    progress("hostile_frames");
    let hostile_n = if thorough { 400_000 } else { 20_000 };
    let seeds: Vec<Bytes> = (0..16)
        .map(|i| compress(Bytes::from(payload(&mut rng, 1100 + i * 700))))
        .collect();
    for i in 0..hostile_n {
        let frame: Vec<u8> = match rng.below(6) {
            0 => {
                // random bytes, flag forced
                let n = rng.below(80) as usize;
                let mut v = payload(&mut rng, n);
                if !v.is_empty() && rng.below(4) != 0 {
                    v[0] |= COMPRESS_FLAG;
                }
                v
            }
            1 => {
                // mutated valid compressed frame
                let mut v = seeds[rng.below(seeds.len() as u64) as usize].to_vec();
                for _ in 0..=rng.below(4) {
                    let p = rng.below(v.len() as u64) as usize;
                    v[p] = rng.next_u64() as u8;
                }
                v[0] |= COMPRESS_FLAG;
                v
            }
            2 => {
                // truncated / extended valid frame
                let mut v = seeds[rng.below(seeds.len() as u64) as usize].to_vec();
                if rng.below(2) == 0 {
                    v.truncate(rng.below(v.len() as u64) as usize + 1);
                } else {
                    let extra = rng.below(64) as usize;
                    v.extend(payload(&mut rng, extra));
                }
                v
            }
            3 => {
                // reserved flag bits set
                let mut v = seeds[rng.below(seeds.len() as u64) as usize].to_vec();
                v[0] = rng.next_u64() as u8;
                v
            }
            4 => {
                // snappy header declaring a length around the limit with a short body
                let declared = MAX_UNCOMPRESSED_LEN as u64 - 2 + rng.below(5);
                let mut v = vec![COMPRESS_FLAG];
                v.extend(varint(declared));
                let n = rng.below(40) as usize;
                v.extend(payload(&mut rng, n));
                v
            }
            _ => {
                // varint garbage: overlong, > u32, unterminated
                let mut v = vec![COMPRESS_FLAG];
                match rng.below(4) {
                    0 => v.extend(varint(rng.next_u64())),
                    1 => v.extend(varint(u32::MAX as u64 + rng.below(3))),
                    2 => v.extend(vec![0xff; rng.below(12) as usize + 1]),
                    _ => v.extend(varint((u32::MAX as u64).saturating_sub(rng.below(2)))),
                }
                let n = rng.below(24) as usize;
                v.extend(payload(&mut rng, n));
                v
            }
        };
        res.count("compress.hostile_frames");
        check_decompress(&mut res, &frame, "hostile");
        let _ = i;
    }
    // empty frame: documented error
    match check_decompress(&mut res, &[], "empty") {
        Some(Ok(_)) => res.finding(
            "decompress.empty_accepted",
            "decompress(empty) must be an error (network/src/tests/compress.rs)".into(),
            json!({}),
        ),
        _ => {}
    }

    // ---- 3. huge declared lengths must be rejected without allocating them ------------------
    progress("huge_declared");
    let rss0 = max_rss_kib();
    let t0 = Instant::now();
    let mut huge_ok = 0u64;
    for k in 0..2000u64 {
        let declared = match k % 5 {
            0 => MAX_UNCOMPRESSED_LEN as u64 + 1 + rng.below(1000),
            1 => 1u64 << (24 + rng.below(8)),
            2 => u32::MAX as u64,
            3 => u32::MAX as u64 - rng.below(1 << 20),
            _ => (1u64 << 31) + rng.below(1 << 20),
        };
        let mut v = vec![COMPRESS_FLAG];
        v.extend(varint(declared));
        let n = rng.below(64) as usize;
        v.extend(payload(&mut rng, n));
        res.count("compress.huge_declared");
        match check_decompress(&mut res, &v, "huge_declared") {
            Some(Ok(out)) => res.finding(
                "decompress.huge_accepted",
                format!("a frame declaring {declared} bytes was accepted ({} bytes out)", out.len()),
                json!({"frame_hex": hex(&v), "declared": declared}),
            ),
            Some(Err(())) => huge_ok += 1,
            None => {}
        }
    }
    let rss_growth_kib = max_rss_kib() - rss0;
    let huge_dt = t0.elapsed();
    if rss_growth_kib > 64 * 1024 {
        res.finding(
            "decompress.huge_allocated",
            format!("peak RSS grew by {rss_growth_kib} KiB while rejecting 2000 frames with huge declared lengths"),
            json!({"rss_growth_kib": rss_growth_kib}),
        );
    }
    if huge_dt.as_secs_f64() > 20.0 {
        res.finding(
            "slow@decompress.huge_declared",
            format!("rejecting 2000 huge-length frames took {huge_dt:?}"),
            json!({}),
        );
    }

    // ---- 4. the codec the node actually uses -------------------------------------------------
    progress("codec");
    let max_frame = 8 * 1024 * 1024 + 64;
    let mk = |compress: bool| {
        LengthDelimitedCodecWithCompress::new(
            compress,
            LengthDelimitedCodec::builder()
                .max_frame_length(max_frame)
                .new_codec(),
            ckb_network::ProtocolId::new(100),
        )
    };
    let codec_n = if thorough { 3000 } else { 300 };
    for i in 0..codec_n {
        let n = match i % 4 {
            0 => rng.below(64) as usize,
            1 => THRESHOLD - 8 + rng.below(16) as usize,
            2 => rng.below(40_000) as usize,
            _ => rng.below(600_000) as usize,
        };
        let data = payload(&mut rng, n);
        let enable = rng.below(4) != 0;
        res.evals += 1;
        let r = guarded(|| {
            let mut enc = mk(enable);
            let mut buf = BytesMut::new();
            enc.encode(Bytes::from(data.clone()), &mut buf).map(|_| buf)
        });
        let mut buf = match r {
            Ok(Ok(b)) => b,
            Ok(Err(_)) => {
                res.count("compress.codec_encode_err");
                continue;
            }
            Err(msg) => {
                res.finding("panic@codec.encode", msg, json!({"len": n}));
                continue;
            }
        };
        let r = guarded(|| {
            let mut dec = mk(enable);
            dec.decode(&mut buf)
        });
        res.count("compress.codec_roundtrip");
        match r {
            Ok(Ok(Some(out))) => {
                // a zero-length payload encodes to a 1-byte frame which the decoder refuses
                if out[..] != data[..] {
                    res.finding(
                        "codec.roundtrip_mismatch",
                        format!("decode(encode(x)) != x for |x| = {n}"),
                        json!({"len": n}),
                    );
                }
            }
            Ok(Ok(None)) => res.finding(
                "codec.roundtrip_incomplete",
                format!("decode(encode(x)) wants more data for |x| = {n}"),
                json!({"len": n}),
            ),
            Ok(Err(_)) => {
                if n == 0 {
                    res.count("compress.codec_empty_payload_rejected");
                } else {
                    res.finding(
                        "codec.roundtrip_rejected",
                        format!("decode(encode(x)) is an error for |x| = {n}"),
                        json!({"len": n, "x_head": hex(&data[..data.len().min(64)])}),
                    );
                }
            }
            Err(msg) => res.finding("panic@codec.decode", msg, json!({"len": n})),
        }
    }
    let codec_hostile = if thorough { 200_000 } else { 10_000 };
    for _ in 0..codec_hostile {
        // 4-byte big-endian length + body (flag + payload), hostile in every part
        let body: Vec<u8> = match rng.below(4) {
            0 => {
                let n = rng.below(40) as usize;
                payload(&mut rng, n)
            }
            1 => {
                let mut v = seeds[rng.below(seeds.len() as u64) as usize].to_vec();
                let p = rng.below(v.len() as u64) as usize;
                v[p] ^= 1 << rng.below(8);
                v
            }
            2 => {
                let mut v = vec![COMPRESS_FLAG | (rng.next_u64() as u8 & 0x7f)];
                v.extend(varint(match rng.below(3) {
                    0 => MAX_UNCOMPRESSED_LEN as u64 + 1,
                    1 => u32::MAX as u64,
                    _ => rng.next_u64(),
                }));
                let n = rng.below(16) as usize;
                v.extend(payload(&mut rng, n));
                v
            }
            _ => vec![rng.next_u64() as u8],
        };
        let declared = match rng.below(5) {
            0 => body.len() as u32 + 1,
            1 => 0,
            2 => u32::MAX,
            _ => body.len() as u32,
        };
        let mut buf = BytesMut::new();
        buf.extend_from_slice(&declared.to_be_bytes());
        buf.extend_from_slice(&body);
        res.evals += 1;
        res.count("compress.codec_hostile");
        let r = guarded(|| {
            let mut dec = mk(true);
            dec.decode(&mut buf)
        });
        match r {
            Ok(Ok(Some(out))) => {
                if out.len() > MAX_UNCOMPRESSED_LEN {
                    res.finding(
                        "codec.exceeds_max",
                        format!("codec decoded {} bytes > {MAX_UNCOMPRESSED_LEN}", out.len()),
                        json!({"body_hex": hex_witness(&body), "declared": declared}),
                    );
                }
            }
            Ok(_) => {}
            Err(msg) => res.finding(
                "panic@codec.decode",
                msg,
                json!({"body_hex": hex_witness(&body), "declared": declared}),
            ),
        }
    }
    progress("done");
    let notes = json!({
        "max_uncompressed_len": MAX_UNCOMPRESSED_LEN,
        "threshold": THRESHOLD,
        "huge_declared_rejected": huge_ok,
        "huge_declared_rss_growth_kib": rss_growth_kib,
        "huge_declared_wall_ms": huge_dt.as_millis() as u64,
        "observation": "payloads > 8 MiB are compressed by compress() but refused by decompress(): the sender-side frame limit is what keeps this consistent (not asserted)",
    });
    let v = json!({"evals": res.evals, "counters": res.counters, "findings": res.findings, "notes": notes});
    std::fs::write(&out_path, serde_json::to_string(&v).unwrap()).expect("write compress result");
    0
}
