//! Mode `hostile` -> property C16 parts (a) decoders/accessors on hostile bytes and
//! (b) network frame (de)compression. Evidence shard: /verif/evidence/C16.part-codec.json.
//!
//! All hostile inputs are processed in CHILD processes (`vcodec child ...`) so that an abort
//! (stack overflow, allocation failure, `process::abort`) is observed by the parent, bisected
//! to the input and reported, instead of killing the engine.

use crate::util::*;
use crate::walk::{self, Ctx, Out};
use serde_json::{Value, json};
use std::collections::BTreeMap;
use std::io::Write;
use std::path::{Path, PathBuf};
use std::process::Command;
use std::time::{Duration, Instant};
use vbase::{Args, Report, Scratch, Tier};

const SLOW_US: u128 = 2_000_000;
const CHILD_TIMEOUT: Duration = Duration::from_secs(600);

pub const RULE: &str = "for every byte string: Reader::verify / Entity::from_slice / \
from_compatible_slice either reject or yield a value on which Display/Debug, to_entity, \
to_enum, view conversions, hash functions, serialized sizes, context-free verifiers and helper \
accessors terminate without panic/abort and in bounded time; decompress rejects or stays within \
the 8 MiB bound; decompress(compress(x)) == x";

// ---------------------------------------------------------------------------------------------
// child side
// ---------------------------------------------------------------------------------------------

fn limit_address_space(bytes: u64) {
    unsafe {
        let lim = libc::rlimit {
            rlim_cur: bytes,
            rlim_max: bytes,
        };
        libc::setrlimit(libc::RLIMIT_AS, &lim);
        // no core files for deliberately provoked crashes
        let z = libc::rlimit {
            rlim_cur: 0,
            rlim_max: 0,
        };
        libc::setrlimit(libc::RLIMIT_CORE, &z);
    }
}

/// Decode + walk one hostile case. Returns (strict_ok, compat_ok).
pub fn run_case(ctx: &Ctx, ty: &str, bytes: &[u8], out: &mut Out) -> (bool, bool) {
    // self-test hooks of the harness (never set in normal runs): prove that an abort / a slow
    // input inside a child is detected, bisected and reported
    if let Ok(t) = std::env::var("VCODEC_SELFTEST_ABORT") {
        if t == ty && bytes.len() % 7 == 3 {
            std::process::abort();
        }
    }
    if let Ok(t) = std::env::var("VCODEC_SELFTEST_SLOW") {
        if t == ty && bytes.len() % 97 == 3 {
            std::thread::sleep(Duration::from_millis(2100));
        }
    }
    let mut verdict = [false, false];
    for (i, compat) in [false, true].into_iter().enumerate() {
        let step = if compat { "verify_compat" } else { "verify_strict" };
        out.steps += 1;
        match walk::verify(ty, bytes, compat) {
            Some(Ok(v)) => verdict[i] = v,
            Some(Err(msg)) => out.findings.push(Finding::new(format!("panic@{ty}.{step}"), msg)),
            None => out
                .findings
                .push(Finding::new(format!("harness.unknown_type@{ty}"), "no dispatch")),
        }
    }
    let (strict_ok, compat_ok) = (verdict[0], verdict[1]);
    if strict_ok {
        walk::walk(ctx, ty, bytes, false, true, out, 0);
    } else if compat_ok {
        walk::walk(ctx, ty, bytes, true, false, out, 0);
    }
    (strict_ok, compat_ok)
}

pub fn child_main(args: &Args) -> i32 {
    install_panic_capture();
    limit_address_space(6 << 30);
    let cases_path = PathBuf::from(args.get_str("cases").expect("cases="));
    let out_path = PathBuf::from(args.get_str("out").expect("out="));
    let skip = args.get_u64("skip", 0) as usize;
    let only = args.get_str("only").and_then(|s| s.parse::<u64>().ok());
    let cases = match read_cases(&cases_path) {
        Ok(c) => c,
        Err(e) => {
            eprintln!("child: {e}");
            return 3;
        }
    };
    let mut f = std::fs::File::create(&out_path).expect("child out");
    let ctx = Ctx::new();
    let mut st = Stats::default();
    for case in cases.iter().skip(skip) {
        if let Some(o) = only {
            if case.id != o {
                continue;
            }
        }
        let _ = writeln!(f, "B {}", case.id);
        let t0 = Instant::now();
        let mut out = Out::new();
        let (s, c) = run_case(&ctx, &case.ty, &case.bytes, &mut out);
        let dt = t0.elapsed().as_micros();
        st.eval();
        st.count("cases");
        st.count(if s {
            "accept_strict"
        } else if c {
            "accept_compat_only"
        } else {
            "reject"
        });
        st.count(&format!("kind.{}", case.kind.replace("+2", "").replace('+', "_")));
        st.count_n("steps", out.steps);
        st.count_n("steps_skipped_by_node_guard", out.skipped_guard);
        *st.per_type.entry(case.ty.clone()).or_insert(0) += 1;
        st.distinct
            .push(vbase::fnv1a(&[case.ty.as_bytes(), &[0], &case.bytes].concat()));
        for fd in out.findings {
            let _ = writeln!(
                f,
                "P {}\t{}\t{}",
                case.id,
                fd.sig,
                serde_json::to_string(&fd.detail).unwrap()
            );
        }
        if dt > SLOW_US {
            let _ = writeln!(f, "T {} {}", case.id, dt);
        }
        let _ = writeln!(f, "E {}", case.id);
    }
    let mut distinct = st.distinct.clone();
    distinct.sort_unstable();
    distinct.dedup();
    let _ = writeln!(
        f,
        "S {}",
        json!({"evals": st.evals, "counters": st.counters, "per_type": st.per_type,
               "distinct": distinct.len()})
    );
    0
}

// ---------------------------------------------------------------------------------------------
// parent side
// ---------------------------------------------------------------------------------------------

pub struct ChildResult {
    pub summary: Option<Value>,
    pub panics: Vec<(u64, String, String)>,
    pub slow: Vec<(u64, u128)>,
    pub last_begun: Option<u64>,
    pub last_ended: Option<u64>,
    pub status: String,
    pub ok: bool,
    pub timed_out: bool,
}

pub fn spawn_child(cases: &Path, out: &Path, skip: usize, only: Option<u64>) -> ChildResult {
    let exe = std::env::current_exe().expect("current_exe");
    let mut cmd = Command::new(exe);
    cmd.arg("child")
        .arg(format!("cases={}", cases.display()))
        .arg(format!("out={}", out.display()))
        .arg(format!("skip={skip}"));
    if let Some(o) = only {
        cmd.arg(format!("only={o}"));
    }
    cmd.stdout(std::process::Stdio::null());
    cmd.stderr(std::process::Stdio::null());
    let _ = std::fs::remove_file(out);
    let mut child = cmd.spawn().expect("spawn child");
    let t0 = Instant::now();
    let mut timed_out = false;
    let status = loop {
        match child.try_wait() {
            Ok(Some(s)) => break s,
            Ok(None) => {
                if t0.elapsed() > CHILD_TIMEOUT {
                    let _ = child.kill();
                    timed_out = true;
                    break child.wait().expect("wait");
                }
                std::thread::sleep(Duration::from_millis(5));
            }
            Err(e) => panic!("wait child: {e}"),
        }
    };
    let text = std::fs::read_to_string(out).unwrap_or_default();
    let mut r = ChildResult {
        summary: None,
        panics: vec![],
        slow: vec![],
        last_begun: None,
        last_ended: None,
        status: format!("{status}"),
        ok: status.success(),
        timed_out,
    };
    for line in text.lines() {
        let (tag, rest) = line.split_at(line.len().min(2));
        match tag {
            "B " => r.last_begun = rest.trim().parse().ok(),
            "E " => r.last_ended = rest.trim().parse().ok(),
            "P " => {
                let mut it = rest.splitn(3, '\t');
                let id = it.next().and_then(|s| s.parse().ok()).unwrap_or(u64::MAX);
                let sig = it.next().unwrap_or("?").to_string();
                let detail: String = it
                    .next()
                    .and_then(|s| serde_json::from_str(s).ok())
                    .unwrap_or_default();
                r.panics.push((id, sig, detail));
            }
            "T " => {
                let mut it = rest.split(' ');
                let id = it.next().and_then(|s| s.parse().ok()).unwrap_or(u64::MAX);
                let us = it.next().and_then(|s| s.trim().parse().ok()).unwrap_or(0);
                r.slow.push((id, us));
            }
            "S " => r.summary = serde_json::from_str(rest).ok(),
            _ => {}
        }
    }
    r
}

fn merge_summary(st: &mut Stats, s: &Value) {
    st.evals += s["evals"].as_u64().unwrap_or(0);
    if let Some(c) = s["counters"].as_object() {
        for (k, v) in c {
            st.count_n(k, v.as_u64().unwrap_or(0));
        }
    }
    if let Some(c) = s["per_type"].as_object() {
        for (k, v) in c {
            *st.per_type.entry(k.clone()).or_insert(0) += v.as_u64().unwrap_or(0);
        }
    }
    st.count_n("distinct_in_children", s["distinct"].as_u64().unwrap_or(0));
}

/// Run one case file through children, bisecting crashes.
fn run_case_file(cases_path: &Path, scratch: &Path, tag: &str, gen_info: &Value, st: &mut Stats) {
    let cases = match read_cases(cases_path) {
        Ok(c) => c,
        Err(e) => {
            st.problem(format!("harness: {e}"));
            return;
        }
    };
    let by_id: BTreeMap<u64, usize> = cases.iter().enumerate().map(|(i, c)| (c.id, i)).collect();
    let witness = |id: u64| -> Value {
        match by_id.get(&id) {
            Some(&i) => {
                let c = &cases[i];
                json!({"type": c.ty, "mutation": c.kind, "input_hex": hex_witness(&c.bytes),
                       "input_len": c.bytes.len(), "case_id": c.id, "generator": gen_info})
            }
            None => json!({"case_id": id, "generator": gen_info}),
        }
    };
    // evidence: a few of the hostile inputs of this file, written out
    for c in cases.iter().filter(|c| c.kind != "valid" && c.bytes.len() <= 160).take(2) {
        if st.samples.len() < 6 {
            st.samples.push(json!({"type": c.ty, "mutation": c.kind, "input_hex": hex_witness(&c.bytes), "input_len": c.bytes.len()}));
        }
    }
    let mut skip = 0usize;
    let mut round = 0;
    loop {
        round += 1;
        let out = scratch.join(format!("{tag}.r{round}.out"));
        let r = spawn_child(cases_path, &out, skip, None);
        st.count("children_spawned");
        for (id, sig, detail) in &r.panics {
            st.finding(Finding::new(sig.clone(), detail.clone()), witness(*id));
        }
        for (id, us) in &r.slow {
            // reproduce 3 times in fresh children
            let mut slow_again = 0;
            let mut times = vec![*us as u64];
            for k in 0..3 {
                let o2 = scratch.join(format!("{tag}.slow{k}.out"));
                let rr = spawn_child(cases_path, &o2, 0, Some(*id));
                st.count("children_spawned");
                if let Some((_, t)) = rr.slow.first() {
                    slow_again += 1;
                    times.push(*t as u64);
                }
                let _ = std::fs::remove_file(&o2);
            }
            let ty = by_id.get(id).map(|&i| cases[i].ty.clone()).unwrap_or_default();
            if slow_again == 3 {
                let mut w = witness(*id);
                w["micros"] = json!(times);
                st.finding(
                    Finding::new(
                        format!("slow@{ty}"),
                        format!("decode+walk of one input took > 2 s, reproduced 3 times: {times:?} us"),
                    ),
                    w,
                );
            } else {
                st.problem(format!(
                    "one {ty} input took {us} us once but only {slow_again}/3 reruns were slow"
                ));
            }
        }
        if r.ok && r.summary.is_some() {
            merge_summary(st, r.summary.as_ref().unwrap());
            let _ = std::fs::remove_file(&out);
            return;
        }
        // crashed / killed
        let _ = std::fs::remove_file(&out);
        if r.timed_out {
            st.problem(format!("child timed out after {CHILD_TIMEOUT:?} ({tag})"));
            return;
        }
        let culprit = match (r.last_begun, r.last_ended) {
            (Some(b), e) if e != Some(b) => b,
            _ => {
                st.problem(format!(
                    "child died ({}) outside of a case ({tag}); cannot attribute",
                    r.status
                ));
                return;
            }
        };
        // confirm in isolation
        let o2 = scratch.join(format!("{tag}.confirm.out"));
        let rr = spawn_child(cases_path, &o2, 0, Some(culprit));
        st.count("children_spawned");
        let _ = std::fs::remove_file(&o2);
        let ty = by_id.get(&culprit).map(|&i| cases[i].ty.clone()).unwrap_or_default();
        if !rr.ok {
            let mut w = witness(culprit);
            w["exit_status"] = json!(rr.status);
            st.finding(
                Finding::new(
                    format!("abort@{ty}"),
                    format!("decoding/walking the input kills the process ({})", rr.status),
                ),
                w,
            );
        } else {
            st.problem(format!(
                "child died ({}) at a {ty} case but the input alone does not reproduce it",
                r.status
            ));
        }
        // account for what the dead child did, then continue after the culprit
        st.count("children_crashed");
        match by_id.get(&culprit) {
            Some(&i) => skip = i + 1,
            None => return,
        }
        if skip >= cases.len() || round > 50 {
            if round > 50 {
                st.problem("too many child crashes in one case file".into());
            }
            return;
        }
    }
}

pub fn run(args: &Args) -> i32 {
    let mut report = Report::new("C16", "exploration", args, RULE);
    report.assume("rustc panics unwind in the harness profile (catch_unwind observes them); aborts are observed as child deaths");
    report.assume("the node-side guards replicated before extension()/into_view()/JSON conversions are: <=1 extra field on Block/CompactBlock, check_data");
    report.assume("MAX_UNCOMPRESSED_LEN = 1<<23 (private constant in network/src/compress.rs)");
    let out_path = args
        .get_str("out")
        .map(PathBuf::from)
        .unwrap_or_else(|| vbase::verif_root().join("evidence").join("C16.part-codec.json"));
    let t_start = Instant::now();

    match check_type_list() {
        Ok(n) => report.note("schema_types", json!(n)),
        Err(e) => {
            report.inconclusive(&format!("type coverage: {e}"));
            let code = report.finish(Some(&out_path));
            println!("[C16.part-codec] INCONCLUSIVE type list");
            return code;
        }
    }
    let scratch = Scratch::new("vcodec-hostile");
    let sanitizers = args.tier == Tier::Thorough && args.get_u64("sanitizers", 1) == 1;
    // Miri runs in the background (a handful of interpreter processes) during the main workload
    let miri = if sanitizers {
        let seed = args.seed;
        let n = args.get_u64("miri_inputs", 400) as usize;
        let to = args.get_u64("miri_timeout_s", 900);
        Some(std::thread::spawn(move || crate::sanitize::miri_job(seed, n, 4, to)))
    } else {
        None
    };
    let shards = args.get_u64("shards", args.tier.pick(8, 16));
    let total = args.get_u64("n", args.tier.pick(20_000, 1_000_000));
    let chunk = args.get_u64("chunk", args.tier.pick(2_500, 12_500));
    let per_shard = total.div_ceil(shards);
    let chunks_per_shard = per_shard.div_ceil(chunk);
    let big = args.tier.pick(60_000u64, 400_000u64);
    let deadline = t_start + Duration::from_secs(args.get_u64("budget_s", args.tier.pick(70, 300)));
    let sd = schema_dir();

    let mut stats = Stats::default();
    let results: Vec<Stats> = std::thread::scope(|s| {
        let mut hs = vec![];
        for shard in 0..shards {
            let scratch_path = scratch.path.clone();
            let sd = sd.clone();
            let seed = args.seed;
            hs.push(s.spawn(move || {
                let mut st = Stats::default();
                for c in 0..chunks_per_shard {
                    if Instant::now() > deadline {
                        st.count("chunks_skipped_deadline");
                        continue;
                    }
                    let gseed = mix(seed, shard + 1, c + 1);
                    let tag = format!("h{shard}_{c}");
                    let cases = scratch_path.join(format!("{tag}.cases"));
                    let gen_info = json!({"cmd": "molecule.py gen", "mode": "hostile", "seed": gseed,
                                          "count": chunk, "big": big});
                    match python(&[
                        "gen",
                        sd.to_str().unwrap(),
                        "--mode",
                        "hostile",
                        "--seed",
                        &gseed.to_string(),
                        "--count",
                        &chunk.to_string(),
                        "--big",
                        &big.to_string(),
                        "--out",
                        cases.to_str().unwrap(),
                    ]) {
                        Ok(_) => {}
                        Err(e) => {
                            st.problem(format!("harness: {e}"));
                            continue;
                        }
                    }
                    run_case_file(&cases, &scratch_path, &tag, &gen_info, &mut st);
                    let _ = std::fs::remove_file(&cases);
                }
                st
            }));
        }
        hs.into_iter().map(|h| h.join().expect("shard thread")).collect()
    });
    for r in results {
        stats.merge(r);
    }

    // part (b): compression, in a child as well (allocation aborts must not kill the engine)
    {
        let out = scratch.join("compress.out");
        let exe = std::env::current_exe().unwrap();
        let status = Command::new(exe)
            .arg("compress-child")
            .arg("--seed")
            .arg(args.seed.to_string())
            .arg("--tier")
            .arg(args.tier.as_str())
            .arg(format!("out={}", out.display()))
            .status();
        match status {
            Ok(s) if s.success() => match std::fs::read_to_string(&out)
                .ok()
                .and_then(|t| serde_json::from_str::<Value>(&t).ok())
            {
                Some(v) => {
                    stats.evals += v["evals"].as_u64().unwrap_or(0);
                    if let Some(c) = v["counters"].as_object() {
                        for (k, x) in c {
                            stats.count_n(k, x.as_u64().unwrap_or(0));
                        }
                    }
                    if let Some(fs) = v["findings"].as_array() {
                        for f in fs {
                            stats.finding(
                                Finding::new(
                                    f["sig"].as_str().unwrap_or("?"),
                                    f["detail"].as_str().unwrap_or(""),
                                ),
                                f["witness"].clone(),
                            );
                        }
                    }
                    report.note("compress", v["notes"].clone());
                }
                None => stats.problem("compress child wrote no result".into()),
            },
            Ok(s) => {
                stats.finding(
                    Finding::new(
                        "abort@compress",
                        format!("the compression child died: {s} (see compress.progress)"),
                    ),
                    json!({"progress": std::fs::read_to_string(scratch.join("compress.out.progress")).unwrap_or_default()}),
                );
            }
            Err(e) => stats.problem(format!("spawn compress child: {e}")),
        }
    }

    // thorough: sanitizer passes (failures of the infrastructure are notes, never violations)
    if sanitizers {
        crate::sanitize::run_fuzz(args, &mut report, &mut stats);
    }
    if let Some(h) = miri {
        match h.join() {
            Ok(r) => crate::sanitize::merge_miri(r, &mut report, &mut stats),
            Err(_) => stats.problem("miri job thread panicked".into()),
        }
    }

    let distinct_children = stats.counters.remove("distinct_in_children").unwrap_or(0);
    let types_seen = stats.per_type.len();
    stats.into_report(&mut report);
    report.add_distinct_count(distinct_children);
    report.note("types_with_cases", json!(types_seen));
    report.note(
        "part",
        json!("C16 (a) decoders/accessors + (b) compression; (c) reconstruct_block is merged by another engine"),
    );
    if types_seen < crate::types::ALL_TYPES.len() {
        report.inconclusive(&format!(
            "only {types_seen} of {} schema types received hostile cases",
            crate::types::ALL_TYPES.len()
        ));
    }
    let min_cases = args.get_u64("min_cases", total / 2);
    report.require("cases", min_cases);
    report.require("accept_strict", min_cases / 20);
    report.require("accept_compat_only", 20);
    report.require("reject", min_cases / 20);
    report.require("compress.roundtrip", 100);
    report.require("compress.hostile_frames", 1000);
    let code = report.finish(Some(&out_path));
    println!(
        "[C16.part-codec] {} cases={} accept_strict={} compat_only={} reject={} steps={} children={} violations={} inconclusive={} wall={:.1}s exit={}",
        args.tier.as_str(),
        report.counter("cases"),
        report.counter("accept_strict"),
        report.counter("accept_compat_only"),
        report.counter("reject"),
        report.counter("steps"),
        report.counter("children_spawned"),
        report.violations.len(),
        report.inconclusive.len(),
        t_start.elapsed().as_secs_f64(),
        code
    );
    for v in &report.violations {
        println!("  finding: {} :: {}", v.signature, v.detail);
    }
    for r in &report.inconclusive {
        println!("  inconclusive: {r}");
    }
    code
}
