//! Shared plumbing: panic capture, findings, case files, python oracle invocation.

use serde_json::{Value, json};
use std::cell::RefCell;
use std::collections::BTreeMap;
use std::path::{Path, PathBuf};
use std::process::Command;

pub const SCHEMA_DIR: &str = "util/gen-types/schemas";

/// Root of the repository under test. The harness crate lives at <X>/harness/vcodec and the
/// path dependencies point either to /repo or to <scratch>/repo; `VERIF_REPO` overrides.
pub fn repo_root() -> PathBuf {
    if let Ok(p) = std::env::var("VERIF_REPO") {
        return PathBuf::from(p);
    }
    // scratch layout: <dir>/harness/vcodec next to <dir>/repo
    let manifest = PathBuf::from(env!("CARGO_MANIFEST_DIR"));
    if let Some(dir) = manifest.parent().and_then(|p| p.parent()) {
        let cand = dir.join("repo");
        if cand.join(SCHEMA_DIR).is_dir() && dir != Path::new("/verif") {
            return cand;
        }
    }
    PathBuf::from("/repo")
}

pub fn schema_dir() -> PathBuf {
    repo_root().join(SCHEMA_DIR)
}

pub fn oracle_py() -> PathBuf {
    if let Ok(p) = std::env::var("VERIF_ORACLES") {
        return PathBuf::from(p).join("molecule.py");
    }
    PathBuf::from("/verif/oracles/molecule.py")
}

thread_local! {
    static LAST_PANIC: RefCell<Option<String>> = const { RefCell::new(None) };
}

/// Silence the default hook and remember message + location per thread.
pub fn install_panic_capture() {
    std::panic::set_hook(Box::new(|info| {
        let msg = if let Some(s) = info.payload().downcast_ref::<&str>() {
            s.to_string()
        } else if let Some(s) = info.payload().downcast_ref::<String>() {
            s.clone()
        } else {
            "<non-string panic>".to_string()
        };
        let loc = info
            .location()
            .map(|l| format!("{}:{}", l.file(), l.line()))
            .unwrap_or_default();
        let mut m = msg;
        if m.len() > 300 {
            let mut cut = 300;
            while !m.is_char_boundary(cut) {
                cut -= 1;
            }
            m.truncate(cut);
            m.push_str("...");
        }
        LAST_PANIC.with(|p| *p.borrow_mut() = Some(format!("{m} @ {loc}")));
    }));
}

/// Run `f`, turning a panic into `Err(message @ location)`.
pub fn guarded<T>(f: impl FnOnce() -> T) -> Result<T, String> {
    match std::panic::catch_unwind(std::panic::AssertUnwindSafe(f)) {
        Ok(v) => Ok(v),
        Err(_) => Err(LAST_PANIC
            .with(|p| p.borrow_mut().take())
            .unwrap_or_else(|| "<panic>".to_string())),
    }
}

/// One oracle failure (becomes `report.violation`).
#[derive(Clone, Debug)]
pub struct Finding {
    pub sig: String,
    pub detail: String,
    pub extra: Value,
}

impl Finding {
    pub fn new(sig: impl Into<String>, detail: impl Into<String>) -> Finding {
        Finding {
            sig: sig.into(),
            detail: detail.into(),
            extra: Value::Null,
        }
    }
    pub fn with(mut self, extra: Value) -> Finding {
        self.extra = extra;
        self
    }
}

/// Per-worker statistics merged into the report at the end.
#[derive(Default)]
pub struct Stats {
    pub evals: u64,
    pub counters: BTreeMap<String, u64>,
    pub per_type: BTreeMap<String, u64>,
    pub findings: Vec<(Finding, Value)>,
    pub finding_counts: BTreeMap<String, u64>,
    pub distinct: Vec<u64>,
    pub samples: Vec<Value>,
    pub problems: Vec<String>,
}

impl Stats {
    pub fn count(&mut self, k: &str) {
        *self.counters.entry(k.to_string()).or_insert(0) += 1;
    }
    pub fn count_n(&mut self, k: &str, n: u64) {
        *self.counters.entry(k.to_string()).or_insert(0) += n;
    }
    pub fn eval(&mut self) {
        self.evals += 1;
    }
    pub fn finding(&mut self, f: Finding, witness: Value) {
        let c = self.finding_counts.entry(f.sig.clone()).or_insert(0);
        *c += 1;
        if *c == 1 {
            self.findings.push((f, witness));
        }
    }
    pub fn problem(&mut self, s: String) {
        if self.problems.len() < 20 && !self.problems.contains(&s) {
            self.problems.push(s);
        }
    }
    pub fn merge(&mut self, o: Stats) {
        self.evals += o.evals;
        for (k, v) in o.counters {
            *self.counters.entry(k).or_insert(0) += v;
        }
        for (k, v) in o.per_type {
            *self.per_type.entry(k).or_insert(0) += v;
        }
        for (f, w) in o.findings {
            if !self.findings.iter().any(|(x, _)| x.sig == f.sig) {
                self.findings.push((f, w));
            }
        }
        for (k, v) in o.finding_counts {
            *self.finding_counts.entry(k).or_insert(0) += v;
        }
        self.distinct.extend(o.distinct);
        for s in o.samples {
            if self.samples.len() < 6 {
                self.samples.push(s);
            }
        }
        for p in o.problems {
            self.problem(p);
        }
    }
    pub fn into_report(self, report: &mut vbase::Report) {
        report.evals(self.evals);
        for (k, v) in &self.counters {
            report.count_n(k, *v);
        }
        for d in &self.distinct {
            report.distinct(*d);
        }
        for s in self.samples {
            report.sample(s);
        }
        for (f, w) in self.findings {
            let n = self.finding_counts.get(&f.sig).copied().unwrap_or(1);
            let mut wit = w;
            if let Some(o) = wit.as_object_mut() {
                if !f.extra.is_null() {
                    o.insert("extra".into(), f.extra.clone());
                }
            }
            report.violation(&f.sig, f.detail.clone(), wit);
            if n > 1 {
                report.count_n(&format!("violation::{}", f.sig), n - 1);
            }
        }
        for p in self.problems {
            report.inconclusive(&p);
        }
        report.note(
            "values_per_type",
            json!(self.per_type),
        );
    }
}

/// One generated case.
pub struct Case {
    pub id: u64,
    pub ty: String,
    pub kind: String,
    pub strict: Option<bool>,
    pub compat: Option<bool>,
    pub base: Option<u64>,
    pub bytes: Vec<u8>,
}

pub fn unhex(s: &str) -> Option<Vec<u8>> {
    if s == "-" {
        return Some(vec![]);
    }
    if s.len() % 2 != 0 {
        return None;
    }
    let b = s.as_bytes();
    let mut out = Vec::with_capacity(b.len() / 2);
    let nib = |c: u8| -> Option<u8> {
        match c {
            b'0'..=b'9' => Some(c - b'0'),
            b'a'..=b'f' => Some(c - b'a' + 10),
            b'A'..=b'F' => Some(c - b'A' + 10),
            _ => None,
        }
    };
    for i in (0..b.len()).step_by(2) {
        out.push(nib(b[i])? << 4 | nib(b[i + 1])?);
    }
    Some(out)
}

pub fn hex(b: &[u8]) -> String {
    const T: &[u8; 16] = b"0123456789abcdef";
    let mut s = Vec::with_capacity(b.len() * 2);
    for x in b {
        s.push(T[(x >> 4) as usize]);
        s.push(T[(x & 15) as usize]);
    }
    String::from_utf8(s).unwrap()
}

/// Hex for witnesses: complete if small, else head + length (the replay file also records the
/// generator seed/shard so the full input can be regenerated).
pub fn hex_witness(b: &[u8]) -> Value {
    if b.len() <= 4096 {
        json!(hex(b))
    } else {
        json!({"len": b.len(), "head": hex(&b[..2048]), "fnv1a": format!("{:016x}", vbase::fnv1a(b))})
    }
}

pub fn parse_case_line(line: &str) -> Option<Case> {
    if line.starts_with('#') || line.is_empty() {
        return None;
    }
    let mut it = line.split(' ');
    let id = it.next()?.parse().ok()?;
    let ty = it.next()?.to_string();
    let kind = it.next()?.to_string();
    let lab = |s: &str| match s {
        "1" => Some(true),
        "0" => Some(false),
        _ => None,
    };
    let strict = lab(it.next()?);
    let compat = lab(it.next()?);
    let base = it.next()?.parse().ok();
    let bytes = unhex(it.next()?.trim())?;
    Some(Case {
        id,
        ty,
        kind,
        strict,
        compat,
        base,
        bytes,
    })
}

/// Reads a case file; returns (cases, complete) where complete = the `# end N` trailer matched.
pub fn read_cases(path: &Path) -> Result<Vec<Case>, String> {
    let text = std::fs::read_to_string(path).map_err(|e| format!("read {path:?}: {e}"))?;
    let mut cases = vec![];
    let mut end = None;
    for line in text.lines() {
        if let Some(rest) = line.strip_prefix("# end ") {
            end = rest.trim().parse::<usize>().ok();
            continue;
        }
        match parse_case_line(line) {
            Some(c) => cases.push(c),
            None => return Err(format!("unparsable case line: {}", &line[..line.len().min(80)])),
        }
    }
    if end != Some(cases.len()) {
        return Err(format!(
            "case file {path:?} incomplete: trailer {end:?}, parsed {}",
            cases.len()
        ));
    }
    Ok(cases)
}

/// Run the python oracle; returns stdout.
pub fn python(args: &[&str]) -> Result<String, String> {
    let py = oracle_py();
    let out = Command::new("python3")
        .arg(&py)
        .args(args)
        .output()
        .map_err(|e| format!("spawn python3: {e}"))?;
    if !out.status.success() {
        return Err(format!(
            "python oracle {:?} failed: {} / {}",
            args.first(),
            out.status,
            String::from_utf8_lossy(&out.stderr)
                .lines()
                .rev()
                .take(3)
                .collect::<Vec<_>>()
                .join(" | ")
        ));
    }
    Ok(String::from_utf8_lossy(&out.stdout).to_string())
}

/// Coverage check: every schema type must be in the Rust dispatch list (and vice versa).
pub fn check_type_list() -> Result<usize, String> {
    let sd = schema_dir();
    let out = python(&["types", sd.to_str().unwrap()])?;
    let py: Vec<String> = out
        .lines()
        .filter_map(|l| l.split(' ').next().map(|s| s.to_string()))
        .filter(|s| !s.is_empty())
        .collect();
    let rs: Vec<&str> = crate::types::ALL_TYPES.to_vec();
    let missing: Vec<&String> = py.iter().filter(|t| !rs.contains(&t.as_str())).collect();
    let extra: Vec<&&str> = rs.iter().filter(|t| !py.iter().any(|p| p == **t)).collect();
    if !missing.is_empty() || !extra.is_empty() {
        return Err(format!(
            "type list mismatch: schema types missing in the Rust dispatch list: {missing:?}; \
             Rust types not in the schemas: {extra:?}"
        ));
    }
    Ok(py.len())
}

pub fn mix(seed: u64, a: u64, b: u64) -> u64 {
    let mut x = seed
        .wrapping_mul(0x9E37_79B9_7F4A_7C15)
        .wrapping_add(a.wrapping_mul(0xBF58_476D_1CE4_E5B9))
        .wrapping_add(b.wrapping_mul(0x94D0_49BB_1331_11EB));
    x ^= x >> 31;
    x = x.wrapping_mul(0xD6E8_FEB8_6659_FD93);
    x ^= x >> 29;
    x & 0x7fff_ffff_ffff
}
