//! Walk EVERYTHING reachable from a decoded packed value: generic molecule API (per type, via
//! the type-list macro) and the hand-written extensions (hashes, views, verifiers, helpers).
//! Every step runs under `catch_unwind`; a panic becomes the finding `panic@<Type>.<step>`.

use crate::util::{Finding, guarded};
use ckb_chain_spec::consensus::{Consensus, ConsensusBuilder};
use ckb_jsonrpc_types as json;
use ckb_types::{
    bytes::Bytes,
    core::{self, Capacity},
    packed,
    prelude::*,
    utilities::merkle_mountain_range::{HeaderDigest as _, VerifiableHeader},
};
use ckb_verification::{BlockVerifier, NonContextualBlockTxsVerifier, NonContextualTransactionVerifier};
use ckb_verification_traits::Verifier;
use std::fmt::{Debug, Display};

pub struct Ctx {
    pub consensus: Consensus,
}

impl Ctx {
    pub fn new() -> Ctx {
        Ctx {
            consensus: ConsensusBuilder::default().build(),
        }
    }
}

/// Collects findings and counts executed steps.
pub struct Out {
    pub findings: Vec<Finding>,
    pub steps: u64,
    pub skipped_guard: u64,
}

impl Out {
    pub fn new() -> Out {
        Out {
            findings: vec![],
            steps: 0,
            skipped_guard: 0,
        }
    }
    /// Run one step; a panic is recorded, the value is returned otherwise.
    pub fn step<T>(&mut self, ty: &str, name: &str, f: impl FnOnce() -> T) -> Option<T> {
        self.steps += 1;
        match guarded(f) {
            Ok(v) => Some(v),
            Err(msg) => {
                self.findings
                    .push(Finding::new(format!("panic@{ty}.{name}"), msg));
                None
            }
        }
    }
    pub fn fail(&mut self, sig: String, detail: String) {
        self.findings.push(Finding::new(sig, detail));
    }
}

// ---------------------------------------------------------------------------------------------
// generic part
// ---------------------------------------------------------------------------------------------

fn generic_t<'r, E, R>(ty: &str, bytes: &'r [u8], compat: bool, strict_ok: bool, show: bool, out: &mut Out)
where
    E: Entity + Display,
    R: Reader<'r, Entity = E> + Display + Debug,
{
    let reader = R::new_unchecked(bytes);
    // `show == false`: a nested item already panicked in its own Display; the outer Display
    // would only repeat that panic under another name
    let shown = show && out.step(ty, "display", || format!("{reader}").len()).is_some();
    out.step(ty, "debug", || format!("{reader:?}").len());
    let ent = out.step(ty, "to_entity", || reader.to_entity());
    if let Some(ent) = ent {
        if ent.as_slice() != bytes {
            out.fail(
                format!("to_entity_mismatch@{ty}"),
                "as_reader().to_entity() does not reproduce the bytes".into(),
            );
        }
        if shown {
            out.step(ty, "entity_display", || format!("{ent}").len());
        }
        out.step(ty, "entity_debug", || format!("{ent:?}").len());
        out.step(ty, "as_bytes", || ent.as_bytes().len());
        let from = out.step(ty, "entity_from_slice", || {
            if compat {
                E::from_compatible_slice(bytes).is_ok()
            } else {
                E::from_slice(bytes).is_ok()
            }
        });
        if from == Some(false) {
            out.fail(
                format!("entity_reader_disagree@{ty}"),
                format!("Reader::verify(compatible={compat}) accepts but Entity::from_*slice rejects"),
            );
        }
        let rebuilt = out.step(ty, "rebuild", || ent.clone().as_builder().build());
        if let Some(rb) = rebuilt {
            if strict_ok && rb.as_slice() != bytes {
                out.fail(
                    format!("molecule.rebuild_mismatch@{ty}"),
                    format!(
                        "as_builder().build() gives {} bytes, input has {} bytes",
                        rb.as_slice().len(),
                        bytes.len()
                    ),
                );
            }
        }
    }
}

macro_rules! gen_dispatch {
    ($($E:ident $R:ident,)*) => {
        /// `Reader::verify(bytes, compatible)`; None = unknown type; Err = panic.
        pub fn verify(ty: &str, bytes: &[u8], compat: bool) -> Option<Result<bool, String>> {
            match ty {
                $(stringify!($E) => Some(guarded(|| {
                    <packed::$R<'_> as Reader>::verify(bytes, compat).is_ok()
                })),)*
                _ => None,
            }
        }
        /// `Entity::from_slice` / `from_compatible_slice` acceptance.
        pub fn entity_accepts(ty: &str, bytes: &[u8], compat: bool) -> Option<Result<bool, String>> {
            match ty {
                $(stringify!($E) => Some(guarded(|| {
                    if compat {
                        <packed::$E as Entity>::from_compatible_slice(bytes).is_ok()
                    } else {
                        <packed::$E as Entity>::from_slice(bytes).is_ok()
                    }
                })),)*
                _ => None,
            }
        }
        fn generic(ty: &str, bytes: &[u8], compat: bool, strict_ok: bool, show: bool, out: &mut Out) {
            match ty {
                $(stringify!($E) => generic_t::<packed::$E, packed::$R<'_>>(ty, bytes, compat, strict_ok, show, out),)*
                _ => {}
            }
        }
    };
}
crate::for_all_types!(gen_dispatch);

// ---------------------------------------------------------------------------------------------
// semantic guards (the node applies `check_data` before it converts peer data; the JSON
// conversions `expect("checked data")`)
// ---------------------------------------------------------------------------------------------

pub fn hash_type_ok(v: u8) -> bool {
    v % 2 == 0 || v == 1
}
pub fn script_ok(s: &packed::ScriptReader) -> bool {
    hash_type_ok(s.hash_type().into())
}
pub fn cell_output_ok(o: &packed::CellOutputReader) -> bool {
    script_ok(&o.lock()) && o.type_().to_opt().map(|s| script_ok(&s)).unwrap_or(true)
}
pub fn cell_dep_ok(d: &packed::CellDepReader) -> bool {
    let v: u8 = d.dep_type().into();
    v <= 1
}
/// check_data: outputs pair up with outputs_data, dep types and hash types are known.
pub fn tx_checked(tx: &packed::TransactionReader) -> bool {
    let raw = tx.raw();
    raw.outputs().len() == raw.outputs_data().len() && tx_json_ok(tx)
}
pub fn tx_json_ok(tx: &packed::TransactionReader) -> bool {
    let raw = tx.raw();
    raw.cell_deps().iter().all(|d| cell_dep_ok(&d)) && raw.outputs().iter().all(|o| cell_output_ok(&o))
}
/// Preconditions `HeaderBuilder::build` asserts in debug builds.
pub fn header_builder_ok(h: &packed::HeaderReader) -> bool {
    let raw = h.raw();
    let ct: u32 = raw.compact_target().into();
    let number: u64 = raw.number().into();
    let epoch: u64 = raw.epoch().into();
    let index = (epoch >> 24) & 0xffff;
    let length = (epoch >> 40) & 0xffff;
    ct > 0 && (number == 0 || (length > 0 && index < length))
}
pub fn bool_opt_ok(b: &packed::BoolOptReader) -> bool {
    b.to_opt().map(|x| x.as_slice()[0] <= 1).unwrap_or(true)
}
fn utf8_ok(b: &[u8]) -> bool {
    std::str::from_utf8(b).is_ok()
}
pub fn alert_utf8_ok(a: &packed::AlertReader) -> bool {
    let raw = a.raw();
    utf8_ok(raw.message().raw_data())
        && raw.min_version().to_opt().map(|b| utf8_ok(b.raw_data())).unwrap_or(true)
        && raw.max_version().to_opt().map(|b| utf8_ok(b.raw_data())).unwrap_or(true)
}

// ---------------------------------------------------------------------------------------------
// full walk
// ---------------------------------------------------------------------------------------------

const MAX_DEPTH: u32 = 6;
const NEST_ITEMS: usize = 4;

/// Only the generic molecule API (Display/Debug, to_entity, rebuild): what C15 needs.
pub fn generic_only(ty: &str, bytes: &[u8], compat: bool, strict_ok: bool, out: &mut Out) {
    generic(ty, bytes, compat, strict_ok, true, out);
}

/// Walk a value that `Reader::verify(bytes, compat)` accepted.
pub fn walk(ctx: &Ctx, ty: &str, bytes: &[u8], compat: bool, strict_ok: bool, out: &mut Out, depth: u32) {
    let before = out.findings.len();
    special(ctx, ty, bytes, compat, strict_ok, out, depth);
    let nested_display_panic = out.findings[before..]
        .iter()
        .any(|f| f.sig.starts_with("panic@") && f.sig.ends_with(".display"));
    generic(ty, bytes, compat, strict_ok, !nested_display_panic, out);
}

fn nested(ctx: &Ctx, ty: &str, bytes: &[u8], compat: bool, out: &mut Out, depth: u32) {
    if depth >= MAX_DEPTH {
        return;
    }
    // the nested slice was verified by the parent with the same `compat` flag; whether it is
    // also strictly valid decides if the canonical-rebuild equality applies
    let strict_ok = if compat {
        matches!(verify(ty, bytes, false), Some(Ok(true)))
    } else {
        true
    };
    walk(ctx, ty, bytes, compat, strict_ok, out, depth + 1);
}

fn nested_items<'a>(
    ctx: &Ctx,
    ty: &str,
    items: impl ExactSizeIterator<Item = &'a [u8]>,
    compat: bool,
    out: &mut Out,
    depth: u32,
) {
    let n = items.len();
    for (i, s) in items.enumerate() {
        if i < NEST_ITEMS || i + 1 == n {
            nested(ctx, ty, s, compat, out, depth);
        }
    }
}

macro_rules! union_walk {
    ($ctx:ident, $ty:ident, $bytes:ident, $compat:ident, $out:ident, $depth:ident, $R:ident) => {{
        let r = packed::$R::new_unchecked($bytes);
        if let Some((name, slice)) = $out.step($ty, "to_enum", || {
            let u = r.to_enum();
            let _ = u.item_id();
            (u.item_name().to_string(), u.as_slice())
        }) {
            nested($ctx, &name, slice, $compat, $out, $depth);
        }
    }};
}

fn special(ctx: &Ctx, ty: &str, bytes: &[u8], compat: bool, strict_ok: bool, out: &mut Out, depth: u32) {
    let _ = strict_ok;
    match ty {
        // ---- unions -------------------------------------------------------------------------
        "SyncMessage" => union_walk!(ctx, ty, bytes, compat, out, depth, SyncMessageReader),
        "RelayMessage" => union_walk!(ctx, ty, bytes, compat, out, depth, RelayMessageReader),
        "LightClientMessage" => union_walk!(ctx, ty, bytes, compat, out, depth, LightClientMessageReader),
        "BlockFilterMessage" => union_walk!(ctx, ty, bytes, compat, out, depth, BlockFilterMessageReader),
        "PingPayload" => union_walk!(ctx, ty, bytes, compat, out, depth, PingPayloadReader),
        "DiscoveryPayload" => union_walk!(ctx, ty, bytes, compat, out, depth, DiscoveryPayloadReader),
        "HolePunchingMessage" => union_walk!(ctx, ty, bytes, compat, out, depth, HolePunchingMessageReader),
        "PingMessage" => {
            let r = packed::PingMessageReader::new_unchecked(bytes);
            nested(ctx, "PingPayload", r.payload().as_slice(), compat, out, depth);
        }
        "DiscoveryMessage" => {
            let r = packed::DiscoveryMessageReader::new_unchecked(bytes);
            nested(ctx, "DiscoveryPayload", r.payload().as_slice(), compat, out, depth);
        }
        "GetNodes" => {
            let r = packed::GetNodesReader::new_unchecked(bytes);
            // discovery reads GetNodes2 fields when extra fields are present
            out.step(ty, "has_extra_fields", || r.has_extra_fields());
            if r.has_extra_fields() {
                if let Some(Ok(true)) = verify("GetNodes2", bytes, true) {
                    nested(ctx, "GetNodes2", bytes, true, out, depth);
                }
            }
        }
        "Nodes" => {
            let r = packed::NodesReader::new_unchecked(bytes);
            nested_items(ctx, "Node", r.items().iter().map(|x| x.as_slice()), compat, out, depth);
        }
        "Node" => {
            let r = packed::NodeReader::new_unchecked(bytes);
            if r.has_extra_fields() {
                if let Some(Ok(true)) = verify("Node2", bytes, true) {
                    nested(ctx, "Node2", bytes, true, out, depth);
                }
            }
        }
        // ---- consensus types ----------------------------------------------------------------
        "Transaction" => tx_walk(ctx, bytes, out),
        "RawTransaction" => {
            let r = packed::RawTransactionReader::new_unchecked(bytes);
            out.step(ty, "calc_tx_hash", || r.calc_tx_hash());
        }
        "Header" => header_walk(bytes, out),
        "RawHeader" => {
            let r = packed::RawHeaderReader::new_unchecked(bytes);
            out.step(ty, "calc_pow_hash", || r.calc_pow_hash());
            out.step(ty, "difficulty", || r.to_entity().difficulty());
        }
        "UncleBlock" => uncle_walk(bytes, out),
        "Block" => block_walk(ctx, bytes, compat, out, depth),
        "BlockV1" => {
            let r = packed::BlockV1Reader::new_unchecked(bytes);
            if let Some(v0) = out.step(ty, "as_v0", || r.as_v0().as_slice().to_vec()) {
                // as_v0 reinterprets the same bytes as a Block with one extra field
                if !r.has_extra_fields() {
                    block_walk(ctx, &v0, true, out, depth);
                } else {
                    out.skipped_guard += 1;
                }
            }
        }
        "CompactBlock" => compact_walk(ctx, bytes, compat, out, depth),
        "CompactBlockV1" => {
            let r = packed::CompactBlockV1Reader::new_unchecked(bytes);
            if let Some(v0) = out.step(ty, "as_v0", || r.as_v0().as_slice().to_vec()) {
                if !r.has_extra_fields() {
                    compact_walk(ctx, &v0, true, out, depth);
                } else {
                    out.skipped_guard += 1;
                }
            }
        }
        "Script" => {
            let r = packed::ScriptReader::new_unchecked(bytes);
            out.step(ty, "calc_script_hash", || r.calc_script_hash());
            out.step(ty, "is_hash_type_type", || r.to_entity().is_hash_type_type());
            out.step(ty, "into_witness", || {
                packed::Script::from_witness(r.to_entity().into_witness()).is_some()
            });
            out.step(ty, "occupied_capacity", || r.to_entity().occupied_capacity().is_ok());
            if script_ok(&r) {
                out.step(ty, "to_json", || {
                    serde_json::to_string(&json::Script::from(r.to_entity())).unwrap().len()
                });
            } else {
                out.skipped_guard += 1;
            }
        }
        "ScriptOpt" => {
            let r = packed::ScriptOptReader::new_unchecked(bytes);
            if let Some(s) = r.to_opt() {
                nested(ctx, "Script", s.as_slice(), compat, out, depth);
            }
        }
        "CellOutput" => {
            let r = packed::CellOutputReader::new_unchecked(bytes);
            out.step(ty, "calc_lock_hash", || r.calc_lock_hash());
            out.step(ty, "occupied_capacity", || {
                r.to_entity().occupied_capacity(Capacity::zero()).is_ok()
            });
            out.step(ty, "is_lack_of_capacity", || {
                r.to_entity().is_lack_of_capacity(Capacity::shannons(u64::MAX)).is_ok()
            });
            if cell_output_ok(&r) {
                out.step(ty, "to_json", || {
                    serde_json::to_string(&json::CellOutput::from(r.to_entity())).unwrap().len()
                });
            } else {
                out.skipped_guard += 1;
            }
        }
        "CellOutputVec" => {
            let r = packed::CellOutputVecReader::new_unchecked(bytes);
            out.step(ty, "total_capacity", || r.to_entity().total_capacity().is_ok());
        }
        "OutPoint" => {
            let r = packed::OutPointReader::new_unchecked(bytes);
            out.step(ty, "is_null", || r.to_entity().is_null());
            out.step(ty, "to_cell_key", || r.to_entity().to_cell_key().len());
            out.step(ty, "to_json", || {
                serde_json::to_string(&json::OutPoint::from(r.to_entity())).unwrap().len()
            });
        }
        "CellInput" => {
            let r = packed::CellInputReader::new_unchecked(bytes);
            out.step(ty, "to_json", || {
                serde_json::to_string(&json::CellInput::from(r.to_entity())).unwrap().len()
            });
        }
        "CellDep" => {
            let r = packed::CellDepReader::new_unchecked(bytes);
            if cell_dep_ok(&r) {
                out.step(ty, "to_json", || {
                    serde_json::to_string(&json::CellDep::from(r.to_entity())).unwrap().len()
                });
            } else {
                out.skipped_guard += 1;
            }
        }
        "Bytes" => {
            let r = packed::BytesReader::new_unchecked(bytes);
            out.step(ty, "calc_raw_data_hash", || r.calc_raw_data_hash());
            out.step(ty, "calc_data_hash", || packed::CellOutput::calc_data_hash(r.raw_data()));
            out.step(ty, "unpack", || {
                let v: Vec<u8> = r.unpack();
                v.len()
            });
            out.step(ty, "to_json", || {
                serde_json::to_string(&json::JsonBytes::from(r.to_entity())).unwrap().len()
            });
        }
        "ProposalShortIdVec" => {
            let r = packed::ProposalShortIdVecReader::new_unchecked(bytes);
            out.step(ty, "calc_proposals_hash", || r.calc_proposals_hash());
        }
        "UncleBlockVec" => {
            let r = packed::UncleBlockVecReader::new_unchecked(bytes);
            out.step(ty, "calc_uncles_hash", || r.calc_uncles_hash());
            nested_items(ctx, "UncleBlock", r.iter().map(|x| x.as_slice()), compat, out, depth);
        }
        "TransactionVec" => {
            let r = packed::TransactionVecReader::new_unchecked(bytes);
            nested_items(ctx, "Transaction", r.iter().map(|x| x.as_slice()), compat, out, depth);
        }
        "HeaderVec" => {
            let r = packed::HeaderVecReader::new_unchecked(bytes);
            nested_items(ctx, "Header", r.iter().map(|x| x.as_slice()), compat, out, depth);
        }
        "CellbaseWitness" => {
            let r = packed::CellbaseWitnessReader::new_unchecked(bytes);
            nested(ctx, "Script", r.lock().as_slice(), compat, out, depth);
        }
        "Alert" => {
            let r = packed::AlertReader::new_unchecked(bytes);
            out.step(ty, "calc_alert_hash", || r.calc_alert_hash());
            if alert_utf8_ok(&r) {
                out.step(ty, "to_json", || {
                    serde_json::to_string(&json::Alert::from(r.to_entity())).unwrap().len()
                });
            } else {
                out.skipped_guard += 1;
            }
        }
        "RawAlert" => {
            let r = packed::RawAlertReader::new_unchecked(bytes);
            out.step(ty, "calc_alert_hash", || r.calc_alert_hash());
        }
        // ---- relay / sync messages ----------------------------------------------------------
        "SendBlock" => {
            let r = packed::SendBlockReader::new_unchecked(bytes);
            let expect = r.block().transactions().iter().all(|t| tx_checked(&t));
            check_data_agrees(ty, out.step(ty, "check_data", || r.check_data()), expect, out);
            out.step(ty, "has_extra_fields", || r.has_extra_fields());
            nested(ctx, "Block", r.block().as_slice(), compat, out, depth);
        }
        "SendHeaders" => {
            let r = packed::SendHeadersReader::new_unchecked(bytes);
            nested_items(ctx, "Header", r.headers().iter().map(|x| x.as_slice()), compat, out, depth);
        }
        "BlockTransactions" => {
            let r = packed::BlockTransactionsReader::new_unchecked(bytes);
            let expect = r.transactions().iter().all(|t| tx_checked(&t));
            check_data_agrees(ty, out.step(ty, "check_data", || r.check_data()), expect, out);
            nested_items(ctx, "Transaction", r.transactions().iter().map(|x| x.as_slice()), compat, out, depth);
            nested_items(ctx, "UncleBlock", r.uncles().iter().map(|x| x.as_slice()), compat, out, depth);
        }
        "RelayTransactions" => {
            let r = packed::RelayTransactionsReader::new_unchecked(bytes);
            let expect = r.transactions().iter().all(|t| tx_checked(&t.transaction()));
            check_data_agrees(ty, out.step(ty, "check_data", || r.check_data()), expect, out);
            nested_items(
                ctx,
                "Transaction",
                r.transactions().iter().map(|x| x.transaction().as_slice()),
                compat,
                out,
                depth,
            );
        }
        "BlockProposal" => {
            let r = packed::BlockProposalReader::new_unchecked(bytes);
            nested_items(ctx, "Transaction", r.transactions().iter().map(|x| x.as_slice()), compat, out, depth);
        }
        "GetBlockTransactions" => {
            let r = packed::GetBlockTransactionsReader::new_unchecked(bytes);
            out.step(ty, "unpack_indexes", || {
                let a: Vec<u32> = r.indexes().iter().map(|i| i.unpack()).collect();
                let b: Vec<u32> = r.uncle_indexes().iter().map(|i| i.unpack()).collect();
                a.len() + b.len()
            });
        }
        "IndexTransaction" => {
            let r = packed::IndexTransactionReader::new_unchecked(bytes);
            nested(ctx, "Transaction", r.transaction().as_slice(), compat, out, depth);
        }
        "FilteredBlock" => {
            let r = packed::FilteredBlockReader::new_unchecked(bytes);
            nested(ctx, "Header", r.header().as_slice(), compat, out, depth);
            nested_items(ctx, "Transaction", r.transactions().iter().map(|x| x.as_slice()), compat, out, depth);
            out.step(ty, "merkle_proof", || {
                use ckb_types::utilities::MerkleProof;
                let proof = MerkleProof::new(
                    r.proof().indices().iter().map(|i| i.unpack()).collect(),
                    r.proof().lemmas().iter().map(|l| l.to_entity()).collect(),
                );
                let leaves: Vec<packed::Byte32> =
                    r.transactions().iter().map(|t| t.calc_tx_hash()).collect();
                proof.root(&leaves).is_some()
            });
        }
        // ---- light client -------------------------------------------------------------------
        "HeaderDigest" => {
            let r = packed::HeaderDigestReader::new_unchecked(bytes);
            out.step(ty, "calc_mmr_hash", || r.calc_mmr_hash());
            out.step(ty, "is_default", || r.to_entity().is_default());
            out.step(ty, "verify", || r.to_entity().verify().is_ok());
        }
        "HeaderDigestVec" => {
            let r = packed::HeaderDigestVecReader::new_unchecked(bytes);
            nested_items(ctx, "HeaderDigest", r.iter().map(|x| x.as_slice()), compat, out, depth);
        }
        "VerifiableHeader" => {
            let r = packed::VerifiableHeaderReader::new_unchecked(bytes);
            if let Some(vh) = out.step(ty, "into_verifiable", || VerifiableHeader::from(r.to_entity())) {
                out.step(ty, "is_valid", || vh.is_valid(0) as u8 + vh.is_valid(u64::MAX >> 40) as u8);
                out.step(ty, "total_difficulty", || vh.total_difficulty());
            }
            nested(ctx, "Header", r.header().as_slice(), compat, out, depth);
            nested(ctx, "HeaderDigest", r.parent_chain_root().as_slice(), compat, out, depth);
        }
        "VerifiableHeaderVec" => {
            let r = packed::VerifiableHeaderVecReader::new_unchecked(bytes);
            nested_items(ctx, "VerifiableHeader", r.iter().map(|x| x.as_slice()), compat, out, depth);
        }
        "GetLastState" => {
            let r = packed::GetLastStateReader::new_unchecked(bytes);
            // util/light-client-protocol-server/src/components/get_last_state.rs
            out.step(ty, "subscribe", || {
                let s: bool = r.subscribe().into();
                s
            });
        }
        "SendLastState" => {
            let r = packed::SendLastStateReader::new_unchecked(bytes);
            nested(ctx, "VerifiableHeader", r.last_header().as_slice(), compat, out, depth);
        }
        "SendLastStateProof" => {
            let r = packed::SendLastStateProofReader::new_unchecked(bytes);
            nested(ctx, "VerifiableHeader", r.last_header().as_slice(), compat, out, depth);
            nested(ctx, "HeaderDigestVec", r.proof().as_slice(), compat, out, depth);
            nested(ctx, "VerifiableHeaderVec", r.headers().as_slice(), compat, out, depth);
        }
        "SendBlocksProof" => {
            let r = packed::SendBlocksProofReader::new_unchecked(bytes);
            nested(ctx, "VerifiableHeader", r.last_header().as_slice(), compat, out, depth);
            nested(ctx, "HeaderDigestVec", r.proof().as_slice(), compat, out, depth);
            nested(ctx, "HeaderVec", r.headers().as_slice(), compat, out, depth);
            // the light client reads the V1 fields when present
            if r.count_extra_fields() == 2 {
                if let Some(Ok(true)) = verify("SendBlocksProofV1", bytes, true) {
                    out.step(ty, "as_v1_display", || {
                        format!("{}", packed::SendBlocksProofV1Reader::new_unchecked(bytes)).len()
                    });
                }
            }
        }
        "SendTransactionsProof" => {
            let r = packed::SendTransactionsProofReader::new_unchecked(bytes);
            nested(ctx, "VerifiableHeader", r.last_header().as_slice(), compat, out, depth);
            nested_items(ctx, "FilteredBlock", r.filtered_blocks().iter().map(|x| x.as_slice()), compat, out, depth);
            if r.count_extra_fields() == 2 {
                if let Some(Ok(true)) = verify("SendTransactionsProofV1", bytes, true) {
                    out.step(ty, "as_v1_display", || {
                        format!("{}", packed::SendTransactionsProofV1Reader::new_unchecked(bytes)).len()
                    });
                }
            }
        }
        // ---- storage types: Unpack into core types ------------------------------------------
        "HeaderView" => {
            let r = packed::HeaderViewReader::new_unchecked(bytes);
            out.step(ty, "unpack", || {
                let v: core::HeaderView = r.unpack();
                v.number()
            });
        }
        "UncleBlockVecView" => {
            let r = packed::UncleBlockVecViewReader::new_unchecked(bytes);
            out.step(ty, "unpack", || {
                let v: core::UncleBlockVecView = r.unpack();
                // `get` pairs data[i] with hashes[i]: only meaningful when lengths agree
                if v.data().len() == v.hashes().len() {
                    v.clone().into_iter().count()
                } else {
                    0
                }
            });
        }
        "TransactionView" => {
            let r = packed::TransactionViewReader::new_unchecked(bytes);
            out.step(ty, "unpack", || {
                let v: core::TransactionView = r.unpack();
                v.hash()
            });
        }
        "BlockExt" => {
            let r = packed::BlockExtReader::new_unchecked(bytes);
            // storage type; `verified` is written by the node itself as 0/1
            if !bool_opt_ok(&r.verified()) {
                out.skipped_guard += 1;
                return;
            }
            out.step(ty, "unpack", || {
                let v: core::BlockExt = r.unpack();
                v.txs_fees.len()
            });
        }
        "BlockExtV1" => {
            let r = packed::BlockExtV1Reader::new_unchecked(bytes);
            if !bool_opt_ok(&r.verified()) {
                out.skipped_guard += 1;
                return;
            }
            out.step(ty, "unpack", || {
                let v: core::BlockExt = r.unpack();
                v.txs_fees.len()
            });
        }
        "EpochExt" => {
            let r = packed::EpochExtReader::new_unchecked(bytes);
            out.step(ty, "unpack", || {
                let v: core::EpochExt = r.unpack();
                v.number()
            });
        }
        "TransactionInfo" => {
            let r = packed::TransactionInfoReader::new_unchecked(bytes);
            out.step(ty, "unpack", || {
                let v: core::TransactionInfo = r.unpack();
                v.index
            });
        }
        "Uint32" => {
            let r = packed::Uint32Reader::new_unchecked(bytes);
            out.step(ty, "unpack", || {
                let v: u32 = r.unpack();
                let _u: usize = r.unpack();
                serde_json::to_string(&json::Uint32::from(v)).unwrap().len()
            });
        }
        "Uint64" => {
            let r = packed::Uint64Reader::new_unchecked(bytes);
            out.step(ty, "unpack", || {
                let v: u64 = r.unpack();
                let e: core::EpochNumberWithFraction = r.unpack();
                let _ = (e.number(), e.index(), e.length(), e.normalize().to_rational());
                serde_json::to_string(&json::Uint64::from(v)).unwrap().len()
            });
        }
        "Uint128" => {
            let r = packed::Uint128Reader::new_unchecked(bytes);
            out.step(ty, "unpack", || {
                let v: u128 = r.unpack();
                serde_json::to_string(&json::Uint128::from(v)).unwrap().len()
            });
        }
        "Uint256" => {
            let r = packed::Uint256Reader::new_unchecked(bytes);
            out.step(ty, "unpack", || {
                let v: ckb_types::U256 = r.unpack();
                v.is_zero()
            });
        }
        "Byte32" => {
            let r = packed::Byte32Reader::new_unchecked(bytes);
            out.step(ty, "unpack", || {
                let v: ckb_types::H256 = r.unpack();
                serde_json::to_string(&v).unwrap().len()
                    + serde_json::to_string(&json::Byte32::from(r.to_entity())).unwrap().len()
            });
        }
        "ProposalShortId" => {
            let r = packed::ProposalShortIdReader::new_unchecked(bytes);
            out.step(ty, "to_json", || {
                serde_json::to_string(&json::ProposalShortId::from(r.to_entity())).unwrap().len()
            });
        }
        "Bool" => {
            let r = packed::BoolReader::new_unchecked(bytes);
            out.step(ty, "unpack", || {
                let v: bool = r.unpack();
                v
            });
        }
        "Uint64VecOpt" => {
            let r = packed::Uint64VecOptReader::new_unchecked(bytes);
            out.step(ty, "unpack", || {
                let v: Option<Vec<u64>> = r.unpack();
                v.map(|x| x.len())
            });
        }
        _ => {}
    }
}

/// The node relies on `check_data()` before it touches peer transactions: it must say exactly
/// "outputs pair up with outputs_data, dep types <= 1, hash types known" (written independently
/// in `tx_checked`).
fn check_data_agrees(ty: &str, got: Option<bool>, expect: bool, out: &mut Out) {
    if let Some(got) = got {
        if got != expect {
            out.fail(
                format!("check_data.mismatch@{ty}"),
                format!("check_data() = {got} but the structural rule evaluates to {expect}"),
            );
        }
    }
}

fn tx_walk(ctx: &Ctx, bytes: &[u8], out: &mut Out) {
    let ty = "Transaction";
    let r = packed::TransactionReader::new_unchecked(bytes);
    out.step(ty, "calc_tx_hash", || r.calc_tx_hash());
    out.step(ty, "calc_witness_hash", || r.calc_witness_hash());
    out.step(ty, "serialized_size_in_block", || r.serialized_size_in_block());
    let tx = packed::Transaction::new_unchecked(Bytes::copy_from_slice(bytes));
    out.step(ty, "is_cellbase", || tx.is_cellbase());
    out.step(ty, "proposal_short_id", || tx.proposal_short_id());
    let checked = tx_checked(&r);
    if let Some(view) = out.step(ty, "into_view", || tx.clone().into_view()) {
        out.step(ty, "view_accessors", || {
            let mut n = 0usize;
            n += view.version() as usize;
            n += view.cell_deps().len() + view.header_deps().len() + view.inputs().len();
            n += view.outputs().len() + view.outputs_data().len() + view.witnesses().len();
            n += view.output_pts().len() + view.output_pts_iter().count() + view.input_pts_iter().count();
            n += view.cell_deps_iter().count() + view.header_deps_iter().count();
            n += view.outputs_with_data_iter().count();
            n += view.unique_parents().len();
            let _ = view.outputs_capacity();
            let _ = view.is_cellbase();
            let _ = view.proposal_short_id();
            let _ = view.output(0);
            let _ = format!("{view}");
            n
        });
        if checked {
            // `output_with_data` pairs outputs[i] with outputs_data[i] (check_data guarantees it)
            out.step(ty, "output_with_data", || {
                (0..view.outputs().len() + 1).filter(|i| view.output_with_data(*i).is_some()).count()
            });
        } else {
            out.skipped_guard += 1;
        }
        out.step(ty, "noncontextual_verify", || {
            NonContextualTransactionVerifier::new(&view, &ctx.consensus).verify().is_ok()
        });
        out.step(ty, "as_advanced_builder", || view.as_advanced_builder().build().hash());
        out.step(ty, "pack_view", || {
            let p: packed::TransactionView = (&view).into();
            let u: core::TransactionView = p.unpack();
            u.hash()
        });
    }
    if tx_json_ok(&r) {
        out.step(ty, "to_json", || {
            serde_json::to_string(&json::Transaction::from(tx.clone())).unwrap().len()
        });
    } else {
        out.skipped_guard += 1;
    }
}

fn header_walk(bytes: &[u8], out: &mut Out) {
    let ty = "Header";
    let r = packed::HeaderReader::new_unchecked(bytes);
    out.step(ty, "calc_pow_hash", || r.calc_pow_hash());
    out.step(ty, "calc_header_hash", || r.calc_header_hash());
    let h = r.to_entity();
    out.step(ty, "difficulty", || h.difficulty());
    if let Some(view) = out.step(ty, "into_view", || h.clone().into_view()) {
        out.step(ty, "view_accessors", || {
            let e = view.epoch();
            let _ = (e.number(), e.index(), e.length(), e.is_well_formed(), e.normalize().to_rational());
            let _ = (view.version(), view.number(), view.compact_target(), view.timestamp());
            let _ = (view.parent_hash(), view.transactions_root(), view.proposals_hash());
            let _ = (view.extra_hash(), view.dao(), view.difficulty(), view.nonce(), view.is_genesis());
            let _ = view.digest();
            format!("{view}").len()
        });
        if header_builder_ok(&r) {
            out.step(ty, "as_advanced_builder", || view.as_advanced_builder().build().hash());
        } else {
            out.skipped_guard += 1;
        }
        out.step(ty, "pack_view", || {
            let p: packed::HeaderView = (&view).into();
            let u: core::HeaderView = p.unpack();
            u.hash()
        });
    }
    out.step(ty, "to_json", || {
        serde_json::to_string(&json::Header::from(h.clone())).unwrap().len()
    });
}

fn uncle_walk(bytes: &[u8], out: &mut Out) {
    let ty = "UncleBlock";
    let r = packed::UncleBlockReader::new_unchecked(bytes);
    out.step(ty, "calc_header_hash", || r.calc_header_hash());
    out.step(ty, "calc_proposals_hash", || r.calc_proposals_hash());
    let u = r.to_entity();
    if let Some(view) = out.step(ty, "into_view", || u.clone().into_view()) {
        out.step(ty, "view_accessors", || {
            let e = view.epoch();
            let _ = (e.number(), e.index(), e.length());
            let _ = (view.version(), view.number(), view.compact_target(), view.timestamp());
            let _ = (view.parent_hash(), view.transactions_root(), view.proposals_hash());
            let _ = (view.extra_hash(), view.dao(), view.difficulty(), view.nonce());
            let _ = view.header().hash();
            let _ = view.calc_proposals_hash();
            format!("{view}").len()
        });
    }
    out.step(ty, "to_json", || {
        serde_json::to_string(&json::UncleBlock::from(u.clone())).unwrap().len()
    });
}

fn block_walk(ctx: &Ctx, bytes: &[u8], compat: bool, out: &mut Out, depth: u32) {
    let ty = "Block";
    let r = packed::BlockReader::new_unchecked(bytes);
    out.step(ty, "calc_header_hash", || r.calc_header_hash());
    out.step(ty, "calc_proposals_hash", || r.calc_proposals_hash());
    out.step(ty, "calc_uncles_hash", || r.calc_uncles_hash());
    out.step(ty, "calc_tx_hashes", || r.calc_tx_hashes().len());
    out.step(ty, "calc_tx_witness_hashes", || r.calc_tx_witness_hashes().len());
    out.step(ty, "serialized_size", || r.serialized_size_without_uncle_proposals());
    let extra = out.step(ty, "count_extra_fields", || r.count_extra_fields()).unwrap_or(usize::MAX);
    let blk = packed::Block::new_unchecked(Bytes::copy_from_slice(bytes));
    out.step(ty, "as_uncle", || blk.as_uncle());
    // nested consensus items
    nested_items(ctx, "Transaction", r.transactions().iter().map(|x| x.as_slice()), compat, out, depth);
    nested_items(ctx, "UncleBlock", r.uncles().iter().map(|x| x.as_slice()), compat, out, depth);
    nested(ctx, "Header", r.header().as_slice(), compat, out, depth);
    // The synchronizer bans peers whose block has more than one extra field, or one extra
    // field that does not make it a valid `BlockV1`, and runs `check_data` before
    // `into_view()`: everything below is what the node does next.
    if extra > 1 || (extra == 1 && packed::BlockV1Reader::verify(bytes, false).is_err()) {
        out.skipped_guard += 1;
        return;
    }
    let checked = r.transactions().iter().all(|t| tx_checked(&t));
    if out.step(ty, "extension", || r.extension().map(|e| e.raw_data().len())).is_none() {
        // every extension-dependent function fails the same way; record only the call the
        // synchronizer makes right after its guards (BlockProcess::execute)
        if checked {
            out.step(ty, "into_view", || blk.clone().into_view().hash());
        }
        return;
    }
    out.step(ty, "calc_extension_hash", || r.calc_extension_hash());
    out.step(ty, "calc_extra_hash", || r.calc_extra_hash().extra_hash());
    let v1 = out.step(ty, "into_view_without_reset_header", || {
        blk.clone().into_view_without_reset_header()
    });
    let v2 = out.step(ty, "into_view", || blk.clone().into_view());
    out.step(ty, "reset_header", || blk.clone().reset_header().calc_header_hash());
    for (label, view) in [("view0", v1), ("view", v2)] {
        let Some(view) = view else { continue };
        out.step(ty, &format!("{label}_accessors"), || {
            let mut n = 0usize;
            let e = view.epoch();
            let _ = (e.number(), e.index(), e.length());
            let _ = (view.version(), view.number(), view.compact_target(), view.timestamp());
            let _ = (view.parent_hash(), view.transactions_root(), view.proposals_hash());
            let _ = (view.extra_hash(), view.dao(), view.difficulty(), view.nonce(), view.is_genesis());
            n += view.transactions().len() + view.tx_hashes().len() + view.tx_witness_hashes().len();
            n += view.uncles().into_iter().count();
            n += view.uncle_hashes().len();
            n += view.union_proposal_ids().len() + view.union_proposal_ids_iter().count();
            let _ = view.transaction(0);
            let _ = view.output(0, 0);
            let _ = view.extension();
            let _ = view.as_uncle().hash();
            let _ = view.header().hash();
            let _ = view.digest();
            let _ = (view.calc_uncles_hash(), view.calc_extension_hash(), view.calc_proposals_hash());
            let _ = view.calc_extra_hash().extra_hash();
            let _ = (view.calc_raw_transactions_root(), view.calc_witnesses_root(), view.calc_transactions_root());
            n + format!("{view}").len()
        });
        out.step(ty, &format!("{label}_block_verifier"), || {
            BlockVerifier::new(&ctx.consensus).verify(&view).is_ok()
        });
        out.step(ty, &format!("{label}_txs_verifier"), || {
            NonContextualBlockTxsVerifier::new(&ctx.consensus).verify(&view).is_ok()
        });
        out.step(ty, &format!("{label}_compact_block"), || {
            use std::collections::HashSet;
            let mut idx = HashSet::new();
            idx.insert(1usize);
            let cb = packed::CompactBlock::build_from_block(&view, &idx);
            cb.txs_len() + cb.short_id_indexes().len() + cb.block_short_ids().len()
        });
        if header_builder_ok(&view.data().header().as_reader()) {
            out.step(ty, &format!("{label}_as_advanced_builder"), || {
                view.as_advanced_builder().build().hash()
            });
        } else {
            out.skipped_guard += 1;
        }
    }
    if checked {
        out.step(ty, "to_json", || {
            serde_json::to_string(&json::Block::from(blk.clone())).unwrap().len()
        });
    } else {
        out.skipped_guard += 1;
    }
}

fn compact_walk(ctx: &Ctx, bytes: &[u8], compat: bool, out: &mut Out, depth: u32) {
    let ty = "CompactBlock";
    let r = packed::CompactBlockReader::new_unchecked(bytes);
    out.step(ty, "calc_header_hash", || r.calc_header_hash());
    let extra = out.step(ty, "count_extra_fields", || r.count_extra_fields()).unwrap_or(usize::MAX);
    let cb = packed::CompactBlock::new_unchecked(Bytes::copy_from_slice(bytes));
    out.step(ty, "txs_len", || cb.txs_len());
    out.step(ty, "short_id_indexes", || cb.short_id_indexes().len());
    out.step(ty, "block_short_ids", || cb.block_short_ids().len());
    nested(ctx, "Header", r.header().as_slice(), compat, out, depth);
    nested_items(
        ctx,
        "Transaction",
        r.prefilled_transactions().iter().map(|x| x.transaction().as_slice()),
        compat,
        out,
        depth,
    );
    // the relayer bans peers whose compact block has more than one extra field, or one extra
    // field that does not make it a valid `CompactBlockV1`
    if extra > 1 || (extra == 1 && packed::CompactBlockV1Reader::verify(bytes, false).is_err()) {
        out.skipped_guard += 1;
        return;
    }
    out.step(ty, "extension", || cb.extension().map(|e| e.raw_data().len()));
}
