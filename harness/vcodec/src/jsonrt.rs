//! C15 item 3: packed -> jsonrpc type -> JSON text -> jsonrpc type -> packed is the identity,
//! JSON text -> jsonrpc type -> JSON text is stable, and the documented negative cases of the
//! hex encodings are rejected.

use crate::util::{Finding, Stats, guarded, hex};
use crate::walk::{alert_utf8_ok, cell_dep_ok, cell_output_ok, script_ok, tx_json_ok};
use ckb_jsonrpc_types as json;
use ckb_types::{H256, bytes::Bytes, core, packed, prelude::*};
use serde::{Serialize, de::DeserializeOwned};
use serde_json::json;
use vbase::Rng;

/// The chain packed -> J -> text -> J -> packed (+ serde_json::Value detour).
fn chain<P, J>(ty: &str, p: P, out: &mut Vec<Finding>) -> bool
where
    P: Entity + From<J>,
    J: From<P> + Serialize + DeserializeOwned + PartialEq + Clone,
{
    let bytes = p.as_slice().to_vec();
    let j: J = p.into();
    let text = match serde_json::to_string(&j) {
        Ok(t) => t,
        Err(e) => {
            out.push(Finding::new(format!("json.serialize_failed@{ty}"), e.to_string()));
            return true;
        }
    };
    let j2: J = match serde_json::from_str(&text) {
        Ok(j) => j,
        Err(e) => {
            out.push(
                Finding::new(format!("json.own_output_rejected@{ty}"), e.to_string())
                    .with(json!({"json": clip(&text)})),
            );
            return true;
        }
    };
    if j2 != j {
        out.push(
            Finding::new(
                format!("json.text_roundtrip_changed_value@{ty}"),
                "json type -> text -> json type is not the identity",
            )
            .with(json!({"json": clip(&text)})),
        );
    }
    // the Value detour exercises the owned-string visitor paths
    match serde_json::to_value(&j).and_then(serde_json::from_value::<J>) {
        Ok(j3) => {
            if j3 != j {
                out.push(Finding::new(
                    format!("json.value_roundtrip_changed_value@{ty}"),
                    "json type -> serde_json::Value -> json type is not the identity",
                ));
            }
        }
        Err(e) => out.push(Finding::new(format!("json.value_roundtrip_failed@{ty}"), e.to_string())),
    }
    let p2: P = j2.clone().into();
    if p2.as_slice() != &bytes[..] {
        out.push(
            Finding::new(
                format!("json.packed_roundtrip_mismatch@{ty}"),
                format!(
                    "packed -> json -> text -> json -> packed changed the bytes ({} -> {} bytes)",
                    bytes.len(),
                    p2.as_slice().len()
                ),
            )
            .with(json!({"json": clip(&text), "got_hex": clip(&hex(p2.as_slice()))})),
        );
    }
    // JSON -> packed -> JSON is the identity (text level)
    let j4: J = p2.into();
    match serde_json::to_string(&j4) {
        Ok(t2) if t2 == text => {}
        Ok(t2) => out.push(
            Finding::new(
                format!("json.text_not_stable@{ty}"),
                "JSON -> packed -> JSON changed the text",
            )
            .with(json!({"before": clip(&text), "after": clip(&t2)})),
        ),
        Err(e) => out.push(Finding::new(format!("json.serialize_failed@{ty}"), e.to_string())),
    }
    true
}

fn clip(s: &str) -> String {
    if s.len() <= 3000 {
        s.to_string()
    } else {
        let mut cut = 3000;
        while !s.is_char_boundary(cut) {
            cut -= 1;
        }
        format!("{}...({} bytes)", &s[..cut], s.len())
    }
}

/// Returns Some(applied) where applied=false means "has a JSON counterpart but the value is
/// outside the checked-data domain"; None = the type has no JSON counterpart.
pub fn roundtrip(ty: &str, bytes: &[u8], out: &mut Vec<Finding>) -> Option<bool> {
    let b = || Bytes::copy_from_slice(bytes);
    let r = guarded(|| -> (Option<bool>, Vec<Finding>) {
        let mut fs = vec![];
        let applied = match ty {
            "Script" => {
                let p = packed::Script::new_unchecked(b());
                Some(script_ok(&p.as_reader()) && chain::<_, json::Script>(ty, p, &mut fs))
            }
            "OutPoint" => Some(chain::<_, json::OutPoint>(ty, packed::OutPoint::new_unchecked(b()), &mut fs)),
            "CellInput" => Some(chain::<_, json::CellInput>(ty, packed::CellInput::new_unchecked(b()), &mut fs)),
            "CellOutput" => {
                let p = packed::CellOutput::new_unchecked(b());
                Some(cell_output_ok(&p.as_reader()) && chain::<_, json::CellOutput>(ty, p, &mut fs))
            }
            "CellDep" => {
                let p = packed::CellDep::new_unchecked(b());
                Some(cell_dep_ok(&p.as_reader()) && chain::<_, json::CellDep>(ty, p, &mut fs))
            }
            "Transaction" => {
                let p = packed::Transaction::new_unchecked(b());
                if tx_json_ok(&p.as_reader()) {
                    chain::<_, json::Transaction>(ty, p.clone(), &mut fs);
                    tx_view_json(&p, &mut fs);
                    Some(true)
                } else {
                    Some(false)
                }
            }
            "Header" => {
                let p = packed::Header::new_unchecked(b());
                chain::<_, json::Header>(ty, p.clone(), &mut fs);
                header_view_json(&p, &mut fs);
                Some(true)
            }
            "UncleBlock" => {
                let p = packed::UncleBlock::new_unchecked(b());
                chain::<_, json::UncleBlock>(ty, p.clone(), &mut fs);
                let v = p.clone().into_view();
                let j: json::UncleBlockView = v.clone().into();
                if j.header.hash != v.hash().unpack() || packed::Header::from(j.header.inner.clone()).as_slice() != p.header().as_slice() {
                    fs.push(Finding::new("json.view_mismatch@UncleBlockView", "hash or header differs"));
                }
                text_stable(&j, "UncleBlockView", &mut fs);
                Some(true)
            }
            "Block" | "BlockV1" => {
                // BlockV1 travels as a Block with one extra field (`as_v0`)
                let p = packed::Block::new_unchecked(b());
                if p.transactions().as_reader().iter().all(|t| tx_json_ok(&t)) {
                    chain::<_, json::Block>(ty, p.clone(), &mut fs);
                    block_view_json(ty, &p, &mut fs);
                    Some(true)
                } else {
                    Some(false)
                }
            }
            "ProposalShortId" => Some(chain::<_, json::ProposalShortId>(
                ty,
                packed::ProposalShortId::new_unchecked(b()),
                &mut fs,
            )),
            "Byte32" => {
                let p = packed::Byte32::new_unchecked(b());
                chain::<_, json::Byte32>(ty, p.clone(), &mut fs);
                // H256 is the other JSON face of Byte32
                let h: H256 = p.unpack();
                let text = serde_json::to_string(&h).unwrap();
                let h2: H256 = serde_json::from_str(&text).unwrap();
                let p2: packed::Byte32 = h2.pack();
                if p2.as_slice() != bytes {
                    fs.push(Finding::new("json.packed_roundtrip_mismatch@Byte32.H256", text));
                }
                Some(true)
            }
            "Uint32" => Some(chain::<_, json::Uint32>(ty, packed::Uint32::new_unchecked(b()), &mut fs)),
            "Uint64" => {
                let p = packed::Uint64::new_unchecked(b());
                chain::<_, json::Uint64>(ty, p.clone(), &mut fs);
                // EpochNumberWithFraction / Capacity faces of JsonUint<u64>
                let v: u64 = p.unpack();
                let e = core::EpochNumberWithFraction::from_full_value_unchecked(v);
                let je: json::EpochNumberWithFraction = e.into();
                if je.value() != v {
                    fs.push(Finding::new("json.packed_roundtrip_mismatch@Uint64.epoch", format!("{v:#x}")));
                }
                let c: core::Capacity = json::Capacity::from(core::Capacity::shannons(v)).into();
                if c.as_u64() != v {
                    fs.push(Finding::new("json.packed_roundtrip_mismatch@Uint64.capacity", format!("{v:#x}")));
                }
                Some(true)
            }
            "Uint128" => Some(chain::<_, json::Uint128>(ty, packed::Uint128::new_unchecked(b()), &mut fs)),
            "Bytes" => Some(chain::<_, json::JsonBytes>(ty, packed::Bytes::new_unchecked(b()), &mut fs)),
            "Alert" => {
                let p = packed::Alert::new_unchecked(b());
                Some(alert_utf8_ok(&p.as_reader()) && chain::<_, json::Alert>(ty, p, &mut fs))
            }
            _ => None,
        };
        (applied, fs)
    });
    match r {
        Ok((applied, fs)) => {
            out.extend(fs);
            applied
        }
        Err(msg) => {
            out.push(Finding::new(format!("panic@{ty}.json_roundtrip"), msg));
            Some(true)
        }
    }
}

fn text_stable<J: Serialize + DeserializeOwned>(j: &J, name: &str, fs: &mut Vec<Finding>) {
    let text = serde_json::to_string(j).unwrap();
    match serde_json::from_str::<J>(&text) {
        Ok(j2) => {
            let t2 = serde_json::to_string(&j2).unwrap();
            if t2 != text {
                fs.push(
                    Finding::new(format!("json.text_not_stable@{name}"), "text -> json type -> text changed")
                        .with(json!({"before": clip(&text), "after": clip(&t2)})),
                );
            }
        }
        Err(e) => fs.push(
            Finding::new(format!("json.own_output_rejected@{name}"), e.to_string())
                .with(json!({"json": clip(&text)})),
        ),
    }
}

fn tx_view_json(p: &packed::Transaction, fs: &mut Vec<Finding>) {
    let v = p.clone().into_view();
    let j: json::TransactionView = v.clone().into();
    text_stable(&j, "TransactionView", fs);
    let text = serde_json::to_string(&j).unwrap();
    let j2: json::TransactionView = serde_json::from_str(&text).unwrap();
    let p2: packed::Transaction = j2.inner.into();
    if p2.as_slice() != p.as_slice() || j2.hash != v.hash().unpack() {
        fs.push(Finding::new(
            "json.view_mismatch@TransactionView",
            "core::TransactionView -> json -> text -> json: data or hash differs",
        ));
    }
}

fn header_view_json(p: &packed::Header, fs: &mut Vec<Finding>) {
    let v = p.clone().into_view();
    let j: json::HeaderView = v.clone().into();
    text_stable(&j, "HeaderView", fs);
    let text = serde_json::to_string(&j).unwrap();
    let j2: json::HeaderView = serde_json::from_str(&text).unwrap();
    let hash_in_json = j2.hash.clone();
    let v2: core::HeaderView = j2.into();
    if v2.data().as_slice() != p.as_slice() || v2.hash() != v.hash() || hash_in_json != v.hash().unpack() {
        fs.push(Finding::new(
            "json.view_mismatch@HeaderView",
            "core::HeaderView -> json -> text -> json -> core: data or hash differs",
        ));
    }
}

fn block_view_json(ty: &str, p: &packed::Block, fs: &mut Vec<Finding>) {
    // `From<json::BlockView> for core::BlockView` goes through `into_view()`, which is
    // documented to reset the header roots: the identity is asserted on the consistent block.
    let v = p.clone().into_view();
    let j: json::BlockView = v.clone().into();
    text_stable(&j, "BlockView", fs);
    let text = serde_json::to_string(&j).unwrap();
    let j2: json::BlockView = serde_json::from_str(&text).unwrap();
    let tx_hashes_json: Vec<H256> = j2.transactions.iter().map(|t| t.hash.clone()).collect();
    let uncle_hashes_json: Vec<H256> = j2.uncles.iter().map(|u| u.header.hash.clone()).collect();
    let header_hash_json = j2.header.hash.clone();
    let v2: core::BlockView = j2.into();
    let mut bad = vec![];
    if v2.data().as_slice() != v.data().as_slice() {
        bad.push("data");
    }
    if v2.hash() != v.hash() || header_hash_json != v.hash().unpack() {
        bad.push("hash");
    }
    if tx_hashes_json != v.tx_hashes().iter().map(|h| h.unpack()).collect::<Vec<H256>>() {
        bad.push("tx_hashes");
    }
    if uncle_hashes_json != v.uncle_hashes().into_iter().map(|h| h.unpack()).collect::<Vec<H256>>() {
        bad.push("uncle_hashes");
    }
    if v2.tx_witness_hashes() != v.tx_witness_hashes() || v2.uncle_hashes().as_slice() != v.uncle_hashes().as_slice() {
        bad.push("cached_hashes");
    }
    if !bad.is_empty() {
        fs.push(Finding::new(
            format!("json.view_mismatch@BlockView.{ty}"),
            format!("core::BlockView -> json -> text -> json -> core differs in {bad:?}"),
        ));
    }
}

// ---------------------------------------------------------------------------------------------
// enum faces and negative cases (run once per engine run)
// ---------------------------------------------------------------------------------------------

fn expect_ok<J: DeserializeOwned>(st: &mut Stats, name: &str, text: &str) -> Option<J> {
    st.eval();
    st.count("json.negative_and_canonical_checks");
    match serde_json::from_str::<J>(text) {
        Ok(v) => Some(v),
        Err(e) => {
            st.finding(
                Finding::new(format!("json.documented_valid_rejected@{name}"), e.to_string()),
                json!({"json": text}),
            );
            None
        }
    }
}

fn expect_err<J: DeserializeOwned>(st: &mut Stats, name: &str, why: &str, text: &str) {
    st.eval();
    st.count("json.negative_and_canonical_checks");
    if serde_json::from_str::<J>(text).is_ok() {
        st.finding(
            Finding::new(
                format!("json.documented_invalid_accepted@{name}.{why}"),
                format!("{text} must be rejected ({why})"),
            ),
            json!({"json": text}),
        );
    }
}

macro_rules! uint_cases {
    ($st:ident, $rng:ident, $J:ty, $I:ty, $name:expr, $n:expr) => {{
        // doc table of JsonUint: "0x0" -> 0, "0x10" -> 16, "10" invalid, "0x01" invalid
        if let Some(v) = expect_ok::<$J>($st, $name, "\"0x0\"") {
            if v.value() != 0 {
                $st.finding(Finding::new(format!("json.wrong_value@{}", $name), "0x0"), json!({}));
            }
        }
        if let Some(v) = expect_ok::<$J>($st, $name, "\"0x10\"") {
            if v.value() != 16 {
                $st.finding(Finding::new(format!("json.wrong_value@{}", $name), "0x10"), json!({}));
            }
        }
        expect_err::<$J>($st, $name, "missing_0x", "\"10\"");
        expect_err::<$J>($st, $name, "leading_zero", "\"0x01\"");
        expect_err::<$J>($st, $name, "leading_zero", "\"0x00\"");
        expect_err::<$J>($st, $name, "empty_digits", "\"0x\"");
        expect_err::<$J>($st, $name, "not_a_string", "16");
        expect_err::<$J>($st, $name, "too_large", &format!("\"0x{:x}0\"", <$I>::MAX));
        for _ in 0..$n {
            let v: $I = match $rng.below(4) {
                0 => <$I>::MAX,
                1 => ($rng.next_u64() as $I) >> ($rng.below(<$I>::BITS as u64) as u32),
                2 => 1 << $rng.below(<$I>::BITS as u64),
                _ => (($rng.next_u64() as u128) << 64 | $rng.next_u64() as u128) as $I,
            };
            let canon = format!("\"0x{:x}\"", v);
            let text = serde_json::to_string(&<$J>::from(v)).unwrap();
            $st.eval();
            if text != canon {
                $st.finding(
                    Finding::new(format!("json.not_canonical@{}", $name), format!("{v} serialises to {text}")),
                    json!({"value": v.to_string()}),
                );
            }
            if let Some(back) = expect_ok::<$J>($st, $name, &canon) {
                if back.value() != v {
                    $st.finding(
                        Finding::new(format!("json.wrong_value@{}", $name), canon.clone()),
                        json!({"json": canon}),
                    );
                }
            }
            if v != 0 {
                expect_err::<$J>($st, $name, "leading_zero", &format!("\"0x0{:x}\"", v));
            }
            expect_err::<$J>($st, $name, "missing_0x", &format!("\"{:x}\"", v));
            expect_err::<$J>($st, $name, "missing_0x", &format!("\"{}\"", v));
        }
    }};
}

pub fn fixed_tests(rng: &mut Rng, st: &mut Stats, n: u64) -> serde_json::Value {
    uint_cases!(st, rng, json::Uint32, u32, "Uint32", n);
    uint_cases!(st, rng, json::Uint64, u64, "Uint64", n);
    uint_cases!(st, rng, json::Uint128, u128, "Uint128", n);

    // JsonBytes doc table: "0x" empty, "0x00" one byte, "0x636b62" = ckb, "00" invalid, "0x0" invalid
    if let Some(v) = expect_ok::<json::JsonBytes>(st, "JsonBytes", "\"0x\"") {
        if !v.is_empty() {
            st.finding(Finding::new("json.wrong_value@JsonBytes", "0x"), json!({}));
        }
    }
    if let Some(v) = expect_ok::<json::JsonBytes>(st, "JsonBytes", "\"0x00\"") {
        if v.as_bytes() != [0u8] {
            st.finding(Finding::new("json.wrong_value@JsonBytes", "0x00"), json!({}));
        }
    }
    if let Some(v) = expect_ok::<json::JsonBytes>(st, "JsonBytes", "\"0x636b62\"") {
        if v.as_bytes() != b"ckb" {
            st.finding(Finding::new("json.wrong_value@JsonBytes", "0x636b62"), json!({}));
        }
    }
    expect_err::<json::JsonBytes>(st, "JsonBytes", "missing_0x", "\"00\"");
    expect_err::<json::JsonBytes>(st, "JsonBytes", "odd_digits", "\"0x0\"");
    expect_err::<json::JsonBytes>(st, "JsonBytes", "not_hex", "\"0xzz\"");
    for _ in 0..n {
        let len = rng.below(70) as usize;
        let data = rng.bytes(len);
        let canon = format!("\"0x{}\"", hex(&data));
        st.eval();
        let text = serde_json::to_string(&json::JsonBytes::from_vec(data.clone())).unwrap();
        if text != canon {
            st.finding(Finding::new("json.not_canonical@JsonBytes", text.clone()), json!({"json": text}));
        }
        if let Some(back) = expect_ok::<json::JsonBytes>(st, "JsonBytes", &canon) {
            if back.as_bytes() != &data[..] {
                st.finding(Finding::new("json.wrong_value@JsonBytes", canon.clone()), json!({"json": canon}));
            }
        }
        expect_err::<json::JsonBytes>(st, "JsonBytes", "missing_0x", &format!("\"{}\"", hex(&data)));
        if !data.is_empty() {
            expect_err::<json::JsonBytes>(st, "JsonBytes", "odd_digits", &format!("\"0x{}\"", &hex(&data)[1..]));
        }
    }
    // fixed-size hex strings: 0x prefix and exact length are part of the type
    for _ in 0..n.min(200) {
        let d32 = rng.bytes(32);
        let d10 = rng.bytes(10);
        expect_ok::<json::Byte32>(st, "Byte32", &format!("\"0x{}\"", hex(&d32)));
        expect_err::<json::Byte32>(st, "Byte32", "missing_0x", &format!("\"{}\"", hex(&d32)));
        expect_err::<json::Byte32>(st, "Byte32", "wrong_length", &format!("\"0x{}\"", hex(&d32[1..])));
        expect_err::<json::Byte32>(st, "Byte32", "wrong_length", &format!("\"0x{}00\"", hex(&d32)));
        expect_ok::<json::ProposalShortId>(st, "ProposalShortId", &format!("\"0x{}\"", hex(&d10)));
        expect_err::<json::ProposalShortId>(st, "ProposalShortId", "missing_0x", &format!("\"{}\"", hex(&d10)));
        expect_err::<json::ProposalShortId>(st, "ProposalShortId", "wrong_length", &format!("\"0x{}\"", hex(&d10[1..])));
        expect_ok::<H256>(st, "H256", &format!("\"0x{}\"", hex(&d32)));
        expect_err::<H256>(st, "H256", "missing_0x", &format!("\"{}\"", hex(&d32)));
        expect_err::<H256>(st, "H256", "wrong_length", &format!("\"0x{}\"", hex(&d32[1..])));
    }

    // enum faces: every valid byte value survives core <-> json <-> text
    let mut hash_types = 0;
    for v in 0..=255u8 {
        let valid = v % 2 == 0 || v == 1;
        st.eval();
        match core::ScriptHashType::try_from(v) {
            Ok(c) if valid => {
                hash_types += 1;
                let j: json::ScriptHashType = c.into();
                let text = serde_json::to_string(&j).unwrap();
                let j2: Result<json::ScriptHashType, _> = serde_json::from_str(&text);
                let back: Option<u8> = j2.ok().map(|j| core::ScriptHashType::from(j).into());
                if back != Some(v) {
                    st.finding(
                        Finding::new("json.enum_roundtrip@ScriptHashType", format!("{v} -> {text} -> {back:?}")),
                        json!({"value": v}),
                    );
                }
                let expected_name = match v {
                    0 => "\"data\"".to_string(),
                    1 => "\"type\"".to_string(),
                    _ => format!("\"data{}\"", v >> 1),
                };
                if text != expected_name {
                    st.finding(
                        Finding::new("json.enum_name@ScriptHashType", format!("{v} serialises to {text}, expected {expected_name}")),
                        json!({"value": v}),
                    );
                }
            }
            Err(_) if !valid => {}
            other => st.finding(
                Finding::new(
                    "json.enum_domain@ScriptHashType",
                    format!("byte {v}: verify_value says {valid}, try_from says {:?}", other.is_ok()),
                ),
                json!({"value": v}),
            ),
        }
    }
    for (v, name) in [(0u8, "\"code\""), (1u8, "\"dep_group\"")] {
        st.eval();
        let c = core::DepType::try_from(packed::Byte::new(v)).ok();
        let text = c.map(|c| serde_json::to_string(&json::DepType::from(c)).unwrap());
        let back: Option<u8> = text
            .as_ref()
            .and_then(|t| serde_json::from_str::<json::DepType>(t).ok())
            .map(|j| core::DepType::from(j).into());
        if text.as_deref() != Some(name) || back != Some(v) {
            st.finding(
                Finding::new("json.enum_roundtrip@DepType", format!("{v} -> {text:?} -> {back:?}")),
                json!({"value": v}),
            );
        }
    }

    // observations that the documentation does not decide (recorded, never asserted)
    let obs = json!({
        "uint_uppercase_digits_accepted": serde_json::from_str::<json::Uint64>("\"0xFF\"").is_ok(),
        "uint_uppercase_prefix_accepted": serde_json::from_str::<json::Uint64>("\"0Xff\"").is_ok(),
        "uint_plus_sign_accepted": serde_json::from_str::<json::Uint64>("\"0x+ff\"").is_ok(),
        "bytes_uppercase_digits_accepted": serde_json::from_str::<json::JsonBytes>("\"0xFF\"").is_ok(),
        "byte32_uppercase_digits_accepted": serde_json::from_str::<json::Byte32>(&format!("\"0x{}\"", "AB".repeat(32))).is_ok(),
        "script_hash_types_round_tripped": hash_types,
    });
    obs
}
