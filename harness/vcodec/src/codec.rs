//! Mode `codec` -> property C15: encodings round-trip losslessly and hashes commit to content.

use crate::jsonrt;
use crate::util::*;
use crate::views::{self, Records};
use crate::walk;
use serde_json::{Map, Value, json};
use std::collections::{BTreeMap, BTreeSet, HashMap};
use std::time::{Duration, Instant};
use vbase::{Args, Report, Rng, Scratch};

pub const RULE: &str = "for every schema type and every generated/mutated byte string: \
from_slice accepts iff the independent strict validator accepts; from_compatible_slice accepts \
iff the independent compatible validator accepts; accepted values rebuild field by field to the \
same bytes and survive reader->entity; packed->json->text->json->packed is the identity and the \
JSON text is stable; every hash printed by the code equals the oracle's recomputation from the \
bytes; non-witness mutations change the tx hash, witness mutations only the witness hash, \
tx order/content/witness changes change the transactions root, proposals/uncles/extension are \
bound by proposals hash / extra hash; cached hashes of views from every constructor path equal \
recomputation from view.data()";

struct Base {
    ty: String,
    hashes: Map<String, Value>,
    bytes_hash: u64,
}

/// The hash relation a mutation kind must produce between base and mutant.
fn check_relation(kind: &str, base: &Base, cur: &Map<String, Value>, out: &mut Vec<Finding>) -> bool {
    let differs = |k: &str| base.hashes.get(k) != cur.get(k);
    let both = |k: &str| base.hashes.contains_key(k) && cur.contains_key(k);
    let mut must_change: Vec<&str> = vec![];
    let mut must_keep: Vec<&str> = vec![];
    match kind {
        "tx_nonwit" => must_change.extend(["tx_hash", "witness_hash"]),
        "tx_wit" => {
            must_change.push("witness_hash");
            must_keep.push("tx_hash");
        }
        // two different transactions may share the tx hash (differ in witnesses only)
        "blk_reorder" => must_change.extend(["transactions_root", "witnesses_root"]),
        "blk_txcount" => must_change.extend(["transactions_root", "raw_transactions_root", "witnesses_root"]),
        "blk_txcontent" => must_change.extend(["transactions_root", "raw_transactions_root", "witnesses_root"]),
        "blk_txwit" => {
            must_change.extend(["transactions_root", "witnesses_root"]);
            must_keep.extend(["raw_transactions_root", "proposals_hash", "extra_hash"]);
        }
        "blk_proposals" => {
            must_change.push("proposals_hash");
            must_keep.extend(["transactions_root", "extra_hash"]);
        }
        "blk_uncles" => {
            must_change.extend(["uncles_hash", "extra_hash"]);
            must_keep.extend(["transactions_root", "proposals_hash"]);
        }
        "blk_ext" | "blk_addext" | "blk_dropext" => {
            must_change.push("extra_hash");
            must_keep.extend(["uncles_hash", "transactions_root", "proposals_hash"]);
        }
        _ => return false,
    }
    for k in must_change {
        if both(k) && !differs(k) {
            out.push(Finding::new(
                format!("hash.not_binding@{kind}.{k}"),
                format!("mutation `{kind}` of a {} left {k} unchanged", base.ty),
            ));
        }
    }
    for k in must_keep {
        if both(k) && differs(k) {
            out.push(Finding::new(
                format!("hash.over_binding@{kind}.{k}"),
                format!("mutation `{kind}` of a {} changed {k}", base.ty),
            ));
        }
    }
    true
}

fn process_chunk(
    cases: &[Case],
    salt: u64,
    gen_info: &Value,
    st: &mut Stats,
    recs: &mut Records,
    view_paths: &mut BTreeSet<String>,
) {
    let mut bases: HashMap<u64, Base> = HashMap::new();
    for case in cases {
        let ty = case.ty.as_str();
        let bytes = &case.bytes[..];
        let witness = || {
            json!({"type": ty, "mutation": case.kind, "input_hex": hex_witness(bytes), "input_len": bytes.len(),
                   "oracle_strict": case.strict, "oracle_compatible": case.compat,
                   "case_id": case.id, "generator": gen_info})
        };
        *st.per_type.entry(case.ty.clone()).or_insert(0) += 1;
        st.count("values");
        st.count(&format!("kind.{}", case.kind));
        st.distinct
            .push(vbase::fnv1a(&[ty.as_bytes(), &[0], bytes].concat()));
        let mut fs: Vec<Finding> = vec![];

        // 1. acceptance agrees with the independent validator (reader and entity entry points)
        let mut verdict = [false, false];
        for (i, compat) in [false, true].into_iter().enumerate() {
            let label = if compat { case.compat } else { case.strict };
            let Some(label) = label else {
                st.problem("codec case without oracle verdict".into());
                continue;
            };
            let name = if compat { "compat" } else { "strict" };
            for (entry, r) in [
                ("reader", walk::verify(ty, bytes, compat)),
                ("entity", walk::entity_accepts(ty, bytes, compat)),
            ] {
                st.eval();
                match r {
                    Some(Ok(v)) => {
                        if entry == "reader" {
                            verdict[i] = v;
                        }
                        if v != label {
                            fs.push(Finding::new(
                                format!("molecule.{name}_accept_mismatch@{ty}"),
                                format!(
                                    "{entry} {} but the independent {name} validator {}",
                                    if v { "accepts" } else { "rejects" },
                                    if label { "accepts" } else { "rejects" }
                                ),
                            ));
                        }
                    }
                    Some(Err(msg)) => fs.push(Finding::new(format!("panic@{ty}.verify_{name}"), msg)),
                    None => st.problem(format!("no dispatch for type {ty}")),
                }
            }
        }
        let (strict_ok, compat_ok) = (verdict[0], verdict[1]);
        st.count(if strict_ok {
            "accept_strict"
        } else if compat_ok {
            "accept_compat_only"
        } else {
            "reject"
        });

        if strict_ok {
            // 2. canonical form, reader/entity equality, Display
            let mut out = walk::Out::new();
            walk::generic_only(ty, bytes, false, true, &mut out);
            st.evals += out.steps;
            st.count_n("generic_steps", out.steps);
            fs.extend(out.findings);

            // 3. JSON
            st.eval();
            match jsonrt::roundtrip(ty, bytes, &mut fs) {
                Some(true) => {
                    st.count("json.roundtrips");
                    st.count(&format!("json.type.{ty}"));
                }
                Some(false) => st.count("json.skipped_unchecked_data"),
                None => {}
            }

            // 4. hashes (printed for the oracle) and mutation relations
            match guarded(|| {
                let mut r = Records::default();
                let m = views::packed_hashes(ty, case.id, bytes, &mut r);
                (m, r)
            }) {
                Ok((Some(m), r)) => {
                    st.count("hash.records_packed");
                    recs.lines.extend(r.lines);
                    recs.count += r.count;
                    if let Some(bid) = case.base {
                        if let Some(base) = bases.get(&bid) {
                            st.eval();
                            if base.bytes_hash != vbase::fnv1a(bytes) && check_relation(&case.kind, base, &m, &mut fs) {
                                st.count(&format!("hashrel.{}", case.kind));
                            }
                        }
                    }
                    if case.kind == "valid" && matches!(ty, "Transaction" | "Block" | "BlockV1") {
                        bases.insert(
                            case.id,
                            Base {
                                ty: case.ty.clone(),
                                hashes: m,
                                bytes_hash: vbase::fnv1a(bytes),
                            },
                        );
                    }
                }
                Ok((None, _)) => {}
                Err(msg) => fs.push(Finding::new(format!("panic@{ty}.calc_hashes"), msg)),
            }

            // 5. views
            if matches!(ty, "Transaction" | "Header" | "UncleBlock" | "Block" | "BlockV1") {
                match guarded(|| {
                    let mut f2 = vec![];
                    let mut r = Records::default();
                    let vs = views::check_views(ty, bytes, salt ^ case.id, &mut f2, &mut r);
                    (vs, f2, r)
                }) {
                    Ok((Some(vs), f2, r)) => {
                        st.evals += vs.checks;
                        st.count_n("view.checks", vs.checks);
                        st.count_n("view.skipped_header_precondition", vs.skipped_header_precondition);
                        for p in vs.paths {
                            view_paths.insert(p);
                        }
                        st.count_n("hash.records_views", r.count);
                        recs.lines.extend(r.lines);
                        recs.count += r.count;
                        fs.extend(f2);
                    }
                    Ok((None, _, _)) => {}
                    Err(msg) => fs.push(Finding::new(format!("panic@{ty}.views"), msg)),
                }
            }
        }

        for f in fs {
            st.finding(f, witness());
        }
        if st.samples.len() < 3 && case.kind != "valid" && bytes.len() < 200 {
            st.samples.push(json!({"type": ty, "mutation": case.kind, "hex": hex(bytes),
                                   "strict": strict_ok, "compatible": compat_ok}));
        }
    }
}

fn run_verify(sd: &str, cases: &std::path::Path, hashes: &std::path::Path, st: &mut Stats) {
    let out = match python(&[
        "verify",
        sd,
        "--cases",
        cases.to_str().unwrap(),
        "--hashes",
        hashes.to_str().unwrap(),
    ]) {
        Ok(o) => o,
        Err(e) => {
            st.problem(format!("harness: {e}"));
            return;
        }
    };
    let mut got_summary = false;
    for line in out.lines() {
        let Ok(v) = serde_json::from_str::<Value>(line) else {
            st.problem(format!("oracle verify: unparsable line {}", &line[..line.len().min(100)]));
            continue;
        };
        if let Some(sig) = v["mismatch"].as_str() {
            let src = v["src"].as_str().unwrap_or("packed");
            st.finding(
                Finding::new(
                    format!("hash.mismatch@{sig}"),
                    format!(
                        "rust ({src}) printed {} but the oracle recomputes {}",
                        v["actual"].as_str().unwrap_or("?"),
                        v["expected"].as_str().unwrap_or("?")
                    ),
                ),
                json!({"type": v["type"], "input_hex": v["hex"], "source": src, "case_id": v["id"],
                       "expected": v["expected"], "actual": v["actual"]}),
            );
        } else if let Some(e) = v["error"].as_str() {
            st.problem(format!("oracle verify: {e} ({} {})", v["type"], v["key"]));
        } else if let Some(s) = v.get("summary") {
            got_summary = true;
            st.evals += s["checked"].as_u64().unwrap_or(0);
            st.count_n("hash.oracle_checks", s["checked"].as_u64().unwrap_or(0));
            st.count_n("hash.oracle_records", s["records"].as_u64().unwrap_or(0));
            if let Some(m) = s["by_key"].as_object() {
                for (k, n) in m {
                    st.count_n(&format!("hash.key.{k}"), n.as_u64().unwrap_or(0));
                }
            }
        }
    }
    if !got_summary {
        st.problem("oracle verify produced no summary".into());
    }
}

pub fn run(args: &Args) -> i32 {
    install_panic_capture();
    let mut report = Report::new("C15", "exploration", args, RULE);
    report.assume("/verif/oracles/molecule.py implements the molecule encoding spec and the hash definitions independently (no shared code); blake2b from python hashlib");
    report.assume("JSON round trips are judged on checked data only (known script hash types / dep types, UTF-8 alert texts), as the conversions `expect(\"checked data\")`");
    report.assume("advanced-builder paths are exercised only for headers meeting HeaderBuilder's debug assertions (compact_target > 0, well-formed epoch unless genesis); new_unchecked* only with correct inputs");
    let t_start = Instant::now();
    match check_type_list() {
        Ok(n) => report.note("schema_types", json!(n)),
        Err(e) => {
            report.inconclusive(&format!("type coverage: {e}"));
            return report.finish(None);
        }
    }
    let scratch = Scratch::new("vcodec-codec");
    let shards = args.get_u64("shards", args.tier.pick(8, 16));
    let total = args.get_u64("n", args.tier.pick(20_000, 2_000_000));
    let chunk = args.get_u64("chunk", args.tier.pick(2_500, 12_500));
    let per_shard = total.div_ceil(shards);
    let chunks_per_shard = per_shard.div_ceil(chunk);
    let big = args.tier.pick(60_000u64, 400_000u64);
    let deadline = t_start + Duration::from_secs(args.get_u64("budget_s", args.tier.pick(70, 1000)));
    let sd = schema_dir();
    let sd_s = sd.to_str().unwrap().to_string();

    let mut stats = Stats::default();
    let mut view_paths: BTreeSet<String> = BTreeSet::new();
    let results: Vec<(Stats, BTreeSet<String>)> = std::thread::scope(|s| {
        let mut hs = vec![];
        for shard in 0..shards {
            let scratch_path = scratch.path.clone();
            let sd_s = sd_s.clone();
            let seed = args.seed;
            hs.push(s.spawn(move || {
                let mut st = Stats::default();
                let mut vp = BTreeSet::new();
                for c in 0..chunks_per_shard {
                    if Instant::now() > deadline {
                        st.count("chunks_skipped_deadline");
                        continue;
                    }
                    let gseed = mix(seed, shard + 1, c + 1);
                    let tag = format!("c{shard}_{c}");
                    let cases_path = scratch_path.join(format!("{tag}.cases"));
                    let hashes_path = scratch_path.join(format!("{tag}.hashes"));
                    let gen_info = json!({"cmd": "molecule.py gen", "mode": "codec", "seed": gseed,
                                          "count": chunk, "big": big});
                    if let Err(e) = python(&[
                        "gen", &sd_s, "--mode", "codec", "--seed", &gseed.to_string(), "--count",
                        &chunk.to_string(), "--big", &big.to_string(), "--out", cases_path.to_str().unwrap(),
                    ]) {
                        st.problem(format!("harness: {e}"));
                        continue;
                    }
                    let cases = match read_cases(&cases_path) {
                        Ok(c) => c,
                        Err(e) => {
                            st.problem(format!("harness: {e}"));
                            continue;
                        }
                    };
                    let mut recs = Records::default();
                    process_chunk(&cases, gseed, &gen_info, &mut st, &mut recs, &mut vp);
                    drop(cases);
                    let mut text = recs.lines.join("\n");
                    text.push('\n');
                    if let Err(e) = std::fs::write(&hashes_path, text) {
                        st.problem(format!("harness: write hashes: {e}"));
                        continue;
                    }
                    drop(recs);
                    run_verify(&sd_s, &cases_path, &hashes_path, &mut st);
                    let _ = std::fs::remove_file(&cases_path);
                    let _ = std::fs::remove_file(&hashes_path);
                }
                (st, vp)
            }));
        }
        hs.into_iter().map(|h| h.join().expect("shard thread")).collect()
    });
    for (r, vp) in results {
        stats.merge(r);
        view_paths.extend(vp);
    }

    // JSON: documented negative / canonical cases and enum faces
    let mut rng = Rng::new(args.seed ^ 0x15_0A);
    let obs = jsonrt::fixed_tests(&mut rng, &mut stats, args.tier.pick(300, 5000));
    report.note("json_observations_not_asserted", obs);
    report.note(
        "json_blockview_note",
        json!("From<json::BlockView> for core::BlockView goes through packed::Block::into_view(), which is documented to reset the header roots; the view round trip is therefore asserted on header-consistent blocks (packed Block <-> json::Block is asserted on all blocks)"),
    );

    // evidence
    let types_seen = stats.per_type.len();
    let json_types: Vec<String> = stats
        .counters
        .keys()
        .filter_map(|k| k.strip_prefix("json.type.").map(|s| s.to_string()))
        .collect();
    let hash_keys: BTreeMap<String, u64> = stats
        .counters
        .iter()
        .filter_map(|(k, v)| k.strip_prefix("hash.key.").map(|s| (s.to_string(), *v)))
        .collect();
    stats.counters.retain(|k, _| !k.starts_with("hash.key."));
    stats.into_report(&mut report);
    report.note("types_covered", json!(types_seen));
    report.note("json_round_trip_types", json!(json_types));
    report.note("hash_checks_by_key", json!(hash_keys));
    report.note("view_constructor_paths", json!(view_paths));
    if types_seen < crate::types::ALL_TYPES.len() {
        report.inconclusive(&format!(
            "only {types_seen} of {} schema types were covered",
            crate::types::ALL_TYPES.len()
        ));
    }
    let min = args.get_u64("min_cases", total / 2);
    report.require("values", min);
    report.require("accept_strict", min / 4);
    report.require("accept_compat_only", min / 100);
    report.require("reject", min / 10);
    report.require("json.roundtrips", min / 50);
    report.require("hash.oracle_checks", min / 20);
    report.require("view.checks", min / 20);
    for k in ["tx_nonwit", "tx_wit", "blk_reorder", "blk_txcontent", "blk_txwit", "blk_proposals", "blk_uncles", "blk_ext", "blk_addext", "blk_dropext"] {
        report.require(&format!("hashrel.{k}"), 3);
    }
    if view_paths.len() < 40 {
        report.inconclusive(&format!("only {} view constructor paths exercised", view_paths.len()));
    }
    if json_types.len() < 15 {
        report.inconclusive(&format!("only {} JSON-capable types round-tripped", json_types.len()));
    }
    report.finish(None)
}
