//! C15 items 4/5: hash records for the python oracle, and cached hashes of views built through
//! every constructor path == recomputation from `view.data()`.

use crate::util::{Finding, hex};
use crate::walk::header_builder_ok;
use ckb_hash::blake2b_256;
use ckb_types::{
    bytes::Bytes,
    core::{self, BlockView, HeaderView, TransactionView, UncleBlockView},
    packed,
    prelude::*,
    utilities::merkle_root,
};
use serde_json::{Map, Value, json};

fn h(x: &[u8]) -> [u8; 32] {
    blake2b_256(x)
}
fn hx(b: &packed::Byte32) -> Value {
    json!(hex(b.as_slice()))
}
fn cat(v: &[packed::Byte32]) -> Value {
    let mut s = String::new();
    for x in v {
        s.push_str(&hex(x.as_slice()));
    }
    json!(s)
}

/// Hash record lines for the python oracle.
#[derive(Default)]
pub struct Records {
    pub lines: Vec<String>,
    pub count: u64,
}

impl Records {
    fn by_id(&mut self, id: u64, h: Map<String, Value>) {
        self.count += 1;
        self.lines.push(json!({"id": id, "h": h}).to_string());
    }
    fn by_hex(&mut self, ty: &str, data: &[u8], src: &str, h: Map<String, Value>) {
        self.count += 1;
        self.lines
            .push(json!({"type": ty, "hex": hex(data), "src": src, "h": h}).to_string());
    }
}

/// Hashes of a packed block computed with the packed-level functions + CBMT of the repo.
pub fn block_hash_map(b: &packed::Block) -> Map<String, Value> {
    let mut m = Map::new();
    let r = b.as_reader();
    m.insert("header_hash".into(), hx(&r.calc_header_hash()));
    m.insert("proposals_hash".into(), hx(&r.calc_proposals_hash()));
    m.insert("uncles_hash".into(), hx(&r.calc_uncles_hash()));
    if let Some(e) = r.calc_extension_hash() {
        m.insert("extension_hash".into(), hx(&e));
    }
    m.insert("extra_hash".into(), hx(&r.calc_extra_hash().extra_hash()));
    let th = r.calc_tx_hashes();
    let wh = r.calc_tx_witness_hashes();
    let raw_root = merkle_root(&th);
    let wit_root = merkle_root(&wh);
    m.insert("transactions_root".into(), hx(&merkle_root(&[raw_root.clone(), wit_root.clone()])));
    m.insert("raw_transactions_root".into(), hx(&raw_root));
    m.insert("witnesses_root".into(), hx(&wit_root));
    m.insert("tx_hashes".into(), cat(&th));
    m.insert("tx_witness_hashes".into(), cat(&wh));
    m
}

/// Same keys, but everything taken from the VIEW (cached hashes and view-level calc_*).
fn block_view_hash_map(v: &BlockView) -> Map<String, Value> {
    let mut m = Map::new();
    m.insert("header_hash".into(), hx(&v.hash()));
    m.insert("proposals_hash".into(), hx(&v.calc_proposals_hash()));
    m.insert("uncles_hash".into(), hx(&v.calc_uncles_hash()));
    if let Some(e) = v.calc_extension_hash() {
        m.insert("extension_hash".into(), hx(&e));
    }
    m.insert("extra_hash".into(), hx(&v.calc_extra_hash().extra_hash()));
    m.insert("transactions_root".into(), hx(&v.calc_transactions_root()));
    m.insert("raw_transactions_root".into(), hx(&v.calc_raw_transactions_root()));
    m.insert("witnesses_root".into(), hx(&v.calc_witnesses_root()));
    m.insert("tx_hashes".into(), cat(v.tx_hashes()));
    m.insert("tx_witness_hashes".into(), cat(v.tx_witness_hashes()));
    m
}

/// Bytes of a molecule table with `field` appended as one more field (None: not a table).
fn table_with_one_more_field(table: &[u8], field: &[u8]) -> Option<Vec<u8>> {
    if table.len() < 8 {
        return None;
    }
    let rd = |i: usize| u32::from_le_bytes(table[i..i + 4].try_into().unwrap()) as usize;
    let total = rd(0);
    let first = rd(4);
    if total != table.len() || first < 8 || first % 4 != 0 || first > total {
        return None;
    }
    let n = first / 4 - 1;
    let mut out = Vec::with_capacity(total + 4 + field.len());
    out.extend(((total + 4 + field.len()) as u32).to_le_bytes());
    for i in 0..n {
        out.extend(((rd(4 + 4 * i) + 4) as u32).to_le_bytes());
    }
    out.extend(((total + 4) as u32).to_le_bytes());
    out.extend(&table[first..]);
    out.extend(field);
    Some(out)
}

/// Item 4: print the hashes of a strict-valid packed value (by case id).
pub fn packed_hashes(ty: &str, id: u64, bytes: &[u8], recs: &mut Records) -> Option<Map<String, Value>> {
    let b = || Bytes::copy_from_slice(bytes);
    let mut m = Map::new();
    match ty {
        "Transaction" => {
            let p = packed::Transaction::new_unchecked(b());
            m.insert("tx_hash".into(), hx(&p.calc_tx_hash()));
            m.insert("witness_hash".into(), hx(&p.calc_witness_hash()));
        }
        "RawTransaction" => {
            m.insert("tx_hash".into(), hx(&packed::RawTransaction::new_unchecked(b()).calc_tx_hash()));
        }
        "Header" => {
            let p = packed::Header::new_unchecked(b());
            m.insert("header_hash".into(), hx(&p.calc_header_hash()));
            m.insert("pow_hash".into(), hx(&p.calc_pow_hash()));
        }
        "RawHeader" => {
            m.insert("pow_hash".into(), hx(&packed::RawHeader::new_unchecked(b()).calc_pow_hash()));
        }
        "Script" => {
            m.insert("script_hash".into(), hx(&packed::Script::new_unchecked(b()).calc_script_hash()));
        }
        "Bytes" => {
            let p = packed::Bytes::new_unchecked(b());
            m.insert("raw_data_hash".into(), hx(&p.calc_raw_data_hash()));
            m.insert("cell_data_hash".into(), hx(&packed::CellOutput::calc_data_hash(&p.raw_data())));
        }
        "CellOutput" => {
            m.insert("lock_hash".into(), hx(&packed::CellOutput::new_unchecked(b()).calc_lock_hash()));
        }
        "ProposalShortIdVec" => {
            m.insert(
                "proposals_hash".into(),
                hx(&packed::ProposalShortIdVec::new_unchecked(b()).calc_proposals_hash()),
            );
        }
        "UncleBlockVec" => {
            m.insert("uncles_hash".into(), hx(&packed::UncleBlockVec::new_unchecked(b()).calc_uncles_hash()));
        }
        "UncleBlock" => {
            let p = packed::UncleBlock::new_unchecked(b());
            m.insert("header_hash".into(), hx(&p.calc_header_hash()));
            m.insert("proposals_hash".into(), hx(&p.calc_proposals_hash()));
        }
        "Block" | "BlockV1" => {
            m = block_hash_map(&packed::Block::new_unchecked(b()));
            // a block of a later schema: the extension followed by one more (unknown) field. The
            // compatible reader accepts it; the extension stays the FIRST extra field and the extra
            // hash has to commit to it (record judged by the oracle from the bytes)
            if ty == "BlockV1" {
                let trailing = {
                    let mut t = (7u32 + (id % 23) as u32).to_le_bytes().to_vec();
                    let n = 7 + (id % 23) as usize;
                    t.extend((0..n).map(|i| (i as u8).wrapping_mul(31).wrapping_add(id as u8)));
                    t
                };
                if let Some(two) = table_with_one_more_field(bytes, &trailing) {
                    if packed::BlockReader::from_compatible_slice(&two).is_ok() {
                        let hm = block_hash_map(&packed::Block::new_unchecked(Bytes::from(two.clone())));
                        recs.by_hex("Block", &two, "BlockV1.with_one_more_trailing_field(compatible)", hm);
                    }
                }
            }
        }
        "CompactBlock" | "CompactBlockV1" => {
            m.insert("header_hash".into(), hx(&packed::CompactBlock::new_unchecked(b()).calc_header_hash()));
        }
        "RawAlert" => {
            m.insert("alert_hash".into(), hx(&packed::RawAlert::new_unchecked(b()).calc_alert_hash()));
        }
        "Alert" => {
            m.insert("alert_hash".into(), hx(&packed::Alert::new_unchecked(b()).calc_alert_hash()));
        }
        "HeaderDigest" => {
            m.insert("mmr_hash".into(), hx(&packed::HeaderDigest::new_unchecked(b()).calc_mmr_hash()));
        }
        _ => return None,
    }
    recs.by_id(id, m.clone());
    Some(m)
}

// ---------------------------------------------------------------------------------------------
// cached hashes
// ---------------------------------------------------------------------------------------------

struct Chk<'a> {
    fs: &'a mut Vec<Finding>,
    recs: &'a mut Records,
    pub checks: u64,
    pub paths: Vec<String>,
}

impl<'a> Chk<'a> {
    fn bad(&mut self, what: &str, path: &str, detail: String) {
        self.fs.push(
            Finding::new(format!("view.{what}@{path}"), detail),
        );
    }
    fn path(&mut self, p: &str) {
        if !self.paths.iter().any(|x| x == p) {
            self.paths.push(p.to_string());
        }
    }

    fn tx(&mut self, v: &TransactionView, path: &str, emit: bool) {
        self.checks += 1;
        self.path(path);
        let d = v.data();
        if v.hash().as_slice() != h(d.raw().as_slice()) {
            self.bad("stale_tx_hash", path, "TransactionView::hash() != blake2b(data().raw())".into());
        }
        if v.witness_hash().as_slice() != h(d.as_slice()) {
            self.bad("stale_witness_hash", path, "TransactionView::witness_hash() != blake2b(data())".into());
        }
        if emit {
            let mut m = Map::new();
            m.insert("tx_hash".into(), hx(&v.hash()));
            m.insert("witness_hash".into(), hx(&v.witness_hash()));
            self.recs.by_hex("Transaction", d.as_slice(), path, m);
        }
    }

    fn header(&mut self, v: &HeaderView, path: &str, emit: bool) {
        self.checks += 1;
        self.path(path);
        let d = v.data();
        if v.hash().as_slice() != h(d.as_slice()) {
            self.bad("stale_header_hash", path, "HeaderView::hash() != blake2b(data())".into());
        }
        if emit {
            let mut m = Map::new();
            m.insert("header_hash".into(), hx(&v.hash()));
            m.insert("pow_hash".into(), hx(&d.calc_pow_hash()));
            self.recs.by_hex("Header", d.as_slice(), path, m);
        }
    }

    fn uncle(&mut self, v: &UncleBlockView, path: &str) {
        self.checks += 1;
        self.path(path);
        if v.hash().as_slice() != h(v.data().header().as_slice()) {
            self.bad("stale_uncle_hash", path, "UncleBlockView::hash() != blake2b(data().header())".into());
        }
        if v.header().hash() != v.hash() || v.header().data().as_slice() != v.data().header().as_slice() {
            self.bad("uncle_header_view", path, "UncleBlockView::header() inconsistent".into());
        }
    }

    /// All caches of a BlockView against its own data; `reset` = header roots must equal calc_*.
    fn block(&mut self, v: &BlockView, path: &str, reset: bool, emit: bool) {
        self.checks += 1;
        self.path(path);
        let d = v.data();
        if v.hash().as_slice() != h(d.header().as_slice()) {
            self.bad("stale_block_hash", path, "BlockView::hash() != blake2b(data().header())".into());
        }
        let txs: Vec<packed::Transaction> = d.transactions().into_iter().collect();
        if v.tx_hashes().len() != txs.len() || v.tx_witness_hashes().len() != txs.len() {
            self.bad(
                "tx_hashes_len",
                path,
                format!("{} txs, {} tx_hashes, {} witness hashes", txs.len(), v.tx_hashes().len(), v.tx_witness_hashes().len()),
            );
        } else {
            for (i, tx) in txs.iter().enumerate() {
                if v.tx_hashes()[i].as_slice() != h(tx.raw().as_slice()) {
                    self.bad("stale_tx_hash", path, format!("tx_hashes[{i}] != blake2b(raw tx {i})"));
                    break;
                }
                if v.tx_witness_hashes()[i].as_slice() != h(tx.as_slice()) {
                    self.bad("stale_witness_hash", path, format!("tx_witness_hashes[{i}] != blake2b(tx {i})"));
                    break;
                }
            }
            let views = v.transactions();
            for (i, tv) in views.iter().enumerate() {
                if tv.hash() != v.tx_hashes()[i] || tv.data().as_slice() != txs[i].as_slice() {
                    self.bad("transactions_view", path, format!("transactions()[{i}] inconsistent"));
                    break;
                }
            }
            if let Some(t0) = v.transaction(0) {
                if t0.hash() != v.tx_hashes()[0] || t0.witness_hash() != v.tx_witness_hashes()[0] {
                    self.bad("transaction_view", path, "transaction(0) inconsistent".into());
                }
            }
        }
        let uncles: Vec<packed::UncleBlock> = d.uncles().into_iter().collect();
        let uh = v.uncle_hashes();
        if uh.len() != uncles.len() {
            self.bad("uncle_hashes_len", path, format!("{} uncles, {} hashes", uncles.len(), uh.len()));
        } else {
            for (i, u) in uncles.iter().enumerate() {
                if uh.get(i).unwrap().as_slice() != h(u.header().as_slice()) {
                    self.bad("stale_uncle_hash", path, format!("uncle_hashes[{i}] != blake2b(uncle {i} header)"));
                    break;
                }
            }
            for (i, uv) in v.uncles().into_iter().enumerate() {
                if uv.hash().as_slice() != h(uncles[i].header().as_slice()) || uv.data().as_slice() != uncles[i].as_slice() {
                    self.bad("uncles_view", path, format!("uncles()[{i}] inconsistent"));
                    break;
                }
            }
        }
        let hv = v.header();
        if hv.hash() != v.hash() || hv.data().as_slice() != d.header().as_slice() {
            self.bad("header_view", path, "BlockView::header() inconsistent".into());
        }
        let au = v.as_uncle();
        if au.hash() != v.hash() || au.data().header().as_slice() != d.header().as_slice()
            || au.data().proposals().as_slice() != d.proposals().as_slice()
        {
            self.bad("as_uncle", path, "BlockView::as_uncle() inconsistent".into());
        }
        // view-level calc_* == packed-level recomputation from data()
        let pm = block_hash_map(&d);
        let vm = block_view_hash_map(v);
        for (k, pv) in &pm {
            if vm.get(k) != Some(pv) {
                self.bad("calc_mismatch", path, format!("view {k} differs from recomputation over data()"));
                break;
            }
        }
        if reset {
            let raw = d.header().raw();
            if raw.transactions_root() != v.calc_transactions_root() {
                self.bad("header_not_reset.transactions_root", path, "header.transactions_root != calc_transactions_root()".into());
            }
            if raw.proposals_hash() != v.calc_proposals_hash() {
                self.bad("header_not_reset.proposals_hash", path, "header.proposals_hash != calc_proposals_hash()".into());
            }
            if raw.extra_hash() != v.calc_extra_hash().extra_hash() {
                self.bad("header_not_reset.extra_hash", path, "header.extra_hash != calc_extra_hash()".into());
            }
        }
        if emit {
            self.recs.by_hex("Block", d.as_slice(), path, vm);
        }
    }
}

pub struct ViewStats {
    pub checks: u64,
    pub paths: Vec<String>,
    pub skipped_header_precondition: u64,
}

fn some_bytes(seed: u8, n: usize) -> packed::Bytes {
    let v: Vec<u8> = (0..n).map(|i| seed.wrapping_mul(31).wrapping_add(i as u8)).collect();
    v.pack()
}

/// Item 5 for one strict-valid value. `salt` varies the modifications deterministically.
pub fn check_views(ty: &str, bytes: &[u8], salt: u64, fs: &mut Vec<Finding>, recs: &mut Records) -> Option<ViewStats> {
    let b = || Bytes::copy_from_slice(bytes);
    let mut c = Chk {
        fs,
        recs,
        checks: 0,
        paths: vec![],
    };
    let mut skipped = 0;
    let small = bytes.len() < 60_000;
    match ty {
        "Transaction" => {
            let p = packed::Transaction::new_unchecked(b());
            tx_paths(&mut c, &p, salt, small);
        }
        "Header" => {
            let p = packed::Header::new_unchecked(b());
            skipped += header_paths(&mut c, &p, salt);
        }
        "UncleBlock" => {
            let p = packed::UncleBlock::new_unchecked(b());
            let v = p.clone().into_view();
            c.uncle(&v, "UncleBlock.into_view");
            if v.data().as_slice() != p.as_slice() {
                c.bad("data_changed", "UncleBlock.into_view", "into_view changed the data".into());
            }
            // storage form of an uncle vector
            let vec_view = core::UncleBlockVecView::from(
                packed::UncleBlockVecView::new_builder()
                    .data(vec![p.clone(), p.clone()])
                    .hashes(vec![v.hash(), v.hash()])
                    .build(),
            );
            for (i, uv) in vec_view.clone().into_iter().enumerate() {
                c.uncle(&uv, "UncleBlockVecView.iter");
                let _ = i;
            }
            if let Some(uv) = vec_view.get(1) {
                c.uncle(&uv, "UncleBlockVecView.get");
            }
            let packed_again: packed::UncleBlockVecView = (&vec_view).into();
            let back: core::UncleBlockVecView = packed_again.unpack();
            if back.data().as_slice() != vec_view.data().as_slice() || back.hashes().as_slice() != vec_view.hashes().as_slice() {
                c.bad("storage_roundtrip", "UncleBlockVecView.pack_unpack", "pack/unpack changed the view".into());
            }
        }
        "Block" | "BlockV1" => {
            let p = packed::Block::new_unchecked(b());
            skipped += block_paths(&mut c, &p, salt, small);
        }
        _ => return None,
    }
    Some(ViewStats {
        checks: c.checks,
        paths: c.paths,
        skipped_header_precondition: skipped,
    })
}

fn tx_paths(c: &mut Chk, p: &packed::Transaction, salt: u64, emit: bool) {
    let v = p.clone().into_view();
    c.tx(&v, "Transaction.into_view", emit);
    if v.data().as_slice() != p.as_slice() {
        c.bad("data_changed", "Transaction.into_view", "into_view changed the data".into());
    }
    let v2 = v.as_advanced_builder().build();
    c.tx(&v2, "TransactionView.as_advanced_builder.build", false);
    if v2.data().as_slice() != p.as_slice() {
        c.bad("data_changed", "TransactionView.as_advanced_builder.build", "unmodified rebuild changed the data".into());
    }
    let v3 = p.as_advanced_builder().build();
    c.tx(&v3, "Transaction.as_advanced_builder.build", false);
    if v3.data().as_slice() != p.as_slice() {
        c.bad("data_changed", "Transaction.as_advanced_builder.build", "unmodified rebuild changed the data".into());
    }
    // modifications, one at a time (rotating) plus a combined one
    let s = (salt % 251) as u8;
    let m: Vec<(&str, TransactionView)> = vec![
        ("witness", v.as_advanced_builder().witness(some_bytes(s, 3)).build()),
        ("set_witnesses", v.as_advanced_builder().set_witnesses(vec![]).build()),
        ("version", v.as_advanced_builder().version(v.version().wrapping_add(1)).build()),
        ("input", v.as_advanced_builder().input(packed::CellInput::new_cellbase_input(salt)).build()),
        ("set_inputs", v.as_advanced_builder().set_inputs(vec![]).build()),
        (
            "output",
            v.as_advanced_builder()
                .output(packed::CellOutput::new_builder().capacity(salt).build())
                .output_data(some_bytes(s, 2))
                .build(),
        ),
        ("set_outputs_data", v.as_advanced_builder().set_outputs_data(vec![some_bytes(s, 1)]).build()),
        (
            "cell_dep",
            v.as_advanced_builder()
                .cell_dep(packed::CellDep::new_builder().out_point(packed::OutPoint::new(v.hash(), s as u32)).build())
                .build(),
        ),
        ("header_dep", v.as_advanced_builder().header_dep(v.witness_hash()).build()),
        ("set_cell_deps", v.as_advanced_builder().set_cell_deps(vec![]).build()),
    ];
    for (name, mv) in &m {
        let path = format!("TransactionBuilder.{name}");
        c.tx(mv, &path, emit && (salt as usize % m.len()) == m.iter().position(|x| x.0 == *name).unwrap());
    }
    // witness-only modifications keep the tx hash, everything else changes it
    if m[0].1.hash() != v.hash() || m[0].1.witness_hash() == v.witness_hash() {
        c.bad("hash_relation", "TransactionBuilder.witness", "adding a witness must keep hash() and change witness_hash()".into());
    }
    if m[3].1.hash() == v.hash() {
        c.bad("hash_relation", "TransactionBuilder.input", "adding an input must change hash()".into());
    }
    // storage form
    let packed_view: packed::TransactionView = (&v).into();
    let back: TransactionView = packed_view.unpack();
    c.tx(&back, "TransactionView.pack_unpack", false);
    if back.data().as_slice() != p.as_slice() {
        c.bad("storage_roundtrip", "TransactionView.pack_unpack", "pack/unpack changed the data".into());
    }
    let nb = TransactionView::new_advanced_builder()
        .version(v.version())
        .cell_deps(v.cell_deps())
        .header_deps(v.header_deps())
        .inputs(v.inputs())
        .outputs(v.outputs())
        .outputs_data(v.outputs_data())
        .witnesses(v.witnesses())
        .build();
    c.tx(&nb, "TransactionView.new_advanced_builder", false);
    if nb.data().as_slice() != p.as_slice() {
        c.bad("data_changed", "TransactionView.new_advanced_builder", "field-by-field rebuild changed the data".into());
    }
}

fn header_paths(c: &mut Chk, p: &packed::Header, salt: u64) -> u64 {
    let v = p.clone().into_view();
    c.header(&v, "Header.into_view", true);
    if v.data().as_slice() != p.as_slice() {
        c.bad("data_changed", "Header.into_view", "into_view changed the data".into());
    }
    let packed_view: packed::HeaderView = (&v).into();
    let back: HeaderView = packed_view.unpack();
    c.header(&back, "HeaderView.pack_unpack", false);
    if !header_builder_ok(&p.as_reader()) {
        return 1;
    }
    let v2 = v.as_advanced_builder().build();
    c.header(&v2, "HeaderView.as_advanced_builder.build", false);
    if v2.data().as_slice() != p.as_slice() {
        c.bad("data_changed", "HeaderView.as_advanced_builder.build", "unmodified rebuild changed the data".into());
    }
    let v3 = p.as_advanced_builder().build();
    c.header(&v3, "Header.as_advanced_builder.build", false);
    let epoch_wf = v.epoch().is_well_formed();
    let mut mods: Vec<(&str, HeaderView)> = vec![
        ("version", v.as_advanced_builder().version(v.version().wrapping_add(1)).build()),
        ("parent_hash", v.as_advanced_builder().parent_hash(v.hash()).build()),
        ("timestamp", v.as_advanced_builder().timestamp(v.timestamp() ^ salt).build()),
        ("transactions_root", v.as_advanced_builder().transactions_root(v.hash()).build()),
        ("proposals_hash", v.as_advanced_builder().proposals_hash(v.hash()).build()),
        ("extra_hash", v.as_advanced_builder().extra_hash(v.hash()).build()),
        ("dao", v.as_advanced_builder().dao(v.hash()).build()),
        ("nonce", v.as_advanced_builder().nonce(v.nonce() ^ (salt as u128) << 64 | 1).build()),
        (
            "compact_target",
            v.as_advanced_builder().compact_target(v.compact_target() | 1).build(),
        ),
    ];
    if epoch_wf {
        mods.push(("number", v.as_advanced_builder().number(v.number() ^ (salt | 1)).build()));
        mods.push((
            "epoch",
            v.as_advanced_builder()
                .epoch(core::EpochNumberWithFraction::new((salt % 1000) + 1, 3, 1000))
                .build(),
        ));
    }
    for (i, (name, mv)) in mods.iter().enumerate() {
        c.header(mv, &format!("HeaderBuilder.{name}"), i as u64 == salt % mods.len() as u64);
    }
    let nb = HeaderView::new_advanced_builder()
        .version(v.version())
        .parent_hash(v.parent_hash())
        .timestamp(v.timestamp())
        .number(v.number())
        .transactions_root(v.transactions_root())
        .proposals_hash(v.proposals_hash())
        .compact_target(v.compact_target())
        .extra_hash(v.extra_hash())
        .epoch(v.epoch())
        .dao(v.dao())
        .nonce(v.nonce())
        .build();
    c.header(&nb, "HeaderView.new_advanced_builder", false);
    if nb.data().as_slice() != p.as_slice() {
        c.bad("data_changed", "HeaderView.new_advanced_builder", "field-by-field rebuild changed the data".into());
    }
    0
}

fn block_paths(c: &mut Chk, p: &packed::Block, salt: u64, small: bool) -> u64 {
    let ext = p.extension();
    let v0 = p.clone().into_view_without_reset_header();
    c.block(&v0, "Block.into_view_without_reset_header", false, small);
    if v0.data().as_slice() != p.as_slice() {
        c.bad("data_changed", "Block.into_view_without_reset_header", "data differs from the input".into());
    }
    let v = p.clone().into_view();
    c.block(&v, "Block.into_view", true, small);
    // apart from the three header roots nothing may change
    {
        let a = v.data();
        if a.uncles().as_slice() != p.uncles().as_slice()
            || a.transactions().as_slice() != p.transactions().as_slice()
            || a.proposals().as_slice() != p.proposals().as_slice()
            || a.extension().map(|e| e.as_slice().to_vec()) != ext.as_ref().map(|e| e.as_slice().to_vec())
            || a.count_extra_fields() != p.count_extra_fields()
        {
            c.bad("data_changed", "Block.into_view", "into_view changed more than the header".into());
        }
        let (ha, hb) = (a.header().raw(), p.header().raw());
        if ha.version() != hb.version() || ha.compact_target() != hb.compact_target() || ha.timestamp() != hb.timestamp()
            || ha.number() != hb.number() || ha.epoch() != hb.epoch() || ha.parent_hash() != hb.parent_hash()
            || ha.dao() != hb.dao() || a.header().nonce() != p.header().nonce()
        {
            c.bad("data_changed", "Block.into_view", "into_view changed header fields other than the roots".into());
        }
    }
    let rh = p.clone().reset_header();
    if rh.as_slice() != v.data().as_slice() {
        c.bad("data_changed", "Block.reset_header", "reset_header() and into_view() disagree".into());
    }
    // new_unchecked* with correct inputs reproduce the block
    let nu = match &ext {
        Some(e) => BlockView::new_unchecked_with_extension(v0.header(), v0.uncles(), v0.transactions(), v0.data().proposals(), e.clone()),
        None => BlockView::new_unchecked(v0.header(), v0.uncles(), v0.transactions(), v0.data().proposals()),
    };
    let nu_path = if ext.is_some() { "BlockView.new_unchecked_with_extension" } else { "BlockView.new_unchecked" };
    c.block(&nu, nu_path, false, false);
    if nu.data().as_slice() != p.as_slice() {
        c.bad("data_changed", nu_path, "rebuilt block differs from the input".into());
    }
    if !header_builder_ok(&p.header().as_reader()) {
        return 1;
    }
    // advanced builders, unmodified
    let b1 = v0.as_advanced_builder().build_unchecked();
    c.block(&b1, "BlockView.as_advanced_builder.build_unchecked", false, false);
    if b1.data().as_slice() != p.as_slice() {
        c.bad("data_changed", "BlockView.as_advanced_builder.build_unchecked", "unmodified rebuild changed the data".into());
    }
    let b2 = v0.as_advanced_builder().build();
    c.block(&b2, "BlockView.as_advanced_builder.build", true, false);
    if b2.data().as_slice() != v.data().as_slice() {
        c.bad("data_changed", "BlockView.as_advanced_builder.build", "build() differs from into_view()".into());
    }
    let b3 = p.as_advanced_builder().build_unchecked();
    c.block(&b3, "Block.as_advanced_builder.build_unchecked", false, false);
    if b3.data().as_slice() != p.as_slice() {
        c.bad("data_changed", "Block.as_advanced_builder.build_unchecked", "unmodified rebuild changed the data".into());
    }
    let b4 = p.as_advanced_builder().build();
    c.block(&b4, "Block.as_advanced_builder.build", true, false);
    let b5 = packed::Block::new_advanced_builder()
        .header(v0.header())
        .uncles(v0.uncles().into_iter().collect::<Vec<_>>())
        .transactions(v0.transactions())
        .proposals(v0.data().proposals().into_iter().collect::<Vec<_>>())
        .extension(ext.clone())
        .build_unchecked();
    c.block(&b5, "Block.new_advanced_builder.build_unchecked", false, false);
    if b5.data().as_slice() != p.as_slice() {
        c.bad("data_changed", "Block.new_advanced_builder.build_unchecked", "field-by-field rebuild changed the data".into());
    }
    // modifications through the advanced builder
    let s = (salt % 251) as u8;
    let extra_tx = core::TransactionBuilder::default()
        .input(packed::CellInput::new_cellbase_input(salt))
        .witness(some_bytes(s, 5))
        .build();
    let extra_uncle = p.as_uncle().into_view();
    let id = packed::ProposalShortId::new([s; 10]);
    let mut txs_rev = v.transactions();
    txs_rev.reverse();
    let mods: Vec<(&str, core::BlockBuilder)> = vec![
        ("transaction", v.as_advanced_builder().transaction(extra_tx.clone())),
        ("set_transactions_reversed", v.as_advanced_builder().set_transactions(txs_rev)),
        ("set_transactions_empty", v.as_advanced_builder().set_transactions(vec![])),
        ("proposal", v.as_advanced_builder().proposal(id.clone())),
        ("set_proposals_empty", v.as_advanced_builder().set_proposals(vec![])),
        ("uncle", v.as_advanced_builder().uncle(extra_uncle.clone())),
        ("set_uncles_empty", v.as_advanced_builder().set_uncles(vec![])),
        ("extension_some", v.as_advanced_builder().extension(Some(some_bytes(s, 33)))),
        ("extension_none", v.as_advanced_builder().extension(None)),
        ("timestamp", v.as_advanced_builder().timestamp(v.timestamp() ^ salt)),
        ("nonce", v.as_advanced_builder().nonce(v.nonce() ^ 1)),
        (
            "header",
            v.as_advanced_builder()
                .header(v.header().as_advanced_builder().dao(v.hash()).build()),
        ),
        (
            "combined",
            v.as_advanced_builder()
                .transaction(extra_tx)
                .proposal(id)
                .uncle(extra_uncle)
                .extension(Some(some_bytes(s, 7)))
                .timestamp(salt),
        ),
    ];
    let pick = (salt % mods.len() as u64) as usize;
    for (i, (name, builder)) in mods.into_iter().enumerate() {
        let reset = builder.clone().build();
        c.block(&reset, &format!("BlockBuilder.{name}.build"), true, small && i == pick);
        let unchecked = builder.build_unchecked();
        c.block(&unchecked, &format!("BlockBuilder.{name}.build_unchecked"), false, false);
        // a second generation: views built from modified views
        if i == pick {
            let again = reset.as_advanced_builder().proposal(packed::ProposalShortId::new([1; 10])).build();
            c.block(&again, "BlockBuilder.second_generation.build", true, false);
            let via_packed = reset.data().into_view_without_reset_header();
            c.block(&via_packed, "BlockBuilder.data.into_view_without_reset_header", true, false);
            if via_packed.hash() != reset.hash() {
                c.bad("stale_block_hash", "BlockBuilder.data.into_view", "hash of the built view differs from a fresh view of its data".into());
            }
        }
    }
    0
}
