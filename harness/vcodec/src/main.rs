//! vcodec — verification engine for C15 (mode `codec`) and C16 parts a/b (mode `hostile`).
//!
//!   vcodec codec   --seed S --tier quick|thorough      -> /verif/evidence/C15.json
//!   vcodec hostile --seed S --tier quick|thorough      -> /verif/evidence/C16.part-codec.json
//!   (internal) vcodec child cases=F out=F [skip=N] [only=ID] ; vcodec compress-child out=F

mod codec;
mod compress;
mod hostile;
mod jsonrt;
mod sanitize;
mod types;
mod util;
mod views;
mod walk;

fn main() {
    let args = vbase::Args::parse();
    let code = match args.engine.as_str() {
        "codec" => codec::run(&args),
        "hostile" => hostile::run(&args),
        "child" => hostile::child_main(&args),
        "compress-child" => compress::child_main(&args),
        other => {
            eprintln!("usage: vcodec codec|hostile [--seed S] [--tier quick|thorough]  (got {other:?})");
            2
        }
    };
    std::process::exit(code);
}
