//! Thorough tier of C16: libFuzzer+ASan targets (/verif/harness-fuzz) and a Miri target
//! (/verif/harness-miri/codec), both run as subprocesses with timeouts.
//! Infrastructure failures are notes in the evidence; timeouts make the run inconclusive;
//! crash artifacts / UB reports are violations (artifacts are re-run through the engine's own
//! child walker to obtain the signature and the witness).

use crate::hostile::spawn_child;
use crate::util::*;
use serde_json::{Value, json};
use std::path::{Path, PathBuf};
use std::process::{Command, Stdio};
use std::time::{Duration, Instant};
use vbase::{Args, Report, Scratch};

fn fuzz_dir() -> PathBuf {
    PathBuf::from(std::env::var("VERIF_FUZZ_DIR").unwrap_or_else(|_| "/verif/harness-fuzz".into()))
}
fn miri_dir() -> PathBuf {
    PathBuf::from(std::env::var("VERIF_MIRI_DIR").unwrap_or_else(|_| "/verif/harness-miri".into()))
}

/// Run a command with a wall-clock limit; returns (status ok, timed out, stdout+stderr tail).
fn run_limited(cmd: &mut Command, limit: Duration, log: &Path) -> (bool, bool, String) {
    let f = std::fs::File::create(log).expect("log file");
    let f2 = f.try_clone().expect("clone log");
    cmd.stdin(Stdio::null()).stdout(f).stderr(f2);
    let mut child = match cmd.spawn() {
        Ok(c) => c,
        Err(e) => return (false, false, format!("spawn failed: {e}")),
    };
    let t0 = Instant::now();
    let mut timed_out = false;
    let status = loop {
        match child.try_wait() {
            Ok(Some(s)) => break Some(s),
            Ok(None) => {
                if t0.elapsed() > limit {
                    let _ = child.kill();
                    let _ = child.wait();
                    timed_out = true;
                    break None;
                }
                std::thread::sleep(Duration::from_millis(100));
            }
            Err(_) => break None,
        }
    };
    let text = std::fs::read_to_string(log).unwrap_or_default();
    let tail: Vec<&str> = text.lines().rev().take(60).collect();
    let tail: String = tail.into_iter().rev().collect::<Vec<_>>().join("\n");
    (status.map(|s| s.success()).unwrap_or(false), timed_out, tail)
}

fn known_signatures(prop: &str) -> Vec<String> {
    let path = vbase::verif_root().join("known_findings.json");
    let mut out = vec![];
    if let Ok(s) = std::fs::read_to_string(path) {
        if let Ok(v) = serde_json::from_str::<Value>(&s) {
            if let Some(a) = v["findings"].as_array() {
                for f in a {
                    if f["property"].as_str() == Some(prop) {
                        if let Some(sig) = f["signature"].as_str() {
                            out.push(sig.to_string());
                        }
                    }
                }
            }
        }
    }
    out
}

const TARGETS: &[(&str, &str, &str)] = &[
    // (fuzz target, packed type, types used to seed the corpus)
    ("block", "Block", "Block,BlockV1"),
    ("transaction", "Transaction", "Transaction"),
    ("compact_block", "CompactBlock", "CompactBlock,CompactBlockV1"),
    ("sync_message", "SyncMessage", "SyncMessage"),
    ("relay_message", "RelayMessage", "RelayMessage"),
    ("light_client_message", "LightClientMessage", "LightClientMessage"),
    ("decompress", "", ""),
];

pub fn run_fuzz(args: &Args, report: &mut Report, stats: &mut Stats) {
    let dir = fuzz_dir();
    let scratch = Scratch::new("vcodec-fuzz");
    let secs = args.get_u64("fuzz_secs", 120);
    let forks = args.get_u64("fuzz_forks", 16);
    let mut notes = serde_json::Map::new();
    if !dir.join("fuzz/Cargo.toml").is_file() {
        report.note("fuzz", json!({"skipped": format!("{} not found", dir.display())}));
        return;
    }
    // build (no-op when up to date)
    let (ok, timed_out, tail) = run_limited(
        Command::new("cargo")
            .current_dir(&dir)
            .args(["+nightly", "fuzz", "build"]),
        Duration::from_secs(args.get_u64("fuzz_build_timeout_s", 2400)),
        &scratch.join("build.log"),
    );
    if timed_out {
        stats.problem("cargo fuzz build timed out".into());
        return;
    }
    if !ok {
        report.note(
            "fuzz",
            json!({"infrastructure_failure": "cargo +nightly fuzz build failed", "log_tail": tail}),
        );
        return;
    }
    let known = known_signatures("C16").join(",");
    let sd = schema_dir();
    for (target, ty, seed_types) in TARGETS {
        let corpus = scratch.join(&format!("corpus-{target}"));
        let art = scratch.join(&format!("art-{target}"));
        std::fs::create_dir_all(&corpus).unwrap();
        std::fs::create_dir_all(&art).unwrap();
        // seed corpus
        let mut seeds = 0;
        if !ty.is_empty() {
            let cf = scratch.join(&format!("seed-{target}.cases"));
            let gseed = mix(args.seed, 0xF022, seeds as u64 + target.len() as u64);
            match python(&[
                "gen", sd.to_str().unwrap(), "--mode", "hostile", "--seed", &gseed.to_string(),
                "--count", "1500", "--big", "20000", "--only", seed_types, "--out", cf.to_str().unwrap(),
            ]) {
                Ok(_) => {
                    if let Ok(cases) = read_cases(&cf) {
                        for c in cases.iter().filter(|c| c.bytes.len() <= 60_000) {
                            let _ = std::fs::write(corpus.join(format!("seed-{}", c.id)), &c.bytes);
                            seeds += 1;
                        }
                    }
                }
                Err(e) => stats.problem(format!("harness: {e}")),
            }
            let _ = std::fs::remove_file(&cf);
        } else {
            let mut rng = vbase::Rng::new(args.seed ^ 0xDEC0);
            for i in 0..64u64 {
                let n = (rng.below(6000) + 1) as usize;
                let mut data = vec![0u8; n];
                for (k, b) in data.iter_mut().enumerate() {
                    *b = if i % 2 == 0 { (k % 7) as u8 } else { rng.next_u64() as u8 };
                }
                let frame = ckb_network::compress::compress(ckb_network::bytes::Bytes::from(data));
                let _ = std::fs::write(corpus.join(format!("seed-{i}")), &frame);
                seeds += 1;
            }
        }
        let log = scratch.join(&format!("fuzz-{target}.log"));
        let t0 = Instant::now();
        let (ok, timed_out, tail) = run_limited(
            Command::new("cargo")
                .current_dir(&dir)
                .env("VFUZZ_KNOWN", &known)
                .args(["+nightly", "fuzz", "run", target])
                .arg(&corpus)
                .arg("--")
                .arg("-timeout=10")
                .arg(format!("-fork={forks}"))
                .arg(format!("-max_total_time={secs}"))
                .arg("-ignore_crashes=1")
                .arg("-max_len=65536")
                .arg(format!("-artifact_prefix={}/", art.display())),
            Duration::from_secs(secs + 120),
            &log,
        );
        let wall = t0.elapsed().as_secs_f64();
        stats.count("fuzz.targets_run");
        if timed_out {
            stats.problem(format!("libFuzzer target {target} did not finish within {} s", secs + 120));
            continue;
        }
        // last status line: "#N: cov: C ft: F corp: K exec/s: E oom/timeout/crash: a/b/c"
        let text = std::fs::read_to_string(&log).unwrap_or_default();
        let mut execs = 0u64;
        let mut cov = 0u64;
        let mut otc = String::new();
        for line in text.lines() {
            if let Some(rest) = line.strip_prefix('#') {
                if let Some((n, tail)) = rest.split_once(':') {
                    if let Ok(n) = n.trim().parse::<u64>() {
                        execs = n;
                        if let Some(c) = tail.split("cov:").nth(1) {
                            cov = c.trim().split(' ').next().and_then(|x| x.parse().ok()).unwrap_or(cov);
                        }
                        if let Some(c) = tail.split("oom/timeout/crash:").nth(1) {
                            otc = c.trim().split(' ').next().unwrap_or("").to_string();
                        }
                    }
                }
            }
        }
        stats.count_n("fuzz.executions", execs);
        stats.evals += execs;
        let mut arts: Vec<PathBuf> = std::fs::read_dir(&art)
            .map(|d| d.filter_map(|e| e.ok().map(|e| e.path())).collect())
            .unwrap_or_default();
        arts.sort();
        notes.insert(
            target.to_string(),
            json!({"seeds": seeds, "executions": execs, "cov": cov, "oom/timeout/crash": otc,
                   "artifacts": arts.len(), "wall_s": wall, "exit_ok": ok}),
        );
        if execs == 0 {
            report.note(
                &format!("fuzz_failure_{target}"),
                json!({"infrastructure_failure": "no executions reported", "log_tail": tail}),
            );
            continue;
        }
        // judge artifacts
        for (k, a) in arts.iter().take(40).enumerate() {
            let name = a.file_name().unwrap().to_string_lossy().to_string();
            let Ok(bytes) = std::fs::read(a) else { continue };
            stats.count("fuzz.artifacts");
            let wit = json!({"found_by": format!("libfuzzer:{target}"), "artifact": name,
                             "type": ty, "input_hex": hex_witness(&bytes), "input_len": bytes.len()});
            if ty.is_empty() {
                stats.finding(
                    Finding::new(format!("fuzz.crash@{target}"), format!("libFuzzer artifact {name}")),
                    wit,
                );
                continue;
            }
            let cf = scratch.join(&format!("art-{target}-{k}.cases"));
            let line = format!("0 {ty} fuzz - - - {}\n# end 1\n", if bytes.is_empty() { "-".into() } else { hex(&bytes) });
            let _ = std::fs::write(&cf, line);
            let out = scratch.join(&format!("art-{target}-{k}.out"));
            let r = spawn_child(&cf, &out, 0, None);
            stats.count("children_spawned");
            let mut attributed = false;
            for (_, sig, detail) in &r.panics {
                attributed = true;
                stats.finding(Finding::new(sig.clone(), detail.clone()), wit.clone());
            }
            if !r.ok {
                attributed = true;
                stats.finding(
                    Finding::new(format!("abort@{ty}"), format!("artifact kills the walker child ({})", r.status)),
                    wit.clone(),
                );
            }
            if !r.slow.is_empty() {
                attributed = true;
                stats.finding(
                    Finding::new(format!("slow@{ty}"), format!("artifact takes {:?} us in the walker child", r.slow)),
                    wit.clone(),
                );
            }
            if !attributed {
                if name.starts_with("timeout-") {
                    stats.problem(format!(
                        "libFuzzer reported a 10 s timeout for {target} ({name}) that the walker child does not reproduce"
                    ));
                } else if name.starts_with("oom-") {
                    stats.finding(
                        Finding::new(format!("fuzz.oom@{target}"), format!("libFuzzer rss limit exceeded ({name})")),
                        wit,
                    );
                } else {
                    // not a panic of the walker: sanitizer report (or a crash only under ASan)
                    let mut w = wit;
                    w["log_tail"] = json!(tail.lines().rev().take(25).collect::<Vec<_>>().into_iter().rev().collect::<Vec<_>>().join("\n"));
                    stats.finding(
                        Finding::new(
                            format!("fuzz.sanitizer_crash@{target}"),
                            format!("libFuzzer/ASan crash artifact {name} without a panic in the plain walker"),
                        ),
                        w,
                    );
                }
            }
            let _ = std::fs::remove_file(&cf);
            let _ = std::fs::remove_file(&out);
        }
    }
    report.note("fuzz", Value::Object(notes));
}

/// Result of the Miri job (runs in a background thread while the main workload executes).
pub struct MiriResult {
    pub inputs: u64,
    pub steps: u64,
    pub panics_caught: u64,
    pub findings: Vec<(Finding, Value)>,
    pub problems: Vec<String>,
    pub note: Value,
}

pub fn miri_job(seed: u64, n_inputs: usize, procs: usize, timeout_s: u64) -> MiriResult {
    let mut res = MiriResult {
        inputs: 0,
        steps: 0,
        panics_caught: 0,
        findings: vec![],
        problems: vec![],
        note: Value::Null,
    };
    let dir = miri_dir();
    if !dir.join("codec/Cargo.toml").is_file() {
        res.note = json!({"skipped": format!("{}/codec not found", dir.display())});
        return res;
    }
    let scratch = Scratch::new("vcodec-miri");
    let sd = schema_dir();
    let cf = scratch.join("miri.cases");
    let gseed = mix(seed, 0x3141, 1);
    if let Err(e) = python(&[
        "gen", sd.to_str().unwrap(), "--mode", "hostile", "--seed", &gseed.to_string(),
        "--count", "6000", "--big", "2000", "--out", cf.to_str().unwrap(),
    ]) {
        res.problems.push(format!("harness: {e}"));
        return res;
    }
    let cases = match read_cases(&cf) {
        Ok(c) => c,
        Err(e) => {
            res.problems.push(format!("harness: {e}"));
            return res;
        }
    };
    // small inputs only (the interpreter is ~1000x slower), spread over all types
    let mut per_type: std::collections::BTreeMap<String, usize> = Default::default();
    let mut lines: Vec<String> = vec![];
    for c in cases.iter().filter(|c| c.bytes.len() <= 400) {
        let k = per_type.entry(c.ty.clone()).or_insert(0);
        if *k >= n_inputs.div_ceil(100) {
            continue;
        }
        *k += 1;
        lines.push(format!("{} {}", c.ty, if c.bytes.is_empty() { "-".into() } else { hex(&c.bytes) }));
        if lines.len() >= n_inputs {
            break;
        }
    }
    // build once, then run the shards concurrently
    let (ok, timed_out, tail) = run_limited(
        Command::new("cargo")
            .current_dir(&dir)
            .args(["+nightly", "miri", "run", "--offline", "-p", "miri-codec", "--"])
            .arg(dir.join("codec/default_corpus.txt"))
            .arg("2")
            .env("MIRIFLAGS", "-Zmiri-disable-isolation"),
        Duration::from_secs(timeout_s),
        &scratch.join("miri-build.log"),
    );
    if timed_out {
        res.problems.push("miri build/run timed out".into());
        return res;
    }
    if !ok {
        if tail.contains("Undefined Behavior") {
            res.findings.push((
                Finding::new("miri.ub@codec", "Miri reports Undefined Behavior on the default corpus"),
                json!({"log_tail": tail}),
            ));
        } else {
            res.note = json!({"infrastructure_failure": "cargo +nightly miri run failed", "log_tail": tail});
        }
        return res;
    }
    let per = lines.len().div_ceil(procs.max(1));
    let shards: Vec<Vec<String>> = lines.chunks(per.max(1)).map(|c| c.to_vec()).collect();
    let t0 = Instant::now();
    let outs: Vec<(bool, bool, String)> = std::thread::scope(|s| {
        let hs: Vec<_> = shards
            .iter()
            .enumerate()
            .map(|(i, shard)| {
                let corpus = scratch.join(&format!("miri-{i}.txt"));
                let log = scratch.join(&format!("miri-{i}.log"));
                let dir = dir.clone();
                let text = shard.join("\n") + "\n";
                s.spawn(move || {
                    std::fs::write(&corpus, text).unwrap();
                    run_limited(
                        Command::new("cargo")
                            .current_dir(&dir)
                            .args(["+nightly", "miri", "run", "--offline", "-p", "miri-codec", "--"])
                            .arg(&corpus)
                            .env("MIRIFLAGS", "-Zmiri-disable-isolation"),
                        Duration::from_secs(timeout_s),
                        &log,
                    )
                })
            })
            .collect();
        hs.into_iter().map(|h| h.join().unwrap()).collect()
    });
    for (i, (ok, timed_out, tail)) in outs.into_iter().enumerate() {
        if timed_out {
            res.problems.push(format!("miri shard {i} timed out after {timeout_s} s"));
            continue;
        }
        let last_at = tail.lines().rev().find(|l| l.starts_with("MIRI-AT ")).unwrap_or("").to_string();
        if !ok {
            if tail.contains("Undefined Behavior") {
                let mut it = last_at.split(' ').skip(2);
                let ty = it.next().unwrap_or("?").to_string();
                let hx = it.next().unwrap_or("").to_string();
                res.findings.push((
                    Finding::new(format!("miri.ub@{ty}"), "Miri reports Undefined Behavior while decoding/walking the input"),
                    json!({"type": ty, "input_hex": hx, "log_tail": tail.lines().filter(|l| !l.starts_with("MIRI-AT")).collect::<Vec<_>>().join("\n")}),
                ));
            } else {
                res.problems.push(format!(
                    "miri shard {i} failed without an Undefined Behavior report: {}",
                    tail.lines().filter(|l| !l.starts_with("MIRI-AT")).last().unwrap_or("")
                ));
            }
            continue;
        }
        if let Some(line) = tail.lines().find(|l| l.starts_with("MIRI-CODEC ")) {
            for kv in line.split(' ').skip(1) {
                if let Some((k, v)) = kv.split_once('=') {
                    let v: u64 = v.parse().unwrap_or(0);
                    match k {
                        "inputs" => res.inputs += v,
                        "steps" => res.steps += v,
                        "panics_caught" => res.panics_caught += v,
                        _ => {}
                    }
                }
            }
        } else {
            res.problems.push(format!("miri shard {i} printed no summary"));
        }
    }
    res.note = json!({"inputs": res.inputs, "steps": res.steps, "panics_caught_not_judged_here": res.panics_caught,
                      "shards": shards.len(), "wall_s": t0.elapsed().as_secs_f64()});
    res
}

pub fn merge_miri(r: MiriResult, report: &mut Report, stats: &mut Stats) {
    stats.evals += r.steps;
    stats.count_n("miri.inputs", r.inputs);
    stats.count_n("miri.steps", r.steps);
    for (f, w) in r.findings {
        stats.finding(f, w);
    }
    for p in r.problems {
        stats.problem(p);
    }
    report.note("miri", r.note);
}
