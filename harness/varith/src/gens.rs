//! Input generators + drivers of the real APIs.  Every function writes JSONL records
//! (inputs + observed outputs); nothing here decides whether an output is right.

use crate::mock::*;
use ckb_chain_spec::consensus::{
    Consensus, ConsensusBuilder, NextBlockEpoch, build_genesis_epoch_ext,
};
use ckb_pow::{
    DummyPowEngine, EaglesongBlake2bPowEngine, EaglesongPowEngine, Pow, PowEngine, pow_message,
};
use ckb_traits::EpochProvider;
use ckb_types::{
    U256,
    core::{Capacity, EpochExt, EpochNumberWithFraction},
    packed::{self, Byte32},
    prelude::*,
    utilities::{compact_to_difficulty, compact_to_target, difficulty_to_compact, target_to_compact},
};
use ckb_verification::HeaderVerifier;
use ckb_verification_traits::Verifier;
use serde_json::{Value, json};
use std::io::Write;
use vbase::{Rng, fnv1a, hex};

pub const MIN_LEN: u64 = 300;
pub const MAX_LEN: u64 = 1800;
const INITIAL_PRIMARY: u64 = 1_917_808_21917808;
const DEFAULT_SECONDARY: u64 = 613_698_63013698;

pub struct Out<W: Write> {
    pub w: W,
    pub chunk: u64,
    pub n: u64,
}

impl<W: Write> Out<W> {
    pub fn emit(&mut self, kind: &str, input: Value, output: Value) {
        let s_in = input.to_string();
        let mut key = Vec::with_capacity(s_in.len() + 4);
        key.extend_from_slice(kind.as_bytes());
        key.push(b'|');
        key.extend_from_slice(s_in.as_bytes());
        let h = fnv1a(&key);
        let id = format!("c{}:{}", self.chunk, self.n);
        self.n += 1;
        writeln!(
            self.w,
            "{{\"id\":\"{id}\",\"k\":\"{kind}\",\"h\":{h},\"in\":{s_in},\"out\":{output}}}"
        )
        .expect("write record");
    }
}

// ------------------------------------------------------------------------------------- configs

pub struct Cfg {
    pub consensus: Consensus,
    pub edt: u64,
    pub ort: (u32, u32),
    pub ipr: u64,
    pub hi: u64,
    pub sec: u64,
    pub pow: Pow,
    pub perm: bool,
}

impl Cfg {
    pub fn json(&self) -> Value {
        json!({"edt": self.edt, "ort": [self.ort.0, self.ort.1], "ipr": self.ipr, "hi": self.hi,
               "pow": self.pow.to_string(), "perm": self.perm})
    }
    /// scheduled primary reward of an epoch (input shaping only: previous epochs are generated on
    /// schedule; the oracle recomputes it)
    pub fn sched(&self, n: u64) -> u64 {
        let k = n / self.hi;
        if k >= 64 { 0 } else { self.ipr >> k }
    }
}

pub fn build_cfg(
    edt: u64,
    ort: (u32, u32),
    ipr: u64,
    hi: u64,
    sec: u64,
    pow: Pow,
    perm: bool,
) -> Cfg {
    let consensus = ConsensusBuilder::default()
        .epoch_duration_target(edt)
        .orphan_rate_target(ort)
        .initial_primary_epoch_reward(Capacity::shannons(ipr))
        .secondary_epoch_reward(Capacity::shannons(sec))
        .primary_epoch_reward_halving_interval(hi)
        .pow(pow.clone())
        .permanent_difficulty_in_dummy(perm)
        .build();
    Cfg { consensus, edt, ort, ipr, hi, sec, pow, perm }
}

pub fn default_cfg() -> Cfg {
    build_cfg(14400, (1, 40), INITIAL_PRIMARY, 8760, DEFAULT_SECONDARY, Pow::Eaglesong, false)
}

fn pick_pow(r: &mut Rng) -> Pow {
    match r.below(3) {
        0 => Pow::Dummy,
        1 => Pow::Eaglesong,
        _ => Pow::EaglesongBlake2b,
    }
}

pub fn random_cfg(r: &mut Rng) -> Cfg {
    let edt = match r.below(10) {
        0 => 1,
        1 => 8,
        2 => 10,
        3 => 100 + r.below(1000),
        4 | 5 => 14400,
        6 => 1 << r.range(10, 31),
        7 => u32::MAX as u64,
        _ => r.range(1, 1 << 20),
    };
    let ort = match r.below(10) {
        0..=3 => (1, 40),
        4 => (1, 20),
        5 => (3, 100),
        6 => (0, 1),
        7 => (1, 1),
        8 => (r.next_u32().max(1), r.next_u32().max(1)),
        _ => (1 + r.below(10) as u32, 10 + r.below(1000) as u32),
    };
    let ipr = match r.below(8) {
        0 => 1,
        1 => u64::MAX,
        2 => 1u64 << r.below(64),
        3 => r.next_u64().max(1),
        4 => r.range(1, 1 << 20),
        _ => INITIAL_PRIMARY,
    };
    let hi = match r.below(8) {
        0 => 1,
        1 => 2,
        2 => 3 + r.below(20),
        3 | 4 => 8760,
        5 => r.range(1, 1 << 20),
        _ => r.range(1, 2000),
    };
    let sec = match r.below(4) {
        0 => r.next_u64(),
        1 => r.below(1 << 20),
        _ => DEFAULT_SECONDARY,
    };
    let pow = pick_pow(r);
    let perm = r.chance(1, 6);
    build_cfg(edt, ort, ipr, hi, sec, pow, perm)
}

// ------------------------------------------------------------------------------------- helpers

fn epoch_json(e: &EpochExt) -> Value {
    json!({"n": e.number(), "s": e.start_number(), "l": e.length(), "ct": e.compact_target(),
           "phr": u256_hex(e.previous_epoch_hash_rate()),
           "b": e.base_block_reward().as_u64(), "r": e.remainder_reward().as_u64(),
           "lbh": hex(e.last_block_hash_in_previous_epoch().as_slice())})
}

fn rand32(r: &mut Rng) -> [u8; 32] {
    let v = r.bytes(32);
    let mut a = [0u8; 32];
    a.copy_from_slice(&v);
    a
}

/// boundary-biased 256-bit value with at most `max_bits` bits
pub fn biased_u256(r: &mut Rng, max_bits: u64) -> U256 {
    let bits = r.range(0, max_bits);
    if bits == 0 {
        return U256::zero();
    }
    let one = U256::one();
    let top = one.clone() << (bits - 1) as u32;
    match r.below(6) {
        0 => top,
        1 => {
            // 2^bits - 1
            if bits == 256 { U256::max_value() } else { (one << bits as u32) - U256::one() }
        }
        2 => &top + U256::from(r.below(3)),
        _ => {
            let mut a = rand32(r);
            // keep `bits` low bits, set the top one
            for i in 0..32usize {
                let lo = (i * 8) as u64;
                if lo >= bits {
                    a[i] = 0;
                } else if lo + 8 > bits {
                    a[i] &= ((1u16 << (bits - lo)) - 1) as u8;
                }
            }
            u256_from_le(&a) | top
        }
    }
}

fn canonical_compact(r: &mut Rng, emin: u32, emax: u32) -> u32 {
    let e = r.range(emin as u64, emax as u64) as u32;
    let m = match r.below(5) {
        0 => 0x01_0000,
        1 => 0xff_ffff,
        2 => 0x80_0000,
        _ => r.range(0x01_0000, 0xff_ffff) as u32,
    };
    (e << 24) | m
}

// ------------------------------------------------------------------------------------- check 1

fn pick_length(r: &mut Rng, extreme: bool) -> u64 {
    if extreme {
        return match r.below(4) {
            0 => r.range(1, 149),
            1 => r.range(3601, 65535),
            2 => 65535,
            _ => r.range(1, 65535),
        };
    }
    match r.below(20) {
        0 | 1 => MIN_LEN,
        2 | 3 => MAX_LEN,
        4 => MIN_LEN + 1,
        5 => MAX_LEN - 1,
        6 => r.range(150, 299),
        7 => r.range(1801, 3600),
        8 => r.range(MIN_LEN, MAX_LEN) | 1,
        9 => 1000,
        10 => *r.pick(&[599, 600, 601, 899, 900, 901, 3599, 3600, 150, 151]),
        _ => r.range(MIN_LEN, MAX_LEN),
    }
}

pub fn gen_ne<W: Write>(r: &mut Rng, out: &mut Out<W>, cfgs: &[Cfg]) {
    let cfg = &cfgs[r.usize_below(cfgs.len())];
    let extreme = r.chance(1, 20);
    let l = pick_length(r, extreme);
    let hi = cfg.hi;
    // epochs whose successor still has fewer than 64 halvings: [0, lim)
    let lim = (64 * hi).min(1 << 24) - 1;
    let number = match r.below(20) {
        0 | 1 => 0,
        2 | 3 => hi - 1,
        4 | 5 => (r.range(1, 63) * hi).saturating_sub(1),
        6 => r.range(1, 63) * hi,
        7 => 64 * hi - 1 - r.below(2),
        8 => r.range(64, 70) * hi - 1,
        9 => r.below((1 << 24) - 1),
        _ => r.below(lim.max(1)),
    }
    .min((1 << 24) - 2);
    let start = if number == 0 { 0 } else { r.range(number, 1 << 40) };
    // difficulty of the epoch: canonical compact, difficulty in [1, 2^136]; extreme: anything
    let compact = if extreme {
        match r.below(4) {
            0 => r.next_u32(),
            1 => canonical_compact(r, 1, 32),
            2 => (r.range(0, 40) as u32) << 24 | (r.next_u32() & 0xff_ffff),
            _ => canonical_compact(r, 15, 32),
        }
    } else {
        canonical_compact(r, 15, 32)
    };
    let uncles = if extreme && r.chance(1, 3) {
        r.biased_u64() >> r.range(20, 40)
    } else {
        match r.below(12) {
            0 | 1 => 0,
            2 => 1,
            3 => 2 * l,
            4 => 2 * l - 1,
            5 | 6 => (l * cfg.ort.0 as u64 / cfg.ort.1.max(1) as u64).saturating_add(r.below(4)).min(2 * l),
            7 => l,
            _ => r.range(1, 2 * l),
        }
    };
    let edt = cfg.edt;
    // K = o_t (L+U) L_ideal L / (U (1+o_t)) : raw length * duration   (f64, input shaping only)
    let dur_s: u64 = {
        let shaped = if uncles > 0 && cfg.ort.0 > 0 {
            let o_t = cfg.ort.0 as f64 / cfg.ort.1 as f64;
            let k = o_t * (l + uncles) as f64 * edt as f64 * l as f64 / (uncles as f64 * (1.0 + o_t));
            let want = match r.below(12) {
                0 => 2 * l,
                1 => 2 * l + 1,
                2 => l / 2,
                3 => (l / 2).saturating_sub(1).max(1),
                4 => MIN_LEN,
                5 => MIN_LEN - 1,
                6 => MAX_LEN,
                7 => MAX_LEN + 1,
                8 => l,
                _ => r.range(1, 4000),
            };
            let d = k / want as f64;
            if d.is_finite() && d < 1e18 {
                Some((d as u64).saturating_add(r.below(3)).saturating_sub(1))
            } else {
                None
            }
        } else {
            None
        };
        match (shaped, r.below(10)) {
            (Some(d), 0..=6) => d,
            (_, 7) => edt,
            (_, 8) => *r.pick(&[0, 1, 2, 1000, 14400, 1 << 20, 1 << 30]),
            _ => r.biased_u64() >> r.range(24, 63),
        }
    };
    let dur_ms: u64 = if extreme && r.chance(1, 2) {
        r.biased_u64()
    } else {
        match r.below(12) {
            0 => *r.pick(&[0, 1, 2, 999, 1000, 1001, 1999, 2000]),
            _ => dur_s.min(1 << 52).saturating_mul(1000).saturating_add(r.below(1000)),
        }
    };
    // raw hash-rate estimate (input shaping only)
    let diff = compact_to_difficulty(compact);
    let eff_s = (dur_ms / 1000).max(1);
    let hps: Option<U256> = catch(|| &diff * U256::from(l.saturating_add(uncles)) / U256::from(eff_s)).ok();
    let prev_hr = if extreme && r.chance(1, 2) {
        biased_u256(r, 256)
    } else {
        let h = hps.clone().unwrap_or_else(U256::one);
        let two = U256::from(2u64);
        let one = U256::one();
        let cap = |x: Result<U256, String>| x.unwrap_or_else(|_| U256::one());
        match r.below(16) {
            0 => U256::zero(),
            1 => h,
            2 => cap(catch(|| &h * &two)),
            3 => cap(catch(|| &h * &two + &one)),
            4 => cap(catch(|| &h * &two + &two)),
            5 => cap(catch(|| (&h * &two).checked_sub(&one).unwrap_or_else(U256::zero))),
            6 => &h / &two,
            7 => &h / &two + &one,
            8 => (&h / &two).checked_sub(&one).unwrap_or_else(U256::zero),
            9 => h >> r.range(2, 12) as u32,
            10 => cap(catch(|| {
                let s = r.range(2, 12) as u32;
                if h.leading_zeros() > s + 1 { h.clone() << s } else { h.clone() }
            })),
            11 => one,
            12 => biased_u256(r, 140),
            _ => {
                // within the factor-two band
                let f = r.range(50, 200);
                cap(catch(|| &h * U256::from(f) / U256::from(100u64)))
            }
        }
    };
    let tail = l == 1 || !r.chance(1, 8);
    let hnum = if tail { start + l - 1 } else { start + r.below(l - 1) };

    run_ne(r, out, cfg, extreme, l, number, start, compact, uncles, dur_ms, prev_hr, hnum);
}

/// Build the mock storage for one call, call `next_epoch_ext`, record inputs and result.
#[allow(clippy::too_many_arguments)]
pub fn run_ne<W: Write>(
    r: &mut Rng,
    out: &mut Out<W>,
    cfg: &Cfg,
    extreme: bool,
    l: u64,
    number: u64,
    start: u64,
    compact: u32,
    uncles: u64,
    dur_ms: u64,
    prev_hr: U256,
    hnum: u64,
) {
    let sched = cfg.sched(number);
    let (b, rem) = (sched / l, sched % l);
    let t0 = r.below(1 << 40);
    let ts = match t0.checked_add(dur_ms) {
        Some(t) => t,
        None => return,
    };
    let u0 = r.below(1 << 32);
    let u1 = match u0.checked_add(uncles) {
        Some(u) => u,
        None => return,
    };
    // last block of the previous epoch (the genesis block when the epoch is epoch 0)
    let prev = mk_header(start.saturating_sub(1), t0, compact.max(1), 0, &Byte32::zero(), &rand32(r), 0);
    let lbh = if number == 0 { Byte32::zero() } else { prev.hash() };
    let epoch = EpochExt::new_builder()
        .number(number)
        .start_number(start)
        .length(l)
        .compact_target(compact)
        .previous_epoch_hash_rate(prev_hr.clone())
        .base_block_reward(Capacity::shannons(b))
        .remainder_reward(Capacity::shannons(rem))
        .last_block_hash_in_previous_epoch(lbh)
        .build();
    let header = mk_header(hnum, ts, compact, 0, &Byte32::zero(), &rand32(r), r.next_u64() as u128);
    let provider = OneShot {
        epoch: epoch.clone(),
        tail_hash: header.hash(),
        tail_uncles: u1,
        prev,
        prev_uncles: u0,
    };
    let input = json!({
        "c": cfg.json(), "e": epoch_json(&epoch),
        "hd": {"n": hnum, "ct": compact, "ts": ts, "hash": hex(header.hash().as_slice())},
        "st": {"u0": u0, "u1": u1, "t0": t0},
        "cls": if extreme { "extreme" } else { "regular" },
    });
    let res = catch(|| cfg.consensus.next_epoch_ext(&header, &provider));
    let output = match res {
        Err(msg) => json!({"v": "panic", "msg": msg}),
        Ok(None) => json!({"v": "none"}),
        Ok(Some(NextBlockEpoch::HeadBlock(e))) => json!({"v": "head", "e": epoch_json(&e)}),
        Ok(Some(NextBlockEpoch::NonHeadBlock(e))) => json!({"v": "nonhead", "e": epoch_json(&e)}),
    };
    out.emit("ne", input, output);
}

/// Fixed witnesses with main-net parameters: the last epoch before the 64th halving.
pub fn emit_mainnet_halving_cases<W: Write>(r: &mut Rng, out: &mut Out<W>) {
    let cfg = default_cfg();
    for n in [560_638u64, 560_639, 560_640] {
        let res = catch(|| cfg.consensus.primary_epoch_reward(n).as_u64());
        let output = match res {
            Ok(v) => json!({"r": v}),
            Err(m) => json!({"panic": m}),
        };
        out.emit("hv", json!({"ipr": cfg.ipr, "hi": cfg.hi, "n": n}), output);
    }
    for number in [8759u64, 8760, 560_638, 560_639] {
        let start = number * 1000;
        run_ne(r, out, &cfg, false, 1000, number, start, 0x1a08_a97b, 25, 14_400_000, U256::zero(), start + 999);
    }
}

// ------------------------------------------------------------------------------------- check 2

fn rle_push(v: &mut Vec<(Value, u64)>, x: Value) {
    if let Some(last) = v.last_mut() {
        if last.0 == x {
            last.1 += 1;
            return;
        }
    }
    v.push((x, 1));
}

fn cap<E>(x: Result<Capacity, E>) -> Value {
    match x {
        Ok(c) => json!(c.as_u64()),
        Err(_) => json!("err"),
    }
}

fn rle_json(v: Vec<(Value, u64)>) -> Value {
    Value::Array(v.into_iter().map(|(x, k)| json!([x, k])).collect())
}

pub fn gen_br<W: Write>(r: &mut Rng, out: &mut Out<W>, cfgs: &[Cfg]) {
    let cfg = &cfgs[r.usize_below(cfgs.len())];
    let l = match r.below(10) {
        0 => MIN_LEN,
        1 => MAX_LEN,
        2 => 1,
        3 => 2,
        4 => r.range(1, 65535),
        5 => 1000,
        _ => r.range(MIN_LEN, MAX_LEN),
    };
    let k = r.below(1 << 40);
    let reward = match r.below(10) {
        0 => cfg.sched(r.below(100) * cfg.hi),
        1 => INITIAL_PRIMARY >> r.below(50),
        2 => k * l,
        3 => k * l + l - 1,
        4 => k * l + 1,
        5 => r.below(l + 2),
        6 => u64::MAX - r.below(3),
        7 => r.next_u64(),
        _ => r.below(1 << 50),
    };
    let sec = match r.below(8) {
        0 => 0,
        1 => k * l,
        2 => k * l + l - 1,
        3 => u64::MAX,
        4 => r.next_u64(),
        5 => r.below(l + 2),
        _ => cfg.sec,
    };
    let start = match r.below(4) {
        0 => 0,
        1 => r.below(1 << 20),
        _ => r.below(1 << 56),
    };
    let mut e = EpochExt::new_builder()
        .number(r.below(1 << 24))
        .start_number(start)
        .length(l)
        .build();
    e.set_primary_reward(Capacity::shannons(reward));
    let mut pr = vec![];
    let mut sr = vec![];
    for n in start..start + l {
        rle_push(&mut pr, cap(e.block_reward(n)));
        rle_push(&mut sr, cap(e.secondary_block_issuance(n, Capacity::shannons(sec))));
    }
    let mut oob = vec![];
    let mut probes = vec![start + l, start + l + r.below(5), start + l + e.remainder_reward().as_u64(), u64::MAX];
    if start > 0 {
        probes.push(start - 1);
        probes.push(r.below(start));
    }
    for n in probes {
        oob.push(json!([n, cap(e.block_reward(n)), cap(e.secondary_block_issuance(n, Capacity::shannons(sec)))]));
    }
    out.emit(
        "br",
        json!({"e": {"s": start, "l": l}, "R": reward, "sec": sec}),
        json!({"b": e.base_block_reward().as_u64(), "r": e.remainder_reward().as_u64(),
               "pr": rle_json(pr), "sr": rle_json(sr), "oob": oob}),
    );
}

pub fn gen_hv<W: Write>(r: &mut Rng, out: &mut Out<W>, cfgs: &[Cfg]) {
    let cfg = &cfgs[r.usize_below(cfgs.len())];
    let hi = cfg.hi;
    let k = match r.below(6) {
        0 => r.below(4),
        1 => 63,
        2 => 64,
        3 => r.range(60, 66),
        _ => r.below(64),
    };
    let n = match r.below(6) {
        0 => k * hi,
        1 => (k * hi).saturating_sub(1),
        2 => k * hi + 1,
        3 => k * hi + r.below(hi),
        4 => r.below(1 << 24),
        _ => r.below(3 * hi),
    };
    let res = catch(|| cfg.consensus.primary_epoch_reward(n).as_u64());
    let output = match res {
        Ok(v) => json!({"r": v}),
        Err(m) => json!({"panic": m}),
    };
    out.emit("hv", json!({"ipr": cfg.ipr, "hi": hi, "n": n}), output);
}

// ------------------------------------------------------------------------------------- check 3

pub const BOUNDARY_MANTISSAS: [u32; 26] = [
    0, 1, 2, 0x7f, 0x80, 0xff, 0x100, 0x101, 0x7fff, 0x8000, 0xffff, 0x1_0000, 0x1_0001, 0x00_ff00,
    0x01_00ff, 0x7f_ffff, 0x80_0000, 0x80_0001, 0xff_0000, 0xff_ff00, 0xff_fffe, 0xff_ffff, 0x12_3456,
    0x00_0100, 0x01_ffff, 0x02_0000,
];

pub fn emit_ct<W: Write>(out: &mut Out<W>, c: u32) {
    let (t, of) = compact_to_target(c);
    let d = compact_to_difficulty(c);
    let rc = if of { Value::Null } else { json!(target_to_compact(t.clone())) };
    let dc = if d.is_zero() { Value::Null } else { json!(difficulty_to_compact(d.clone())) };
    out.emit(
        "ct",
        json!({"c": c}),
        json!({"t": u256_hex(&t), "of": of, "d": u256_hex(&d), "rc": rc, "dc": dc}),
    );
}

pub fn gen_ct<W: Write>(r: &mut Rng, out: &mut Out<W>) {
    let c = match r.below(8) {
        0 => r.next_u32(),
        1..=5 => ((r.range(0, 36) as u32) << 24) | (r.next_u32() & 0xff_ffff),
        _ => {
            let m = match r.below(3) {
                0 => *r.pick(&BOUNDARY_MANTISSAS),
                1 => (r.next_u32() & 0xff_ffff) >> r.below(24),
                _ => r.next_u32() & 0xff_ff00,
            };
            ((r.range(0, 40) as u32) << 24) | m
        }
    };
    emit_ct(out, c);
}

pub fn emit_dt<W: Write>(out: &mut Out<W>, d: U256) {
    let res = catch(|| difficulty_to_compact(d.clone()));
    let output = match res {
        Ok(c) => {
            let (t, of) = compact_to_target(c);
            json!({"c": c, "t": u256_hex(&t), "of": of})
        }
        Err(m) => json!({"panic": m}),
    };
    out.emit("dt", json!({"d": u256_hex(&d)}), output);
}

pub fn gen_dt<W: Write>(r: &mut Rng, out: &mut Out<W>) {
    let d = match r.below(200) {
        0 => U256::zero(),
        1..=5 => U256::from(r.range(1, 4)),
        6..=8 => U256::max_value() - U256::from(r.below(3)),
        _ => {
            let x = biased_u256(r, 256);
            if x.is_zero() { U256::one() } else { x }
        }
    };
    let next = if d < U256::max_value() { Some(&d + U256::one()) } else { None };
    emit_dt(out, d);
    if r.chance(1, 3) {
        if let Some(n) = next {
            emit_dt(out, n);
        }
    }
}

pub fn gen_tc<W: Write>(r: &mut Rng, out: &mut Out<W>) {
    let t = match r.below(40) {
        0 => U256::zero(),
        1 => U256::max_value(),
        _ => biased_u256(r, 256),
    };
    let c = target_to_compact(t.clone());
    out.emit("tc", json!({"t": u256_hex(&t)}), json!({"c": c}));
}

// ------------------------------------------------------------------------------------- check 4

fn pow_name(k: u64) -> &'static str {
    match k {
        0 => "Eaglesong",
        1 => "EaglesongBlake2b",
        _ => "Dummy",
    }
}

fn engine(k: u64) -> Box<dyn PowEngine> {
    match k {
        0 => Box::new(EaglesongPowEngine),
        1 => Box::new(EaglesongBlake2bPowEngine),
        _ => Box::new(DummyPowEngine),
    }
}

fn raw_header(r: &mut Rng, compact: u32) -> packed::RawHeader {
    packed::RawHeader::new_builder()
        .version(r.next_u32())
        .compact_target(compact)
        .timestamp(r.next_u64())
        .number(r.next_u64())
        .epoch(r.next_u64())
        .parent_hash(Byte32::from_slice(&rand32(r)).unwrap())
        .transactions_root(Byte32::from_slice(&rand32(r)).unwrap())
        .proposals_hash(Byte32::from_slice(&rand32(r)).unwrap())
        .extra_hash(Byte32::from_slice(&rand32(r)).unwrap())
        .dao(Byte32::from_slice(&rand32(r)).unwrap())
        .build()
}

fn emit_pw<W: Write>(out: &mut Out<W>, k: u64, raw: &packed::RawHeader, compact: u32, nonce: u128) {
    let header = packed::Header::new_builder().raw(raw.clone()).nonce(nonce).build();
    let v = engine(k).verify(&header);
    let ph = raw.calc_pow_hash();
    let msg = pow_message(&ph, nonce);
    let mut eag = [0u8; 32];
    eaglesong::eaglesong(&msg, &mut eag);
    out.emit(
        "pw",
        json!({"eng": pow_name(k), "raw": hex(raw.as_slice()), "nonce": format!("{nonce:#x}"), "ct": compact}),
        json!({"ph": hex(ph.as_slice()), "msg": hex(&msg), "eag": hex(&eag), "v": v}),
    );
}

pub fn gen_pw_random<W: Write>(r: &mut Rng, out: &mut Out<W>) {
    let k = match r.below(10) {
        0 => 2,
        x => x % 2,
    };
    let compact = match r.below(12) {
        0 => 0,
        1 => (r.range(0, 3) as u32) << 24, // zero mantissa
        2 => ((r.range(33, 255) as u32) << 24) | (r.next_u32() & 0xff_ffff).max(1), // overflow
        3 => ((r.range(33, 34) as u32) << 24) | (r.next_u32() & 0xff).max(1), // exponent > 32, value fits
        4 => 0x20ff_ffff, // difficulty 1
        5 => (r.below(4) as u32) << 24 | (r.next_u32() & 0xff_ffff), // tiny targets
        6 => r.next_u32(),
        _ => 0x2000_0000 | (r.next_u32() & 0xff_ffff), // acceptance probability = mantissa / 2^24
    };
    let raw = raw_header(r, compact);
    let nonce = ((r.next_u64() as u128) << 64) | r.next_u64() as u128;
    emit_pw(out, k, &raw, compact, nonce);
}

/// Search nonces for hashes close to the target (input shaping: the search computes the same hash
/// function from the crates directly, the verdict is still taken from `engine.verify`).
pub fn gen_pw_mined<W: Write>(r: &mut Rng, out: &mut Out<W>, tries: u64) {
    let k = r.below(2);
    let e = *r.pick(&[0x20u32, 0x1f, 0x1f, 0x1e]);
    let m = match r.below(3) {
        0 => 0x01_0000 + (r.next_u32() & 0xffff),
        1 => 0xff_0000 | (r.next_u32() & 0xffff),
        _ => r.range(0x01_0000, 0xff_ffff) as u32,
    };
    let compact = (e << 24) | m;
    let (target, _) = compact_to_target(compact);
    let mut tb = [0u8; 32];
    target.into_big_endian(&mut tb).expect("32");
    let t_hi = u64::from_be_bytes(tb[0..8].try_into().unwrap());
    let raw = raw_header(r, compact);
    let ph = raw.calc_pow_hash();
    let base = ((r.next_u64() as u128) << 64) | r.next_u64() as u128;
    let mut best: (u32, u128) = (0, base);
    let mut first_ok: Option<u128> = None;
    for i in 0..tries {
        let nonce = base.wrapping_add(i as u128);
        let msg = pow_message(&ph, nonce);
        let mut o = [0u8; 32];
        eaglesong::eaglesong(&msg, &mut o);
        if k == 1 {
            o = ckb_hash::blake2b_256(o);
        }
        let h_hi = u64::from_be_bytes(o[0..8].try_into().unwrap());
        let agree = (h_hi ^ t_hi).leading_zeros();
        if agree > best.0 {
            best = (agree, nonce);
        }
        if first_ok.is_none() && h_hi < t_hi {
            first_ok = Some(nonce);
        }
    }
    emit_pw(out, k, &raw, compact, best.1);
    emit_pw(out, k, &raw, compact, best.1.wrapping_add(1));
    if let Some(n) = first_ok {
        emit_pw(out, k, &raw, compact, n);
    }
}

// ------------------------------------------------------------------------------------- check 5

fn classify_hv(res: Result<(), ckb_error::Error>) -> String {
    match res {
        Ok(()) => "ok".to_string(),
        Err(e) => {
            let s = format!("{e:?} {e}");
            if s.contains("Malformed") {
                "malformed".to_string()
            } else if s.contains("NonContinuous") {
                "noncontinuous".to_string()
            } else {
                format!("other:{s}")
            }
        }
    }
}

fn rand_epoch(r: &mut Rng) -> u64 {
    let length = match r.below(10) {
        0 => 0,
        1 => 1,
        2 => 2,
        3 => MIN_LEN,
        4 => MAX_LEN,
        5 => 65535,
        _ => r.range(1, 2000),
    };
    let index = match r.below(10) {
        0 => 0,
        1 | 2 => length.saturating_sub(1),
        3 => length,
        4 => length + 1,
        5 => 65535,
        6 => length.saturating_sub(2),
        _ => r.below(length.max(1)),
    } & 0xffff;
    let number = match r.below(8) {
        0 => 0,
        1 => 1,
        2 => (1 << 24) - 1,
        3 => (1 << 24) - 2,
        _ => r.below(1 << 24),
    };
    let top = if r.chance(1, 12) { r.range(1, 255) } else { 0 };
    (top << 56) | EpochNumberWithFraction::new_unchecked(number, index, length).full_value()
}

pub fn gen_ep<W: Write>(r: &mut Rng, out: &mut Out<W>, dummy: &Consensus) {
    let a = match r.below(12) {
        0 => 0,
        _ => rand_epoch(r),
    };
    let ea = EpochNumberWithFraction::from_full_value_unchecked(a);
    let (n, i, l) = (ea.number(), ea.index(), ea.length());
    let mk = |n: u64, i: u64, l: u64| {
        EpochNumberWithFraction::new_unchecked(n & 0xff_ffff, i & 0xffff, l & 0xffff).full_value()
    };
    let anylen = r.range(1, 2000);
    let b = match r.below(16) {
        0 | 1 | 2 => mk(n, i + 1, l),
        3 | 4 | 5 => mk(n + 1, 0, anylen),
        6 => mk(n, i + 1, l + 1),
        7 => mk(n, i + 2, l),
        8 => mk(n + 1, 0, 0),
        9 => mk(n, 0, l),
        10 => mk(n + 2, 0, anylen),
        11 => mk(n + 1, 1, anylen),
        12 => mk(n, i, l),
        13 => mk(n + 1, 0, l),
        _ => rand_epoch(r),
    };
    let b = if r.chance(1, 20) { b | (r.range(1, 255) << 56) } else { b };
    let eb = EpochNumberWithFraction::from_full_value_unchecked(b);
    let store = PairStore {
        parent_hash: Byte32::from_slice(&rand32(r)).unwrap(),
        parent_number: 7,
        parent_epoch: ea,
        grand_hash: Byte32::from_slice(&rand32(r)).unwrap(),
    };
    let header = mk_header(8, 3000, 0x2080_0000, b, &store.parent_hash, &rand32(r), 0);
    let hv = classify_hv(HeaderVerifier::new(&store, dummy).verify(&header));
    out.emit(
        "ep",
        json!({"a": a, "b": b}),
        json!({"succ": eb.is_successor_of(ea), "wf_a": ea.is_well_formed(), "wf_b": eb.is_well_formed(),
               "gen_a": ea.is_genesis(), "fa": [n, i, l], "fb": [eb.number(), eb.index(), eb.length()], "hv": hv}),
    );
}

/// Drive `next_epoch_ext` block by block along a synthetic chain, the way block assembly and
/// contextual verification do: epoch of block n+1 = next_epoch_ext(block n).
pub fn gen_chain<W: Write>(r: &mut Rng, out: &mut Out<W>, chain_id: u64, max_blocks: u64, max_epochs: u64) {
    let base = Consensus::default();
    let l0 = *r.pick(&[1u64, 2, 10, 37, 100, 150, 300, 301, 1000, 1800]);
    let ort = *r.pick(&[(1u32, 40u32), (1, 40), (1, 20), (3, 100)]);
    let edt = *r.pick(&[14400u64, 14400, 100, 3600, 1 << 20]);
    let hi = *r.pick(&[1u64, 2, 3, 8760]);
    let ipr = *r.pick(&[INITIAL_PRIMARY, INITIAL_PRIMARY, 1000, u64::MAX]);
    let g_compact = canonical_compact(r, 18, 32);
    let genesis = base
        .genesis_block()
        .as_advanced_builder()
        .compact_target(g_compact)
        .build();
    let gext = build_genesis_epoch_ext(Capacity::shannons(ipr), g_compact, l0, edt, ort);
    let consensus = ConsensusBuilder::new(genesis.clone(), gext)
        .epoch_duration_target(edt)
        .orphan_rate_target(ort)
        .initial_primary_epoch_reward(Capacity::shannons(ipr))
        .primary_epoch_reward_halving_interval(hi)
        .pow(Pow::Dummy)
        .permanent_difficulty_in_dummy(false)
        .build();
    let cfg = Cfg { consensus, edt, ort, ipr, hi, sec: DEFAULT_SECONDARY, pow: Pow::Dummy, perm: false };
    let consensus = &cfg.consensus;

    let mut store = ChainStore::default();
    store.epochs.push(consensus.genesis_epoch_ext().clone());
    store.push(genesis.header(), 0, 0);
    let g = &store.headers[0];
    out.emit(
        "cb",
        json!({"chain": chain_id, "n": 0}),
        json!({"ep": g.epoch().full_value(), "head": true, "en": 0, "es": 0, "el": l0, "hv": "ok",
               "ct": g.compact_target(), "ect": store.epochs[0].compact_target()}),
    );
    // per-epoch regimes
    let mut delta_ms: u64 = 8000;
    let mut uncle_mode: u64 = 3;
    let mut n: u64 = 0;
    while n < max_blocks && (store.epochs.len() as u64) <= max_epochs {
        let parent = store.headers[n as usize].clone();
        let res = catch(|| consensus.next_epoch_ext(&parent, &store));
        let parent_epoch = store.epochs[store.epoch_of[n as usize]].clone();
        let is_tail = parent.number() == parent_epoch.start_number() + parent_epoch.length() - 1;
        if is_tail || r.chance(1, 200) {
            // full arithmetic oracle on this call as well
            let last_hash = if parent_epoch.is_genesis() {
                store.headers[0].hash()
            } else {
                parent_epoch.last_block_hash_in_previous_epoch()
            };
            let li = store.by_hash[&last_hash];
            let input = json!({
                "c": cfg.json(), "e": epoch_json(&parent_epoch),
                "hd": {"n": parent.number(), "ct": parent.compact_target(), "ts": parent.timestamp(),
                       "hash": hex(parent.hash().as_slice())},
                "st": {"u0": store.uncles_total[li], "u1": store.uncles_total[n as usize],
                       "t0": store.headers[li].timestamp()},
                "cls": "regular", "chain": chain_id,
            });
            let output = match &res {
                Err(msg) => json!({"v": "panic", "msg": msg}),
                Ok(None) => json!({"v": "none"}),
                Ok(Some(NextBlockEpoch::HeadBlock(e))) => json!({"v": "head", "e": epoch_json(e)}),
                Ok(Some(NextBlockEpoch::NonHeadBlock(e))) => json!({"v": "nonhead", "e": epoch_json(e)}),
            };
            out.emit("ne", input, output);
        }
        let next = match res {
            Ok(Some(x)) => x,
            _ => break,
        };
        let head = next.is_head();
        let e = next.epoch();
        if head {
            store.epochs.push(e.clone());
            delta_ms = *r.pick(&[1u64, 100, 4000, 8000, 8000, 12000, 48000, 1_000_000]);
            uncle_mode = r.below(5);
        }
        n += 1;
        if n < e.start_number() || n >= e.start_number() + e.length() || e.length() == 0 || e.length() > 65535 {
            // would trip number_with_fraction's debug assertion: leave the gap for the oracle to see
            out.emit(
                "cb",
                json!({"chain": chain_id, "n": n}),
                json!({"ep": 0, "head": head, "en": e.number(), "es": e.start_number(), "el": e.length(),
                       "hv": "not-run", "ct": 0, "ect": e.compact_target()}),
            );
            break;
        }
        let ep = e.number_with_fraction(n);
        let uncles = match uncle_mode {
            0 => 0,
            1 => 2,
            2 => r.below(3),
            _ => u64::from(r.chance(ort.0 as u64, ort.1 as u64)),
        };
        let ts = parent.timestamp() + delta_ms + if delta_ms > 1 { r.below(delta_ms / 2) } else { 0 };
        let header = mk_header(n, ts, e.compact_target(), ep.full_value(), &parent.hash(), &rand32(r), 0);
        let hv = classify_hv(HeaderVerifier::new(&store, consensus).verify(&header));
        let idx = store.epochs.len() - 1;
        let ut = store.uncles_total[(n - 1) as usize] + uncles;
        out.emit(
            "cb",
            json!({"chain": chain_id, "n": n}),
            json!({"ep": ep.full_value(), "head": head, "en": e.number(), "es": e.start_number(),
                   "el": e.length(), "hv": hv, "ct": header.compact_target(), "ect": e.compact_target()}),
        );
        store.push(header, ut, idx);
    }
}

pub fn emit_consts<W: Write>(out: &mut Out<W>) {
    let c = Consensus::default();
    out.emit(
        "consts",
        json!({}),
        json!({"minl": c.min_epoch_length(), "maxl": c.max_epoch_length(), "tau": ckb_constant_tau()}),
    );
}

fn ckb_constant_tau() -> u64 {
    // the constant itself is not public API of ckb-chain-spec; observe it through behaviour:
    // with zero uncles the next length is min(max, tau * length)
    let cfg = default_cfg();
    let prev = mk_header(99, 0, 0x1f00_ffff, 0, &Byte32::zero(), &[0; 32], 0);
    let epoch = EpochExt::new_builder()
        .number(1)
        .start_number(100)
        .length(400)
        .compact_target(0x1f00_ffff)
        .previous_epoch_hash_rate(U256::zero())
        .base_block_reward(Capacity::shannons(1))
        .last_block_hash_in_previous_epoch(prev.hash())
        .build();
    let header = mk_header(499, 14_400_000, 0x1f00_ffff, 0, &Byte32::zero(), &[1; 32], 0);
    let p = OneShot { epoch, tail_hash: header.hash(), tail_uncles: 0, prev, prev_uncles: 0 };
    match cfg.consensus.next_epoch_ext(&header, &p) {
        Some(n) => n.epoch().length() / 400,
        None => 0,
    }
}

/// Probe (recorded in evidence, not judged): what happens when the tail block's timestamp is
/// below the timestamp of the last block of the previous epoch (median-time rule allows it).
pub fn probe_negative_duration() -> String {
    let prev = mk_header(99, 10_000, 0x1f00_ffff, 0, &Byte32::zero(), &[0; 32], 0);
    let epoch = EpochExt::new_builder()
        .number(1)
        .start_number(100)
        .length(300)
        .compact_target(0x1f00_ffff)
        .previous_epoch_hash_rate(U256::one())
        .base_block_reward(Capacity::shannons(1))
        .last_block_hash_in_previous_epoch(prev.hash())
        .build();
    let header = mk_header(399, 9_999, 0x1f00_ffff, 0, &Byte32::zero(), &[1; 32], 0);
    let p = OneShot { epoch, tail_hash: header.hash(), tail_uncles: 0, prev, prev_uncles: 0 };
    match catch(|| p.get_block_epoch(&header).is_some()) {
        Ok(_) => "no panic".to_string(),
        Err(m) => format!("panic: {m}"),
    }
}
