//! Mock storage behind `EpochProvider` / `HeaderFieldsProvider` and small helpers shared by the
//! generators.  Nothing in here judges anything.

use ckb_traits::{EpochProvider, HeaderFields, HeaderFieldsProvider};
use ckb_types::{
    U256,
    core::{BlockExt, BlockNumber, EpochExt, EpochNumberWithFraction, HeaderView},
    packed::{self, Byte32},
    prelude::*,
};
use std::cell::Cell;
use std::collections::HashMap;

thread_local! {
    /// set while a panic of the code under test is an expected observation
    pub static QUIET: Cell<bool> = const { Cell::new(false) };
}

pub fn install_panic_hook() {
    let default = std::panic::take_hook();
    std::panic::set_hook(Box::new(move |info| {
        if !QUIET.with(|q| q.get()) {
            default(info);
        }
    }));
}

/// Run `f`, turning a panic into `Err(message)`.
pub fn catch<T>(f: impl FnOnce() -> T) -> Result<T, String> {
    QUIET.with(|q| q.set(true));
    let r = std::panic::catch_unwind(std::panic::AssertUnwindSafe(f));
    QUIET.with(|q| q.set(false));
    r.map_err(|p| {
        if let Some(s) = p.downcast_ref::<&str>() {
            s.to_string()
        } else if let Some(s) = p.downcast_ref::<String>() {
            s.clone()
        } else {
            "panic".to_string()
        }
    })
}

pub fn u256_hex(u: &U256) -> String {
    format!("{u:#x}")
}

pub fn u256_from_le(bytes: &[u8; 32]) -> U256 {
    U256::from_little_endian(&bytes[..]).expect("32 bytes")
}

/// Build a header through the packed builders (no debug assertions on the field values, so
/// zero compact targets and malformed epochs can be represented, exactly as a peer could).
pub fn mk_header(
    number: u64,
    timestamp: u64,
    compact_target: u32,
    epoch: u64,
    parent_hash: &Byte32,
    salt: &[u8; 32],
    nonce: u128,
) -> HeaderView {
    let raw = packed::RawHeader::new_builder()
        .version(0u32)
        .compact_target(compact_target)
        .timestamp(timestamp)
        .number(number)
        .epoch(epoch)
        .parent_hash(parent_hash.clone())
        .transactions_root(Byte32::from_slice(salt).expect("32"))
        .build();
    packed::Header::new_builder()
        .raw(raw)
        .nonce(nonce)
        .build()
        .into_view()
}

/// Provider for one `next_epoch_ext` call: the epoch of the header, the header itself, the last
/// block of the previous epoch (timestamp + uncle total).
pub struct OneShot {
    pub epoch: EpochExt,
    pub tail_hash: Byte32,
    pub tail_uncles: u64,
    pub prev: HeaderView,
    pub prev_uncles: u64,
}

impl EpochProvider for OneShot {
    fn get_epoch_ext(&self, _h: &HeaderView) -> Option<EpochExt> {
        Some(self.epoch.clone())
    }
    fn get_block_hash(&self, number: BlockNumber) -> Option<Byte32> {
        // only asked for the genesis block, which ends the (virtual) epoch before epoch 0
        if number == 0 { Some(self.prev.hash()) } else { None }
    }
    fn get_block_ext(&self, hash: &Byte32) -> Option<BlockExt> {
        let total = if hash == &self.tail_hash {
            self.tail_uncles
        } else if hash == &self.prev.hash() {
            self.prev_uncles
        } else {
            return None;
        };
        Some(BlockExt {
            total_uncles_count: total,
            ..Default::default()
        })
    }
    fn get_block_header(&self, hash: &Byte32) -> Option<HeaderView> {
        if hash == &self.prev.hash() { Some(self.prev.clone()) } else { None }
    }
}

/// A synthetic chain: headers by number, per-block epoch, per-block uncle totals.
#[derive(Default)]
pub struct ChainStore {
    pub headers: Vec<HeaderView>,
    pub by_hash: HashMap<Byte32, usize>,
    pub uncles_total: Vec<u64>,
    pub epochs: Vec<EpochExt>,
    pub epoch_of: Vec<usize>,
}

impl ChainStore {
    pub fn push(&mut self, h: HeaderView, uncles_total: u64, epoch_idx: usize) {
        self.by_hash.insert(h.hash(), self.headers.len());
        self.headers.push(h);
        self.uncles_total.push(uncles_total);
        self.epoch_of.push(epoch_idx);
    }
}

impl EpochProvider for ChainStore {
    fn get_epoch_ext(&self, h: &HeaderView) -> Option<EpochExt> {
        self.by_hash
            .get(&h.hash())
            .map(|i| self.epochs[self.epoch_of[*i]].clone())
    }
    fn get_block_hash(&self, number: BlockNumber) -> Option<Byte32> {
        self.headers.get(number as usize).map(|h| h.hash())
    }
    fn get_block_ext(&self, hash: &Byte32) -> Option<BlockExt> {
        self.by_hash.get(hash).map(|i| BlockExt {
            total_uncles_count: self.uncles_total[*i],
            ..Default::default()
        })
    }
    fn get_block_header(&self, hash: &Byte32) -> Option<HeaderView> {
        self.by_hash.get(hash).map(|i| self.headers[*i].clone())
    }
}

impl HeaderFieldsProvider for ChainStore {
    fn get_header_fields(&self, hash: &Byte32) -> Option<HeaderFields> {
        self.by_hash.get(hash).map(|i| {
            let h = &self.headers[*i];
            HeaderFields {
                hash: h.hash(),
                number: h.number(),
                epoch: h.epoch(),
                timestamp: h.timestamp(),
                parent_hash: h.parent_hash(),
            }
        })
    }
}

/// Two-block ancestry (grand-parent with number 0, parent with a chosen epoch) for driving the
/// public `HeaderVerifier` on arbitrary (parent epoch, child epoch) pairs.
pub struct PairStore {
    pub parent_hash: Byte32,
    pub parent_number: u64,
    pub parent_epoch: EpochNumberWithFraction,
    pub grand_hash: Byte32,
}

impl HeaderFieldsProvider for PairStore {
    fn get_header_fields(&self, hash: &Byte32) -> Option<HeaderFields> {
        if hash == &self.parent_hash {
            Some(HeaderFields {
                hash: hash.clone(),
                number: self.parent_number,
                epoch: self.parent_epoch,
                timestamp: 2000,
                parent_hash: self.grand_hash.clone(),
            })
        } else if hash == &self.grand_hash {
            Some(HeaderFields {
                hash: hash.clone(),
                number: 0,
                epoch: EpochNumberWithFraction::new_unchecked(0, 0, 0),
                timestamp: 1000,
                parent_hash: Byte32::zero(),
            })
        } else {
            None
        }
    }
}
