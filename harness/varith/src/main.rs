//! varith — engine for property C07 (epoch length / difficulty / issuance / compact / PoW
//! arithmetic).  Drives the real public APIs of ckb-chain-spec, ckb-types, ckb-pow and
//! ckb-verification over generated inputs, writes (inputs, observed outputs) as JSONL and lets
//! `/verif/oracles/arith.py` recompute every expectation with exact Python integers/fractions.
//!
//! usage: varith [--seed S] [--tier quick|thorough] [chunks=N] [per_chunk=N] [oracle=PATH] [miri=0|1]

mod gens;
mod mock;

use gens::*;
use serde_json::{Value, json};
use std::collections::{BTreeMap, HashSet};
use std::io::{BufWriter, Read};
use std::path::{Path, PathBuf};
use std::process::{Command, Stdio};
use std::sync::Mutex;
use std::sync::atomic::{AtomicU64, Ordering};
use std::time::{Duration, Instant};
use vbase::{Args, Report, Rng, Scratch, Tier};

struct Plan {
    chunks: u64,
    per_chunk: u64,
    weights: [u64; 8], // ne br hv ct dt tc pw ep
    chain_blocks: u64,
    chain_epochs: u64,
    mined: u64,
    mine_tries: u64,
    py_timeout: Duration,
}

fn plan(args: &Args) -> Plan {
    let mut p = match args.tier {
        Tier::Quick => Plan {
            chunks: 16,
            per_chunk: 2500,
            weights: [25, 5, 4, 50, 4, 3, 3, 6],
            chain_blocks: 2500,
            chain_epochs: 7,
            mined: 3,
            mine_tries: 1 << 17,
            py_timeout: Duration::from_secs(60),
        },
        Tier::Thorough => Plan {
            chunks: 80,
            per_chunk: 25_000,
            weights: [40, 6, 5, 22, 6, 4, 5, 12],
            chain_blocks: 12_000,
            chain_epochs: 12,
            mined: 8,
            mine_tries: 1 << 18,
            py_timeout: Duration::from_secs(400),
        },
    };
    p.chunks = args.get_u64("chunks", p.chunks);
    p.per_chunk = args.get_u64("per_chunk", p.per_chunk);
    p
}

fn gen_chunk(seed: u64, idx: u64, p: &Plan, path: &Path) -> u64 {
    let mut r = Rng::new(seed.wrapping_mul(0x9E37_79B9_7F4A_7C15) ^ idx.wrapping_mul(0xD1B5_4A32_D192_ED03).wrapping_add(idx));
    let file = std::fs::File::create(path).expect("create chunk file");
    let mut out = Out { w: BufWriter::with_capacity(1 << 20, file), chunk: idx, n: 0 };

    // configurations of this chunk: the mainnet-like default plus random ones
    let mut cfgs = vec![default_cfg()];
    for _ in 0..15 {
        cfgs.push(random_cfg(&mut r));
    }
    let dummy = ckb_chain_spec::consensus::Consensus::default();

    if idx == 0 {
        emit_consts(&mut out);
        emit_mainnet_halving_cases(&mut r, &mut out);
        // all 2^8 exponents x boundary mantissas
        for e in 0u32..=255 {
            for m in BOUNDARY_MANTISSAS {
                emit_ct(&mut out, (e << 24) | m);
            }
        }
    }
    let total_w: u64 = p.weights.iter().sum();
    for _ in 0..p.per_chunk {
        let mut x = r.below(total_w);
        let mut k = 0;
        while x >= p.weights[k] {
            x -= p.weights[k];
            k += 1;
        }
        match k {
            0 => gen_ne(&mut r, &mut out, &cfgs),
            1 => gen_br(&mut r, &mut out, &cfgs),
            2 => gen_hv(&mut r, &mut out, &cfgs),
            3 => gen_ct(&mut r, &mut out),
            4 => gen_dt(&mut r, &mut out),
            5 => gen_tc(&mut r, &mut out),
            6 => gen_pw_random(&mut r, &mut out),
            _ => gen_ep(&mut r, &mut out, &dummy),
        }
    }
    for _ in 0..p.mined {
        gen_pw_mined(&mut r, &mut out, p.mine_tries);
    }
    gen_chain(&mut r, &mut out, idx, p.chain_blocks, p.chain_epochs);
    use std::io::Write;
    out.w.flush().expect("flush");
    out.n
}

enum PyOutcome {
    Summary(Value),
    Failed(String),
    Timeout,
}

fn run_with_timeout(mut cmd: Command, timeout: Duration) -> Result<(bool, String, String), String> {
    let mut child = cmd
        .stdin(Stdio::null())
        .stdout(Stdio::piped())
        .stderr(Stdio::piped())
        .spawn()
        .map_err(|e| format!("spawn: {e}"))?;
    let mut so = child.stdout.take().unwrap();
    let mut se = child.stderr.take().unwrap();
    let t_out = std::thread::spawn(move || {
        let mut s = String::new();
        let _ = so.read_to_string(&mut s);
        s
    });
    let t_err = std::thread::spawn(move || {
        let mut s = String::new();
        let _ = se.read_to_string(&mut s);
        s
    });
    let start = Instant::now();
    let status = loop {
        match child.try_wait() {
            Ok(Some(st)) => break Some(st),
            Ok(None) => {
                if start.elapsed() > timeout {
                    let _ = child.kill();
                    let _ = child.wait();
                    break None;
                }
                std::thread::sleep(Duration::from_millis(20));
            }
            Err(e) => return Err(format!("wait: {e}")),
        }
    };
    let out = t_out.join().unwrap_or_default();
    let err = t_err.join().unwrap_or_default();
    match status {
        None => Err("timeout".to_string()),
        Some(st) => Ok((st.success(), out, err)),
    }
}

fn run_python(oracle: &str, file: &Path, timeout: Duration) -> PyOutcome {
    let mut cmd = Command::new("python3");
    cmd.arg(oracle).arg(file);
    match run_with_timeout(cmd, timeout) {
        Err(e) if e == "timeout" => PyOutcome::Timeout,
        Err(e) => PyOutcome::Failed(e),
        Ok((ok, out, err)) => {
            if !ok {
                return PyOutcome::Failed(format!("exit status != 0: {}", err.lines().last().unwrap_or("")));
            }
            match serde_json::from_str::<Value>(out.trim()) {
                Ok(v) => PyOutcome::Summary(v),
                Err(e) => PyOutcome::Failed(format!("unparsable summary: {e}")),
            }
        }
    }
}

const MIRI_STAGES: &[&str] = &[
    "eaglesong", "u256-add", "u256-sub", "u256-bitops", "u256-mul", "u256-div", "u256-gcd", "u256-shift", "u256-cmp",
    "u256-from-be", "u256-conv-be", "u256-conv-le", "u256-fmt", "rational-muldiv", "rational-addsub", "compact",
];

enum MiriStage {
    Clean(u64),
    /// (signature suffix, first line of the report, frame 0)
    Ub(String, String, String),
    Panic(String),
    Unavailable(String),
    Failed(String),
}

fn miri_cmdline(stage: &str) -> String {
    format!("cd /verif/harness-miri && cargo +nightly miri run --offline -q -p miri-arith --features types -- {stage}")
}

/// One Miri process per stage (Miri stops at the first undefined behaviour).
fn run_miri_stage(dir: &Path, stage: &str, timeout: Duration) -> MiriStage {
    let mut cmd = Command::new("cargo");
    cmd.args(["+nightly", "miri", "run", "--offline", "-q", "-p", "miri-arith", "--features", "types", "--", stage])
        .current_dir(dir)
        .env_remove("RUSTFLAGS")
        .env_remove("CARGO_ENCODED_RUSTFLAGS")
        .env_remove("RUSTUP_TOOLCHAIN")
        .env_remove("RUSTC")
        .env_remove("CARGO");
    match run_with_timeout(cmd, timeout) {
        Err(e) => MiriStage::Failed(e),
        Ok((ok, out, err)) => {
            let ops = out
                .lines()
                .filter_map(|l| l.strip_prefix("MIRI_OPS="))
                .filter_map(|v| v.trim().parse::<u64>().ok())
                .next_back();
            if ok {
                return match ops {
                    Some(n) => MiriStage::Clean(n),
                    None => MiriStage::Failed("no MIRI_OPS line".into()),
                };
            }
            if let Some(first) = err.lines().find(|l| l.contains("Undefined Behavior:")) {
                let frame0 = err
                    .lines()
                    .find(|l| l.trim_start().starts_with("0: "))
                    .map(|l| l.trim().trim_start_matches("0: ").to_string())
                    .unwrap_or_default();
                let krate = frame0.split("::").next().unwrap_or("unknown").to_string();
                let class = if first.contains("uninitialized memory") {
                    "uninit_integer".to_string()
                } else if first.contains("in-bounds pointer arithmetic failed") {
                    "ptr_offset_out_of_bounds".to_string()
                } else {
                    first
                        .split("Undefined Behavior:")
                        .nth(1)
                        .unwrap_or("")
                        .trim()
                        .chars()
                        .take(40)
                        .map(|c| if c.is_ascii_alphanumeric() { c } else { '_' })
                        .collect()
                };
                return MiriStage::Ub(format!("{krate}.{class}"), first.trim().to_string(), frame0);
            }
            if let Some(l) = err.lines().find(|l| l.contains("panicked at")) {
                return MiriStage::Panic(l.to_string());
            }
            if err.contains("no such command") || err.contains("is not installed") || err.contains("not installed") {
                return MiriStage::Unavailable(err.lines().next().unwrap_or("").to_string());
            }
            MiriStage::Failed(err.lines().rev().take(3).collect::<Vec<_>>().join(" | "))
        }
    }
}

fn run_miri() -> Vec<(String, MiriStage)> {
    let dir = PathBuf::from(std::env::var("VERIF_MIRI_DIR").unwrap_or_else(|_| "/verif/harness-miri".into()));
    if !dir.join("Cargo.toml").exists() {
        return vec![("*".into(), MiriStage::Unavailable(format!("{} missing", dir.display())))];
    }
    let mut v = vec![];
    for (i, st) in MIRI_STAGES.iter().enumerate() {
        // the first invocation may have to build the sysroot and the dependencies
        let timeout = Duration::from_secs(if i == 0 { 1200 } else { 300 });
        let r = run_miri_stage(&dir, st, timeout);
        let stop = matches!(r, MiriStage::Unavailable(_));
        v.push((st.to_string(), r));
        if stop {
            break;
        }
    }
    v
}

fn main() {
    let args = Args::parse();
    mock::install_panic_hook();
    let p = plan(&args);
    let mut report = Report::new(
        "C07",
        "exploration",
        &args,
        "a distinct non-trivial case = one input record (hash of all inputs) that the exact oracle classified into at least one boundary class (clamp up/down, min/max length, zero uncles, halving boundary, overflow/zero/non-canonical compact, remainder 0, near-target hash, epoch end, malformed fraction ...)",
    );
    report.max_samples = 10;
    report.assume("python3 int / fractions.Fraction arithmetic and hashlib.blake2b are correct");
    report.assume("the `eaglesong` crate (called directly, not through the PoW engines) computes the Eaglesong hash; the oracle recomputes pow_hash, message layout, the optional blake2b step, target decoding and the comparison");
    report.assume("PoW equality case hash == target is unreachable by search (2^-256): `<=` vs `<` is not decided; near-boundary means hash and target agree on >= 16 (quick) / 24 (thorough) leading bits");
    report.assume("integer steps of the adjustment are part of consensus and mirrored as such: duration = max(ms div 1000, 1) seconds, hash-rate estimate floor(diff*(C+U)/seconds), clamp bounds prev div 2 and prev*2, estimate >= 1, length floor, lower length bound = previous div 2 (for odd previous lengths the result may be (L-1)/2, i.e. half a block below L/2), o* falls back to o_ideal when the estimated orphan rate is not positive/finite, difficulty = floor and >= 1");
    report.assume("'within a factor of two and within [300,1800]' is only satisfiable for previous lengths in [150,3600]; outside (reachable only with a non-standard genesis epoch length) only 'in range OR within factor two' is required and the precedence of the two bounds is taken from the observed result");
    report.assume("regular inputs: difficulty <= 2^136, L_ideal <= 2^32 s, uncles <= 2*length, previous estimate within 2^12 of the raw estimate or <= 2^140; 'extreme' inputs (5%) go up to the u64/U256 limits — there a panic of the checked U256/u64 arithmetic is counted (class extreme_panic), not judged; results that are returned are judged exactly");
    report.assume("compact exponents above 32 with a value that still fits 256 bits may be flagged as overflow (conservative rule); everything else about the flag is judged");
    report.assume("difficulty 0 has no target (2^256/0): difficulty_to_compact(0) panicking is recorded, not judged");
    report.assume("EpochExt::block_reward/secondary_block_issuance return Ok(base) for block numbers outside the epoch (no error); judged only that such blocks get no remainder share");

    let oracle = args
        .get_str("oracle")
        .map(|s| s.to_string())
        .unwrap_or_else(|| std::env::var("VERIF_ORACLE_ARITH").unwrap_or_else(|_| "/verif/oracles/arith.py".into()));
    if !Path::new(&oracle).exists() {
        report.inconclusive(&format!("oracle script {oracle} not found"));
        std::process::exit(report.finish(None));
    }

    // Miri pass in the background (thorough tier)
    let want_miri = args.get_u64("miri", if args.tier == Tier::Thorough { 1 } else { 0 }) == 1;
    let miri_handle = if want_miri {
        Some(std::thread::spawn(run_miri))
    } else {
        None
    };

    let scratch = Scratch::new("varith");
    let next = AtomicU64::new(0);
    let gen_ms = AtomicU64::new(0);
    let py_ms = AtomicU64::new(0);
    let results: Mutex<BTreeMap<u64, (u64, PyOutcome)>> = Mutex::new(BTreeMap::new());
    let workers = (p.chunks as usize).min(16).max(1);
    let t0 = Instant::now();
    std::thread::scope(|s| {
        for _ in 0..workers {
            s.spawn(|| {
                loop {
                    let idx = next.fetch_add(1, Ordering::SeqCst);
                    if idx >= p.chunks {
                        break;
                    }
                    let path = scratch.join(&format!("chunk-{idx}.jsonl"));
                    let t = Instant::now();
                    let n = gen_chunk(args.seed, idx, &p, &path);
                    gen_ms.fetch_add(t.elapsed().as_millis() as u64, Ordering::Relaxed);
                    let t = Instant::now();
                    let res = run_python(&oracle, &path, p.py_timeout);
                    py_ms.fetch_add(t.elapsed().as_millis() as u64, Ordering::Relaxed);
                    let _ = std::fs::remove_file(&path);
                    results.lock().unwrap().insert(idx, (n, res));
                }
            });
        }
    });
    let gen_check_s = t0.elapsed().as_secs_f64();

    let results = results.into_inner().unwrap();
    let mut distinct: HashSet<u64> = HashSet::new();
    let mut records = 0u64;
    for (idx, (n, res)) in &results {
        records += n;
        match res {
            PyOutcome::Timeout => report.inconclusive(&format!("python oracle timed out on chunk {idx}")),
            PyOutcome::Failed(e) => report.inconclusive(&format!("python oracle failed on chunk {idx}: {e}")),
            PyOutcome::Summary(v) => {
                if v["records"].as_u64() != Some(*n) {
                    report.inconclusive(&format!("chunk {idx}: oracle saw {} of {n} records", v["records"]));
                }
                report.evals(v["evals"].as_u64().unwrap_or(0));
                if let Some(m) = v["kinds"].as_object() {
                    for (k, c) in m {
                        report.count_n(&format!("records.{k}"), c.as_u64().unwrap_or(0));
                    }
                }
                if let Some(m) = v["classes"].as_object() {
                    for (k, c) in m {
                        report.count_n(&format!("class.{k}"), c.as_u64().unwrap_or(0));
                    }
                }
                if let Some(a) = v["nontrivial"].as_array() {
                    for h in a {
                        if let Some(h) = h.as_u64() {
                            distinct.insert(h);
                        }
                    }
                }
                if let Some(m) = v["by_sig"].as_object() {
                    for (sig, c) in m {
                        // violation() counts one per call; add the rest here
                        let c = c.as_u64().unwrap_or(1);
                        if let Some(first) = v["mismatches"].as_array().and_then(|a| a.iter().find(|x| x["sig"] == *sig)) {
                            report.violation(
                                sig,
                                first["detail"].as_str().unwrap_or("").to_string(),
                                json!({"seed": args.seed, "tier": args.tier.as_str(), "chunk": idx,
                                       "record": first["rec"],
                                       "recheck": "write `record` as one line to a file and run python3 /verif/oracles/arith.py <file>"}),
                            );
                            report.count_n(&format!("violation::{sig}"), c.saturating_sub(1));
                        }
                    }
                }
                if *idx == 1 {
                    if let Some(a) = v["samples"].as_array() {
                        for x in a.iter().take(3) {
                            report.sample(json!({"record": x}));
                        }
                    }
                }
                if report.samples.len() < report.max_samples {
                    if let Some(a) = v["mismatches"].as_array() {
                        for x in a.iter().take(2) {
                            report.sample(json!({"mismatch": x["sig"], "id": x["id"], "detail": x["detail"]}));
                        }
                    }
                }
            }
        }
    }
    report.add_distinct_count(distinct.len() as u64);
    report.count_n("records.total", records);
    report.count_n("python_chunks", results.len() as u64);
    report.note("gen_and_check_wall_s", json!(gen_check_s));
    report.note("cpu_s_generation_sum", json!(gen_ms.load(Ordering::Relaxed) as f64 / 1000.0));
    report.note("cpu_s_python_sum", json!(py_ms.load(Ordering::Relaxed) as f64 / 1000.0));
    report.note("probe_tail_timestamp_below_epoch_start", json!(probe_negative_duration()));
    report.note("plan", json!({"chunks": p.chunks, "per_chunk": p.per_chunk, "chain_blocks_per_chunk": p.chain_blocks,
        "mined_headers_per_chunk": p.mined, "nonces_per_mined_header": p.mine_tries}));

    // what must have been observed for a green verdict
    let full = p.chunks >= 8 && p.per_chunk >= 1000;
    if full {
        for (c, min) in [
            ("records.ne", 1000),
            ("records.br", 100),
            ("records.hv", 100),
            ("records.ct", 6656 + 1000),
            ("records.dt", 100),
            ("records.tc", 100),
            ("records.pw", 100),
            ("records.ep", 500),
            ("records.cb", 2000),
            ("records.consts", 1),
            ("class.hr_clamp_up", 1),
            ("class.hr_clamp_down", 1),
            ("class.hr_at_upper_edge", 1),
            ("class.hr_at_lower_edge", 1),
            ("class.hr_unclamped", 1),
            ("class.prev_hash_rate_zero", 1),
            ("class.zero_uncles", 1),
            ("class.max_uncles", 1),
            ("class.dur_sub_second", 1),
            ("class.dur_zero", 1),
            ("class.len_clamp_max", 1),
            ("class.len_clamp_min", 1),
            ("class.len_clamp_double", 1),
            ("class.len_clamp_half", 1),
            ("class.len_unbounded", 1),
            ("class.prev_len_min", 1),
            ("class.prev_len_max", 1),
            ("class.halving_boundary", 1),
            ("class.difficulty_floor_one", 1),
            ("class.orphan_estimate_fallback", 1),
            ("class.non_tail", 1),
            ("class.permanent", 1),
            ("class.rem_zero", 1),
            ("class.rem_nonzero", 1),
            ("class.rem_len_minus_1", 1),
            ("class.sec_rem_zero", 1),
            ("class.halving_first_epoch", 1),
            ("class.halving_last_epoch", 1),
            ("class.overflow_compact", 1),
            ("class.zero_target", 1),
            ("class.canonical", 1),
            ("class.noncanonical", 1),
            ("class.difficulty_one", 1),
            ("class.pow_accept", 1),
            ("class.pow_reject", 1),
            ("class.pow_zero_target", 1),
            ("class.pow_overflow_target", 1),
            ("class.pow_dummy", 1),
            ("class.pow_near_boundary_16", 1),
            ("class.successor_same_epoch", 1),
            ("class.successor_next_epoch", 1),
            ("class.parent_at_epoch_end", 1),
            ("class.parent_malformed", 1),
            ("class.child_malformed", 1),
            ("class.length_zero", 1),
            ("class.parent_genesis", 1),
            ("class.chain_epoch_head", 3),
        ] {
            report.require(c, min);
        }
        if args.tier == Tier::Thorough {
            report.require("class.pow_near_boundary_24", 1);
        }
    }

    if let Some(h) = miri_handle {
        let stages = h.join().unwrap_or_default();
        let mut notes = serde_json::Map::new();
        let mut ub_functions: BTreeMap<String, Vec<String>> = BTreeMap::new();
        for (st, r) in &stages {
            report.count("miri_stages");
            match r {
                MiriStage::Clean(n) => {
                    report.count_n("miri_ops", *n);
                    report.count("miri_stages_clean");
                    notes.insert(st.clone(), json!(format!("clean ({n} ops)")));
                }
                MiriStage::Ub(sig, first, frame0) => {
                    notes.insert(st.clone(), json!(format!("UB in {frame0}: {first}")));
                    ub_functions.entry(sig.clone()).or_default().push(format!("{st}: {frame0}"));
                    report.violation(
                        &format!("miri.ub.{sig}"),
                        format!("Miri stage `{st}`: {first} (frame 0: {frame0})"),
                        json!({"cmd": miri_cmdline(st), "stage": st, "report": first, "frame0": frame0}),
                    );
                }
                MiriStage::Panic(l) => {
                    notes.insert(st.clone(), json!(format!("panic: {l}")));
                    report.violation(
                        &format!("miri.panic@{st}"),
                        l.clone(),
                        json!({"cmd": miri_cmdline(st), "stage": st, "stderr": l}),
                    );
                }
                MiriStage::Unavailable(e) => {
                    notes.insert(st.clone(), json!(format!("skipped: miri unavailable ({e})")));
                }
                MiriStage::Failed(e) => {
                    notes.insert(st.clone(), json!(format!("did not complete: {e}")));
                    report.inconclusive(&format!("miri stage {st} did not complete: {e}"));
                }
            }
        }
        report.note("miri", Value::Object(notes));
        report.note("miri_ub_sites", json!(ub_functions));
    } else {
        report.note("miri", json!("not run in this tier"));
    }

    drop(scratch);
    std::process::exit(report.finish(None));
}
