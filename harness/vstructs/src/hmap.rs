//! Sub-engine C (sequential part): the real `ckb_shared::HeaderMap` (memory LRU + sled backend)
//! against a plain `HashMap<hash, HeaderIndexView>`, with `verif_limit_memory()` (the spill that
//! the node runs from a 5 s timer) placed at every position of the operation sequences.
//!
//! Every `get` / `contains_key` answer is compared with the plain map (full view equality).
//! The return value of `insert` is not judged: no caller reads it.
//! The maps are built on a runtime that is never driven, so the only spills are the explicit ones.

use crate::hooks;
use crate::util::{Acc, Deadline, catch, hcomb, parallel, short, synth_hash};
use ckb_async_runtime::Handle;
use ckb_shared::{HeaderIndexView, HeaderMap};
use ckb_types::U256;
use ckb_types::core::EpochNumberWithFraction;
use ckb_types::packed::Byte32;
use serde_json::{Value, json};
use std::collections::HashMap;
use std::path::{Path, PathBuf};
use std::sync::Arc;
use std::sync::atomic::{AtomicBool, AtomicUsize, Ordering};
use std::time::Duration;
use vbase::{Rng, Tier};

/// A tokio runtime that nobody drives: tasks spawned on it (the header map's timer loop) never run.
pub struct IdleRuntime {
    _rt: tokio::runtime::Runtime,
    pub handle: Handle,
}

impl IdleRuntime {
    pub fn new() -> IdleRuntime {
        let rt = tokio::runtime::Builder::new_current_thread()
            .enable_all()
            .build()
            .expect("tokio runtime");
        let handle = Handle::new(rt.handle().clone(), None);
        IdleRuntime { _rt: rt, handle }
    }
}

pub fn new_map(dir: &Path, limit_items: usize, rt: &IdleRuntime, ibd_finished: bool) -> HeaderMap {
    HeaderMap::new(
        Some(dir),
        limit_items * std::mem::size_of::<HeaderIndexView>(),
        &rt.handle,
        Arc::new(AtomicBool::new(ibd_finished)),
    )
}

/// A view for `key` whose every field is a function of `uid` (so stale values are visible).
/// Odd uids carry a skip hash (120-byte backend encoding), even ones do not (88 bytes).
pub fn make_view(key: &Byte32, uid: u64) -> HeaderIndexView {
    let with_skip = uid % 2 == 1;
    let number = if with_skip { 5 } else { uid % 100_000 };
    let epoch = EpochNumberWithFraction::new(uid & 0xffff, (uid >> 16) & 0xff, 1000);
    let parent = synth_hash(0x9A7E, uid);
    let td = U256::from(uid) * U256::from(0x1_0000_0001u64) + U256::from(7u64);
    let mut v = HeaderIndexView::new(key.clone(), number, epoch, uid, parent.clone(), td);
    if with_skip {
        // let the real build_skip store the hash we choose: the parent lookup answers with a
        // dummy, the fast scanner with a view carrying the wanted hash
        let want = synth_hash(0x5C19, uid);
        let dummy = HeaderIndexView::new(
            parent.clone(),
            4,
            epoch,
            0,
            synth_hash(0x9A7F, uid),
            U256::from(1u64),
        );
        let target = HeaderIndexView::new(
            want.clone(),
            1,
            epoch,
            0,
            synth_hash(0x9A80, uid),
            U256::from(1u64),
        );
        v.build_skip(
            0,
            |_h, _| Some(dummy.clone()),
            |_n, _c| Some(target.clone()),
        );
        assert_eq!(v.skip_hash(), Some(&want));
    }
    v
}

fn view_json(v: &Option<HeaderIndexView>) -> Value {
    match v {
        None => Value::Null,
        Some(v) => json!({
            "hash": short(&v.hash()), "number": v.number(), "epoch": v.epoch().full_value(),
            "timestamp(uid)": v.timestamp(), "parent_hash": short(&v.parent_hash()),
            "total_difficulty": format!("{:#x}", v.total_difficulty()),
            "skip_hash": v.skip_hash().map(short),
        }),
    }
}

#[derive(Clone, Copy, Debug, PartialEq, Eq)]
pub enum Op {
    Ins(usize),
    Get(usize),
    Rem(usize),
    Has(usize),
    Spill,
}

impl Op {
    fn code(&self) -> u64 {
        match self {
            Op::Ins(k) => 100 + *k as u64,
            Op::Get(k) => 200 + *k as u64,
            Op::Rem(k) => 300 + *k as u64,
            Op::Has(k) => 400 + *k as u64,
            Op::Spill => 500,
        }
    }
    fn json(&self) -> Value {
        match self {
            Op::Ins(k) => json!({"insert": k}),
            Op::Get(k) => json!({"get": k}),
            Op::Rem(k) => json!({"remove": k}),
            Op::Has(k) => json!({"contains_key": k}),
            Op::Spill => json!("verif_limit_memory"),
        }
    }
}

pub struct Keys {
    pub keys: Vec<Byte32>,
}

impl Keys {
    pub fn new(n: usize, domain: u64) -> Keys {
        Keys {
            keys: (0..n).map(|i| synth_hash(domain, i as u64)).collect(),
        }
    }
}

struct Runner<'a> {
    map: &'a HeaderMap,
    keys: &'a Keys,
    limit: usize,
    uid: u64,
    mode: &'static str,
}

struct Stats {
    seqs: u64,
    by_len: [u64; 12],
    ops: [u64; 5],
    insert_ret_differs: u64,
    get_hits: u64,
    get_misses: u64,
}

impl Stats {
    fn new() -> Stats {
        Stats {
            seqs: 0,
            by_len: [0; 12],
            ops: [0; 5],
            insert_ret_differs: 0,
            get_hits: 0,
            get_misses: 0,
        }
    }
    fn flush(&self, acc: &mut Acc, p: &str) {
        acc.count_n(&format!("hm.{p}.sequences"), self.seqs);
        for (l, n) in self.by_len.iter().enumerate() {
            if *n > 0 {
                acc.count_n(&format!("hm.{p}.sequences_len{l}"), *n);
            }
        }
        acc.count_n(&format!("hm.{p}.op.insert"), self.ops[0]);
        acc.count_n(&format!("hm.{p}.op.get"), self.ops[1]);
        acc.count_n(&format!("hm.{p}.op.remove"), self.ops[2]);
        acc.count_n(&format!("hm.{p}.op.contains_key"), self.ops[3]);
        acc.count_n(&format!("hm.{p}.op.verif_limit_memory"), self.ops[4]);
        acc.count_n(&format!("hm.{p}.get_returned_value"), self.get_hits);
        acc.count_n(&format!("hm.{p}.get_returned_none"), self.get_misses);
        acc.count_n(
            &format!("hm.{p}.observed.insert_returned_none_for_present_key"),
            self.insert_ret_differs,
        );
    }
}

impl Runner<'_> {
    fn fail(&self, acc: &mut Acc, sig: &str, detail: String, seq: &[Op], step: usize, extra: Value) {
        let weight = step as u64 + 1;
        if acc.seen(sig, weight) {
            acc.recount(sig);
            return;
        }
        acc.violation_w(
            sig,
            weight,
            detail,
            json!({
                "mode": self.mode,
                "memory_limit_items": self.limit,
                "keys": self.keys.keys.iter().map(short).collect::<Vec<_>>(),
                "ops": seq.iter().take(step + 1).map(|o| o.json()).collect::<Vec<_>>(),
                "failing_step": step,
                "note": "the sequence starts from an empty map (all keys removed and verified absent)",
                "extra": extra,
            }),
        );
    }

    /// Empty the map through its own API and verify that it is empty.
    fn reset(&mut self, acc: &mut Acc, model: &mut [Option<HeaderIndexView>]) -> bool {
        for (i, k) in self.keys.keys.iter().enumerate() {
            self.map.remove(k);
            model[i] = None;
        }
        for (i, k) in self.keys.keys.iter().enumerate() {
            acc.eval();
            if self.map.contains_key(k) {
                self.fail(
                    acc,
                    "header_map.key_present_after_remove",
                    format!("contains_key(key {i}) is true right after remove(key {i}) of every key"),
                    &[],
                    0,
                    json!({"key": i}),
                );
                return false;
            }
        }
        true
    }

    /// Run one sequence from the empty map. `check_all_at_end`: compare contains_key and get of
    /// every key after the last op.
    fn run(
        &mut self,
        acc: &mut Acc,
        seq: &[Op],
        model: &mut [Option<HeaderIndexView>],
        st: &mut Stats,
        check_each_step: bool,
    ) -> bool {
        if !self.reset(acc, model) {
            return false;
        }
        for (step, op) in seq.iter().enumerate() {
            match *op {
                Op::Ins(k) => {
                    st.ops[0] += 1;
                    self.uid += 1;
                    let v = make_view(&self.keys.keys[k], self.uid);
                    let ret = self.map.insert(v.clone());
                    if ret.is_none() && model[k].is_some() {
                        st.insert_ret_differs += 1;
                    }
                    model[k] = Some(v);
                }
                Op::Get(k) => {
                    st.ops[1] += 1;
                    let got = self.map.get(&self.keys.keys[k]);
                    acc.eval();
                    if got.is_some() {
                        st.get_hits += 1;
                    } else {
                        st.get_misses += 1;
                    }
                    if got != model[k] {
                        let sig = match (&got, &model[k]) {
                            (None, Some(_)) => "header_map.get.present_key_not_found",
                            (Some(_), None) => "header_map.get.removed_key_found",
                            _ => "header_map.get.wrong_value",
                        };
                        self.fail(
                            acc,
                            sig,
                            format!("get(key {k}) differs from the plain map"),
                            seq,
                            step,
                            json!({"got": view_json(&got), "expected": view_json(&model[k])}),
                        );
                        return false;
                    }
                }
                Op::Rem(k) => {
                    st.ops[2] += 1;
                    self.map.remove(&self.keys.keys[k]);
                    model[k] = None;
                }
                Op::Has(k) => {
                    st.ops[3] += 1;
                    let got = self.map.contains_key(&self.keys.keys[k]);
                    acc.eval();
                    if got != model[k].is_some() {
                        self.fail(
                            acc,
                            if got {
                                "header_map.contains_key.removed_key_found"
                            } else {
                                "header_map.contains_key.present_key_not_found"
                            },
                            format!("contains_key(key {k}) = {got}, the plain map says {}", !got),
                            seq,
                            step,
                            json!({}),
                        );
                        return false;
                    }
                }
                Op::Spill => {
                    st.ops[4] += 1;
                    self.map.verif_limit_memory();
                }
            }
            if check_each_step || step + 1 == seq.len() {
                // contains_key has no effect on the map: compare every key
                for (i, k) in self.keys.keys.iter().enumerate() {
                    let got = self.map.contains_key(k);
                    acc.eval();
                    if got != model[i].is_some() {
                        self.fail(
                            acc,
                            if got {
                                "header_map.contains_key.removed_key_found"
                            } else {
                                "header_map.contains_key.present_key_not_found"
                            },
                            format!(
                                "after step {step}: contains_key(key {i}) = {got}, the plain map says {}",
                                !got
                            ),
                            seq,
                            step,
                            json!({"key": i}),
                        );
                        return false;
                    }
                }
            }
        }
        // final: full content of every key
        let last = seq.len().saturating_sub(1);
        for (i, k) in self.keys.keys.iter().enumerate() {
            let got = self.map.get(k);
            acc.eval();
            if got != model[i] {
                let sig = match (&got, &model[i]) {
                    (None, Some(_)) => "header_map.get.present_key_not_found",
                    (Some(_), None) => "header_map.get.removed_key_found",
                    _ => "header_map.get.wrong_value",
                };
                self.fail(
                    acc,
                    sig,
                    format!("final get(key {i}) differs from the plain map"),
                    seq,
                    last,
                    json!({"key": i, "got": view_json(&got), "expected": view_json(&model[i]), "at": "final read of all keys"}),
                );
                return false;
            }
        }
        true
    }
}

// ------------------------------------------------------------------------------------------
// bounded-exhaustive: all sequences over {insert,get,remove}x keys + spill, keys canonical
// (the first key used is key 0, a new key is always the smallest unused one).

fn extend_choices(nkeys: usize, used: usize) -> Vec<Op> {
    let mut v = vec![];
    let top = (used + 1).min(nkeys);
    for k in 0..top {
        v.push(Op::Ins(k));
        v.push(Op::Get(k));
        v.push(Op::Rem(k));
    }
    v.push(Op::Spill);
    v
}

fn used_after(used: usize, op: Op) -> usize {
    match op {
        Op::Ins(k) | Op::Get(k) | Op::Rem(k) | Op::Has(k) => used.max(k + 1),
        Op::Spill => used,
    }
}

fn prefixes(nkeys: usize, len: usize) -> Vec<Vec<Op>> {
    let mut out = vec![];
    fn rec(nkeys: usize, len: usize, cur: &mut Vec<Op>, used: usize, out: &mut Vec<Vec<Op>>) {
        if cur.len() == len {
            out.push(cur.clone());
            return;
        }
        for op in extend_choices(nkeys, used) {
            cur.push(op);
            rec(nkeys, len, cur, used_after(used, op), out);
            cur.pop();
        }
    }
    rec(nkeys, len, &mut vec![], 0, &mut out);
    out
}

#[allow(clippy::too_many_arguments)]
fn ex_dfs(
    r: &mut Runner,
    acc: &mut Acc,
    nkeys: usize,
    seq: &mut Vec<Op>,
    used: usize,
    max_len: usize,
    model: &mut [Option<HeaderIndexView>],
    st: &mut Stats,
    stop: &AtomicBool,
) {
    if stop.load(Ordering::Relaxed) {
        return;
    }
    for op in extend_choices(nkeys, used) {
        seq.push(op);
        st.seqs += 1;
        st.by_len[seq.len()] += 1;
        let n = seq.len();
        let tail = &seq[n.saturating_sub(4)..];
        let mut h = r.limit as u64;
        for o in tail {
            h = hcomb(h, o.code());
        }
        acc.distinct(hcomb(h, n as u64));
        if !r.run(acc, seq, model, st, false) {
            // a failing sequence is not extended
            seq.pop();
            continue;
        }
        if seq.len() < max_len {
            ex_dfs(r, acc, nkeys, seq, used_after(used, op), max_len, model, st, stop);
        }
        seq.pop();
    }
}

pub fn exhaustive(tier: Tier, scratch: &Path, budget: Duration) -> Acc {
    let nkeys = 4usize;
    let max_len = tier.pick(7usize, 8usize);
    let split = 3usize.min(max_len);
    let limits = [1usize, 2, 3];
    // every canonical sequence of length 1..=split; those of length `split` are extended by DFS
    let mut pre = vec![];
    for l in (1..=split).rev() {
        pre.extend(prefixes(nkeys, l));
    }
    // work items: (limit, prefix)
    let mut items = vec![];
    for l in limits {
        for p in 0..pre.len() {
            items.push((l, p));
        }
    }
    let next = AtomicUsize::new(0);
    let stop = AtomicBool::new(false);
    let deadline = Deadline::after(budget);
    let threads = crate::orphan::worker_threads();
    let before_front = hooks::HITS_AFTER_FRONT_N.load(Ordering::SeqCst);
    let before_batch = hooks::HITS_AFTER_INSERT_BATCH.load(Ordering::SeqCst);
    let mut acc = parallel(threads, |w| {
        let mut acc = Acc::new();
        let rt = IdleRuntime::new();
        let keys = Keys::new(nkeys, 0xC0DE + w as u64);
        let mut maps: HashMap<usize, HeaderMap> = HashMap::new();
        let mut st = Stats::new();
        let mut uid = (w as u64) << 40;
        let mut model: Vec<Option<HeaderIndexView>> = vec![None; nkeys];
        loop {
            let k = next.fetch_add(1, Ordering::SeqCst);
            if k >= items.len() {
                break;
            }
            if deadline.passed() {
                stop.store(true, Ordering::Relaxed);
                acc.inconclusive("header map exhaustive enumeration hit its time budget");
                break;
            }
            let (limit, pi) = items[k];
            let dir: PathBuf = scratch.join(format!("hm-ex-{w}-{limit}"));
            let map = maps.entry(limit).or_insert_with(|| {
                std::fs::create_dir_all(&dir).expect("mkdir");
                new_map(&dir, limit, &rt, limit % 2 == 0)
            });
            let mut r = Runner {
                map,
                keys: &keys,
                limit,
                uid,
                mode: "exhaustive",
            };
            let res = catch(|| {
                let mut seq = pre[pi].clone();
                st.seqs += 1;
                st.by_len[seq.len()] += 1;
                if !r.run(&mut acc, &seq, &mut model, &mut st, false) {
                    return;
                }
                let mut used = 0;
                for op in &seq {
                    used = used_after(used, *op);
                }
                if seq.len() == split && max_len > split {
                    ex_dfs(
                        &mut r, &mut acc, nkeys, &mut seq, used, max_len, &mut model, &mut st, &stop,
                    );
                }
            });
            uid = r.uid;
            if let Err(msg) = res {
                acc.violation(
                    "header_map.panic",
                    format!("the header map panicked: {msg}"),
                    json!({"mode": "exhaustive", "limit": limit, "prefix": pre[pi].iter().map(|o| o.json()).collect::<Vec<_>>()}),
                );
                break;
            }
        }
        st.flush(&mut acc, "ex");
        acc
    });
    acc.count_n("hm.ex.max_len", max_len as u64);
    acc.count_n("hm.ex.keys", nkeys as u64);
    acc.count_n(
        "hm.ex.spills_that_moved_items",
        hooks::HITS_AFTER_FRONT_N.load(Ordering::SeqCst) - before_front,
    );
    acc.count_n(
        "hm.ex.hook.after_insert_batch",
        hooks::HITS_AFTER_INSERT_BATCH.load(Ordering::SeqCst) - before_batch,
    );
    acc
}

// ------------------------------------------------------------------------------------------
// random longer sequences on larger key sets

pub fn random(seed: u64, tier: Tier, scratch: &Path, budget: Duration) -> Acc {
    let runs = tier.pick(60usize, 600usize);
    let deadline = Deadline::after(budget);
    let threads = crate::orphan::worker_threads();
    let before_front = hooks::HITS_AFTER_FRONT_N.load(Ordering::SeqCst);
    let mut acc = parallel(threads, |w| {
        let mut acc = Acc::new();
        let rt = IdleRuntime::new();
        let mut rng = Rng::new(seed ^ 0x4EAD).fork(w as u64 + 1);
        let limits = [1usize, 2, 3, 7, 32];
        let limit = limits[w % limits.len()];
        let dir = scratch.join(format!("hm-rand-{w}"));
        std::fs::create_dir_all(&dir).expect("mkdir");
        let map = new_map(&dir, limit, &rt, w % 2 == 0);
        let mut st = Stats::new();
        let mut uid = (1u64 << 50) + ((w as u64) << 40);
        for run in 0..runs {
            if deadline.passed() {
                break;
            }
            let nkeys = 2 + rng.usize_below(if run % 3 == 0 { 96 } else { 12 });
            let keys = Keys::new(nkeys, hcomb(seed, (w * 1000 + run) as u64));
            let mut model: Vec<Option<HeaderIndexView>> = vec![None; nkeys];
            let nops = 100 + rng.usize_below(1500);
            let p_spill = 2 + rng.below(25);
            let hot = 1 + rng.usize_below(nkeys);
            let mut seq = Vec::with_capacity(nops);
            let mut h = limit as u64;
            for _ in 0..nops {
                let k = if rng.chance(2, 3) {
                    rng.usize_below(hot)
                } else {
                    rng.usize_below(nkeys)
                };
                let x = rng.below(100);
                let op = if x < p_spill {
                    Op::Spill
                } else if x < p_spill + 35 {
                    Op::Ins(k)
                } else if x < p_spill + 55 {
                    Op::Get(k)
                } else if x < p_spill + 65 {
                    Op::Has(k)
                } else {
                    Op::Rem(k)
                };
                h = hcomb(h, op.code());
                seq.push(op);
            }
            let mut r = Runner {
                map: &map,
                keys: &keys,
                limit,
                uid,
                mode: "random",
            };
            st.seqs += 1;
            let res = catch(|| r.run(&mut acc, &seq, &mut model, &mut st, nkeys <= 16));
            uid = r.uid;
            match res {
                Ok(true) => {
                    // leave the map empty for the next key set
                    let mut m2 = model.clone();
                    r.reset(&mut acc, &mut m2);
                    acc.distinct(h);
                }
                Ok(false) => {
                    let mut m2 = model.clone();
                    r.reset(&mut acc, &mut m2);
                }
                Err(msg) => {
                    acc.violation(
                        "header_map.panic",
                        format!("the header map panicked: {msg}"),
                        json!({"mode": "random", "limit": limit}),
                    );
                    break;
                }
            }
        }
        st.flush(&mut acc, "rand");
        acc
    });
    acc.count_n(
        "hm.rand.spills_that_moved_items",
        hooks::HITS_AFTER_FRONT_N.load(Ordering::SeqCst) - before_front,
    );
    acc
}
