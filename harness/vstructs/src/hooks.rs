//! The process-wide schedule-point callback (`ckb_util::verif::install`).
//! Sequential sub-engines only count hits (evidence that a spill really moved items: the two
//! points are only reached when `front_n` selected items to move). The concurrent header-map
//! sub-engine registers a per-thread context on its spiller thread; there the callback opens a
//! "window" and waits (bounded) for worker operations to happen inside it.

use std::cell::RefCell;
use std::sync::Arc;
use std::sync::atomic::{AtomicU32, AtomicU64, Ordering};
use std::time::{Duration, Instant};

pub static HITS_AFTER_FRONT_N: AtomicU64 = AtomicU64::new(0);
pub static HITS_AFTER_INSERT_BATCH: AtomicU64 = AtomicU64::new(0);
pub static WINDOW_OPS: AtomicU64 = AtomicU64::new(0);

/// Shared between the spiller and the workers of one concurrent round.
#[derive(Default)]
pub struct RoundSync {
    /// 0 = no spill in progress at a hook point, 1 = after_front_n, 2 = after_insert_batch
    pub window: AtomicU32,
    /// completed worker operations
    pub ops_done: AtomicU64,
    /// how many worker ops the spiller waits for at each point (plan of this round)
    pub need_front: AtomicU32,
    pub need_batch: AtomicU32,
    /// bound of every wait, microseconds
    pub wait_us: AtomicU64,
}

thread_local! {
    static CTX: RefCell<Option<Arc<RoundSync>>> = const { RefCell::new(None) };
}

pub fn set_thread_ctx(ctx: Option<Arc<RoundSync>>) {
    CTX.with(|c| *c.borrow_mut() = ctx);
}

pub fn spin_until(limit: Duration, mut cond: impl FnMut() -> bool) -> bool {
    let start = Instant::now();
    let mut n = 0u32;
    loop {
        if cond() {
            return true;
        }
        n += 1;
        if n % 64 == 0 {
            if start.elapsed() >= limit {
                return false;
            }
            std::thread::yield_now();
        } else {
            std::hint::spin_loop();
        }
    }
}

fn on_point(name: &'static str) {
    let which = match name {
        "header_map::after_front_n" => {
            HITS_AFTER_FRONT_N.fetch_add(1, Ordering::Relaxed);
            1
        }
        "header_map::after_insert_batch" => {
            HITS_AFTER_INSERT_BATCH.fetch_add(1, Ordering::Relaxed);
            2
        }
        _ => return,
    };
    let ctx = CTX.with(|c| c.borrow().clone());
    let Some(ctx) = ctx else { return };
    let need = if which == 1 {
        ctx.need_front.load(Ordering::SeqCst)
    } else {
        ctx.need_batch.load(Ordering::SeqCst)
    } as u64;
    if need == 0 {
        return;
    }
    let start = ctx.ops_done.load(Ordering::SeqCst);
    ctx.window.store(which, Ordering::SeqCst);
    let lim = Duration::from_micros(ctx.wait_us.load(Ordering::SeqCst));
    spin_until(lim, || ctx.ops_done.load(Ordering::SeqCst) >= start + need);
    let got = ctx.ops_done.load(Ordering::SeqCst) - start;
    WINDOW_OPS.fetch_add(got, Ordering::Relaxed);
    ctx.window.store(0, Ordering::SeqCst);
}

pub fn install() -> bool {
    ckb_util::verif::install(Box::new(on_point))
}
