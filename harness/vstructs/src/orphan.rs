//! Sub-engine A: the real `ckb_chain::OrphanBlockPool` against a plain set model.
//!
//! Model: the set of stored blocks (each block has a fixed parent and epoch).
//!  * `insert(b)`                      : stored += b
//!  * `remove_blocks_by_parent(p)` (p absent from the pool): returns exactly the blocks reachable
//!    from p through parent links of *stored* blocks, each once; stored -= returned
//!  * `clean_expired_blocks(tip)`      : returns a union of whole leader sub-trees; each returned
//!    sub-tree contains an expired block; a sub-tree whose blocks are all expired is returned
//!  * `len()` == |stored| ; `clone_leaders()` == {parent(b) : b stored, parent(b) not stored}
//!  * conservation: draining the pool through its own leader list returns every stored block once.

use crate::util::{Acc, Deadline, catch, hcomb, parallel, short, synth_hash};
use ckb_chain::{LonelyBlockHash, OrphanBlockPool};
use ckb_types::BlockNumberAndHash;
use ckb_types::packed::Byte32;
use serde_json::{Value, json};
use std::collections::{BTreeSet, HashMap};
use std::sync::Arc;
use std::sync::atomic::{AtomicBool, AtomicUsize, Ordering};
use std::time::Duration;
use vbase::{Rng, Tier};

const EXPIRED_EPOCH: u64 = 6; // mirrors chain/src/utils/orphan_block_pool.rs (doc: epoch + 6 < tip)

#[derive(Clone, Copy, PartialEq, Eq, Debug, Hash, PartialOrd, Ord)]
pub enum Node {
    Root(usize),
    Block(usize),
    Unrelated,
}

#[derive(Clone, Copy, PartialEq, Eq, Debug)]
pub enum Op {
    Ins(usize),
    Rel(Node),
    Clean(u64),
}

impl Op {
    fn code(&self) -> u64 {
        match self {
            Op::Ins(i) => 1000 + *i as u64,
            Op::Rel(Node::Root(r)) => 2000 + *r as u64,
            Op::Rel(Node::Block(i)) => 3000 + *i as u64,
            Op::Rel(Node::Unrelated) => 4000,
            Op::Clean(t) => 5000 + *t,
        }
    }
    fn json(&self) -> Value {
        match self {
            Op::Ins(i) => json!({"insert": i}),
            Op::Rel(n) => json!({"remove_blocks_by_parent": format!("{n:?}")}),
            Op::Clean(t) => json!({"clean_expired_blocks": t}),
        }
    }
}

/// A block tree hanging under absent roots. parent index < child index.
pub struct Tree {
    pub id: u64,
    pub parent: Vec<Node>, // Root(r) or Block(j), j < i
    pub epoch: Vec<u64>,
    pub number: Vec<u64>,
    pub hashes: Vec<Byte32>,
    pub roots: Vec<Byte32>,
    pub unrelated: Byte32,
    index: HashMap<Byte32, Node>,
}

impl Tree {
    pub fn new(id: u64, parent: Vec<Node>, epoch: Vec<u64>, nroots: usize) -> Tree {
        let n = parent.len();
        let hashes: Vec<Byte32> = (0..n).map(|i| synth_hash(id, i as u64)).collect();
        let roots: Vec<Byte32> = (0..nroots)
            .map(|r| synth_hash(id, 1_000_000 + r as u64))
            .collect();
        let unrelated = synth_hash(id, 9_999_999);
        let mut number = vec![0u64; n];
        for i in 0..n {
            number[i] = match parent[i] {
                Node::Block(j) => number[j] + 1,
                _ => 100,
            };
        }
        let mut index = HashMap::new();
        for (i, h) in hashes.iter().enumerate() {
            index.insert(h.clone(), Node::Block(i));
        }
        for (r, h) in roots.iter().enumerate() {
            index.insert(h.clone(), Node::Root(r));
        }
        index.insert(unrelated.clone(), Node::Unrelated);
        Tree {
            id,
            parent,
            epoch,
            number,
            hashes,
            roots,
            unrelated,
            index,
        }
    }
    pub fn n(&self) -> usize {
        self.parent.len()
    }
    pub fn hash_of(&self, n: Node) -> &Byte32 {
        match n {
            Node::Root(r) => &self.roots[r],
            Node::Block(i) => &self.hashes[i],
            Node::Unrelated => &self.unrelated,
        }
    }
    fn lonely(&self, i: usize) -> LonelyBlockHash {
        LonelyBlockHash {
            block_number_and_hash: BlockNumberAndHash {
                number: self.number[i],
                hash: self.hashes[i].clone(),
            },
            parent_hash: self.hash_of(self.parent[i]).clone(),
            epoch_number: self.epoch[i],
            switch: None,
            verify_callback: None,
        }
    }
    fn describe(&self) -> Value {
        json!({
            "parents": self.parent.iter().map(|p| format!("{p:?}")).collect::<Vec<_>>(),
            "epochs": self.epoch,
            "hashes": self.hashes.iter().map(short).collect::<Vec<_>>(),
            "roots": self.roots.iter().map(short).collect::<Vec<_>>(),
        })
    }
}

/// The reference model: plain set of stored block indices.
#[derive(Clone)]
pub struct Model {
    stored: Vec<bool>,
    count: usize,
}

impl Model {
    fn new(n: usize) -> Model {
        Model {
            stored: vec![false; n],
            count: 0,
        }
    }
    fn insert(&mut self, i: usize) {
        if !self.stored[i] {
            self.stored[i] = true;
            self.count += 1;
        }
    }
    fn remove(&mut self, i: usize) {
        if self.stored[i] {
            self.stored[i] = false;
            self.count -= 1;
        }
    }
    fn is_absent(&self, n: Node) -> bool {
        match n {
            Node::Block(i) => !self.stored[i],
            _ => true,
        }
    }
    /// Stored blocks reachable from `p` through parent links of stored blocks.
    fn reach(&self, t: &Tree, p: Node) -> Vec<usize> {
        let n = t.n();
        let mut inr = vec![false; n];
        let mut out = vec![];
        for i in 0..n {
            if !self.stored[i] {
                continue;
            }
            let hit = t.parent[i] == p
                || match t.parent[i] {
                    Node::Block(j) => inr[j],
                    _ => false,
                };
            if hit {
                inr[i] = true;
                out.push(i);
            }
        }
        out
    }
    fn leaders(&self, t: &Tree) -> BTreeSet<Node> {
        let mut s = BTreeSet::new();
        for i in 0..t.n() {
            if self.stored[i] && self.is_absent(t.parent[i]) {
                s.insert(t.parent[i]);
            }
        }
        s
    }
    fn mask(&self) -> u64 {
        let mut m = 0u64;
        for (i, s) in self.stored.iter().enumerate() {
            if *s {
                m = hcomb(m, i as u64 + 1);
            }
        }
        m
    }
}

struct Ctx<'a> {
    acc: &'a mut Acc,
    tree: &'a Tree,
    mode: &'static str,
    seq: &'a [Op],
    illegal: bool,
    failed: bool,
}

impl Ctx<'_> {
    fn fail(&mut self, sig: &str, detail: String, step: usize, extra: Value) {
        self.failed = true;
        let weight = step as u64 + 1;
        if self.acc.seen(sig, weight) {
            self.acc.recount(sig);
            return;
        }
        let w = json!({
            "mode": self.mode,
            "tree": self.tree.describe(),
            "ops": self.seq.iter().take(step + 1).map(|o| o.json()).collect::<Vec<_>>(),
            "failing_step": step,
            "extra": extra,
        });
        self.acc.violation_w(sig, weight, detail, w);
    }
}

/// Decode a returned list into block indices, checking that every element is a known block with
/// intact fields and appears once.
fn decode_returned(
    cx: &mut Ctx,
    step: usize,
    what: &str,
    ret: &[LonelyBlockHash],
) -> Option<Vec<usize>> {
    let t = cx.tree;
    let mut seen = vec![false; t.n()];
    let mut out = Vec::with_capacity(ret.len());
    for lb in ret {
        let h = lb.hash();
        match t.index.get(&h) {
            Some(Node::Block(i)) => {
                let i = *i;
                if seen[i] {
                    cx.fail(
                        &format!("orphan.{what}.returned_twice"),
                        format!("block {i} returned more than once"),
                        step,
                        json!({"block": i}),
                    );
                    return None;
                }
                seen[i] = true;
                if lb.parent_hash() != *t.hash_of(t.parent[i])
                    || lb.epoch_number() != t.epoch[i]
                    || lb.number() != t.number[i]
                {
                    cx.fail(
                        &format!("orphan.{what}.returned_block_fields_changed"),
                        format!("block {i} returned with different parent/epoch/number"),
                        step,
                        json!({"block": i}),
                    );
                    return None;
                }
                out.push(i);
            }
            _ => {
                cx.fail(
                    &format!("orphan.{what}.returned_unknown_block"),
                    format!("returned hash {} was never inserted", short(&h)),
                    step,
                    json!({}),
                );
                return None;
            }
        }
    }
    out.sort_unstable();
    Some(out)
}

/// Apply one op to the real pool and to the model, judging the returned value.
/// Returns false when a violation was recorded (caller stops the sequence).
fn apply(cx: &mut Ctx, pool: &OrphanBlockPool, m: &mut Model, step: usize, op: Op) -> bool {
    let t = cx.tree;
    match op {
        Op::Ins(i) => {
            pool.insert(t.lonely(i));
            m.insert(i);
            true
        }
        Op::Rel(p) => {
            if !m.is_absent(p) {
                // precondition of a release (the parent is not in the pool) does not hold
                cx.illegal = true;
                return false;
            }
            let expect = m.reach(t, p);
            let ret = pool.remove_blocks_by_parent(t.hash_of(p));
            cx.acc.eval();
            let Some(got) = decode_returned(cx, step, "release", &ret) else {
                return false;
            };
            if got != expect {
                let missing: Vec<_> = expect.iter().filter(|x| !got.contains(x)).collect();
                let extra: Vec<_> = got.iter().filter(|x| !expect.contains(x)).collect();
                let sig = if !missing.is_empty() {
                    "orphan.release.missing_descendants"
                } else {
                    "orphan.release.returned_non_descendants"
                };
                cx.fail(
                    sig,
                    format!(
                        "remove_blocks_by_parent({p:?}) returned {got:?}, stored descendants are {expect:?}"
                    ),
                    step,
                    json!({"missing": missing, "extra": extra}),
                );
                return false;
            }
            for i in got {
                m.remove(i);
            }
            true
        }
        Op::Clean(tip) => {
            let leaders = m.leaders(t);
            let ret = pool.clean_expired_blocks(tip);
            cx.acc.eval();
            let Some(got) = decode_returned(cx, step, "expire", &ret) else {
                return false;
            };
            let mut gotset = vec![false; t.n()];
            for &i in &got {
                if !m.stored[i] {
                    cx.fail(
                        "orphan.expire.returned_not_stored",
                        format!("clean_expired_blocks({tip}) returned block {i} which is not stored"),
                        step,
                        json!({"block": i}),
                    );
                    return false;
                }
                gotset[i] = true;
            }
            let mut covered = 0usize;
            for l in leaders {
                let sub = m.reach(t, l);
                let inn = sub.iter().filter(|i| gotset[**i]).count();
                let expired = sub
                    .iter()
                    .filter(|i| t.epoch[**i] + EXPIRED_EPOCH < tip)
                    .count();
                if inn != 0 && inn != sub.len() {
                    cx.fail(
                        "orphan.expire.partial_subtree",
                        format!(
                            "clean_expired_blocks({tip}) returned only part of the sub-tree under leader {l:?}"
                        ),
                        step,
                        json!({"subtree": sub, "returned": got}),
                    );
                    return false;
                }
                if inn != 0 && expired == 0 {
                    cx.fail(
                        "orphan.expire.removed_unexpired_subtree",
                        format!(
                            "clean_expired_blocks({tip}) removed the sub-tree under {l:?} that holds no expired block"
                        ),
                        step,
                        json!({"subtree": sub}),
                    );
                    return false;
                }
                if inn == 0 && expired == sub.len() && !sub.is_empty() {
                    cx.fail(
                        "orphan.expire.kept_fully_expired_subtree",
                        format!(
                            "clean_expired_blocks({tip}) kept the sub-tree under {l:?} although all its blocks are expired"
                        ),
                        step,
                        json!({"subtree": sub}),
                    );
                    return false;
                }
                if inn != 0 {
                    covered += sub.len();
                    if expired != sub.len() {
                        cx.acc.count("orphan.expire_mixed_epoch_subtree_removed");
                    }
                } else if expired != 0 {
                    cx.acc.count("orphan.expire_mixed_epoch_subtree_kept");
                }
            }
            if covered != got.len() {
                cx.fail(
                    "orphan.expire.returned_outside_leader_subtrees",
                    format!("clean_expired_blocks({tip}) returned blocks outside every leader sub-tree"),
                    step,
                    json!({"returned": got}),
                );
                return false;
            }
            for i in got {
                m.remove(i);
            }
            true
        }
    }
}

/// len / leaders comparison.
fn check_views(cx: &mut Ctx, pool: &OrphanBlockPool, m: &Model, step: usize) -> bool {
    let t = cx.tree;
    cx.acc.eval();
    let len = pool.len();
    if len != m.count {
        cx.fail(
            "orphan.len_mismatch",
            format!("len() = {len}, model holds {}", m.count),
            step,
            json!({}),
        );
        return false;
    }
    cx.acc.eval();
    let real = pool.clone_leaders();
    let mut rs = BTreeSet::new();
    for h in &real {
        match t.index.get(h) {
            Some(n) => {
                if !rs.insert(*n) {
                    cx.fail(
                        "orphan.leaders.duplicate",
                        format!("leader {n:?} listed twice"),
                        step,
                        json!({}),
                    );
                    return false;
                }
            }
            None => {
                cx.fail(
                    "orphan.leaders.unknown_hash",
                    format!("leader {} is no parent of any inserted block", short(h)),
                    step,
                    json!({}),
                );
                return false;
            }
        }
    }
    let ms = m.leaders(t);
    if rs != ms {
        let stale: Vec<_> = rs.difference(&ms).map(|n| format!("{n:?}")).collect();
        let missing: Vec<_> = ms.difference(&rs).map(|n| format!("{n:?}")).collect();
        let sig = if !stale.is_empty() {
            "orphan.leaders.stale_leader"
        } else {
            "orphan.leaders.missing_leader"
        };
        cx.fail(
            sig,
            format!("clone_leaders() differs from {{parent(b): b stored, parent(b) absent}}: stale {stale:?} missing {missing:?}"),
            step,
            json!({"stale": stale, "missing": missing}),
        );
        return false;
    }
    true
}

/// Conservation: release every leader the pool itself lists; the union must be the model set.
fn drain(cx: &mut Ctx, pool: &OrphanBlockPool, m: &mut Model, step: usize) -> bool {
    let t = cx.tree;
    let mut rounds = 0;
    loop {
        let leaders = pool.clone_leaders();
        if leaders.is_empty() {
            break;
        }
        rounds += 1;
        if rounds > t.n() + 2 {
            cx.fail(
                "orphan.drain.leaders_never_empty",
                "releasing all leaders repeatedly never empties the leader set".into(),
                step,
                json!({}),
            );
            return false;
        }
        for h in leaders {
            let Some(node) = t.index.get(&h).copied() else {
                cx.fail(
                    "orphan.leaders.unknown_hash",
                    format!("leader {} unknown", short(&h)),
                    step,
                    json!({}),
                );
                return false;
            };
            if !m.is_absent(node) {
                cx.fail(
                    "orphan.leaders.stale_leader",
                    format!("leader {node:?} is itself stored"),
                    step,
                    json!({}),
                );
                return false;
            }
            if !apply(cx, pool, m, step, Op::Rel(node)) {
                return false;
            }
        }
    }
    cx.acc.eval();
    if m.count != 0 || pool.len() != 0 {
        let left: Vec<usize> = (0..t.n()).filter(|i| m.stored[*i]).collect();
        cx.fail(
            "orphan.drain.blocks_unreachable",
            format!(
                "after releasing every leader {} stored block(s) were never returned (pool.len()={})",
                m.count,
                pool.len()
            ),
            step,
            json!({"never_returned": left}),
        );
        return false;
    }
    true
}

// ------------------------------------------------------------------------------------------
// bounded-exhaustive part

fn ahu(children: &[Vec<usize>], v: usize) -> String {
    let mut cs: Vec<String> = children[v].iter().map(|c| ahu(children, *c)).collect();
    cs.sort();
    format!("({})", cs.concat())
}

/// All unlabeled forest shapes with n blocks under `nroots` absent roots (every root used).
fn shapes(n: usize, nroots: usize) -> Vec<Vec<Node>> {
    let mut out = vec![];
    let mut seen = BTreeSet::new();
    let mut cur: Vec<Node> = vec![];
    fn rec(
        n: usize,
        nroots: usize,
        cur: &mut Vec<Node>,
        out: &mut Vec<Vec<Node>>,
        seen: &mut BTreeSet<Vec<String>>,
    ) {
        let i = cur.len();
        if i == n {
            // canonical form
            let mut children: Vec<Vec<usize>> = vec![vec![]; n + nroots];
            for (b, p) in cur.iter().enumerate() {
                match p {
                    Node::Root(r) => children[n + r].push(b),
                    Node::Block(j) => children[*j].push(b),
                    _ => {}
                }
            }
            if (0..nroots).any(|r| children[n + r].is_empty()) {
                return;
            }
            let mut key: Vec<String> = (0..nroots).map(|r| ahu(&children, n + r)).collect();
            key.sort();
            if seen.insert(key) {
                out.push(cur.clone());
            }
            return;
        }
        for r in 0..nroots {
            cur.push(Node::Root(r));
            rec(n, nroots, cur, out, seen);
            cur.pop();
        }
        for j in 0..i {
            cur.push(Node::Block(j));
            rec(n, nroots, cur, out, seen);
            cur.pop();
        }
    }
    rec(n, nroots, &mut cur, &mut out, &mut seen);
    out
}

fn alphabet(t: &Tree) -> Vec<Op> {
    let mut v = vec![];
    for i in 0..t.n() {
        v.push(Op::Ins(i));
    }
    for r in 0..t.roots.len() {
        v.push(Op::Rel(Node::Root(r)));
    }
    for i in 0..t.n() {
        v.push(Op::Rel(Node::Block(i)));
    }
    v.push(Op::Rel(Node::Unrelated));
    v.push(Op::Clean(7));
    v.push(Op::Clean(8));
    v
}

struct ExStats {
    seqs: u64,
    by_len: [u64; 8],
    ops: [u64; 3],
    nonempty_release: u64,
    empty_release: u64,
    dup_insert: u64,
    panics: u64,
    illegal: u64,
}

/// Execute one complete sequence on a fresh pool: return values are judged at every step,
/// len/leaders/conservation after the last one (every prefix is enumerated on its own).
fn run_exhaustive_seq(
    acc: &mut Acc,
    t: &Tree,
    seq: &[Op],
    st: &mut ExStats,
    with_drain: bool,
) -> bool {
    let mut cx = Ctx {
        acc,
        tree: t,
        mode: "exhaustive",
        seq,
        illegal: false,
        failed: false,
    };
    let res = catch(|| {
        let pool = OrphanBlockPool::with_capacity(8);
        let mut m = Model::new(t.n());
        let last = seq.len() - 1;
        for (k, op) in seq.iter().enumerate() {
            if k == last {
                if let Op::Rel(p) = op {
                    if !m.is_absent(*p) {
                        cx.illegal = true;
                        return;
                    }
                }
                cx.acc
                    .distinct(hcomb(hcomb(t.id, m.mask()), op.code()));
                match op {
                    Op::Ins(i) => {
                        st.ops[0] += 1;
                        if m.stored[*i] {
                            st.dup_insert += 1;
                        }
                    }
                    Op::Rel(p) => {
                        st.ops[1] += 1;
                        if m.reach(t, *p).is_empty() {
                            st.empty_release += 1;
                        } else {
                            st.nonempty_release += 1;
                        }
                    }
                    Op::Clean(_) => st.ops[2] += 1,
                }
            }
            if !apply(&mut cx, &pool, &mut m, k, *op) {
                return;
            }
        }
        if !check_views(&mut cx, &pool, &m, last) {
            return;
        }
        // conservation by draining: at the maximal length only; for a shorter sequence every
        // single release of a listed leader is itself one of the enumerated extensions
        if with_drain {
            drain(&mut cx, &pool, &mut m, last);
        }
    });
    if let Err(msg) = res {
        st.panics += 1;
        let last = seq.len() - 1;
        cx.fail(
            "orphan.panic",
            format!("the pool panicked: {msg}"),
            last,
            json!({"panic": msg}),
        );
    }
    !cx.illegal && !cx.failed
}

fn dfs(
    acc: &mut Acc,
    t: &Tree,
    alpha: &[Op],
    seq: &mut Vec<Op>,
    max_len: usize,
    st: &mut ExStats,
    stop: &AtomicBool,
) {
    if stop.load(Ordering::Relaxed) {
        return;
    }
    for op in alpha {
        seq.push(*op);
        // a sequence whose last op breaks the release precondition (parent stored), or which
        // ended in a violation, is not extended
        if run_exhaustive_seq(acc, t, seq, st, seq.len() == max_len) {
            st.seqs += 1;
            st.by_len[seq.len()] += 1;
            if seq.len() < max_len {
                dfs(acc, t, alpha, seq, max_len, st, stop);
            }
        } else {
            st.illegal += 1;
        }
        seq.pop();
    }
}

pub fn exhaustive(tier: Tier, budget: Duration) -> Acc {
    let max_blocks = 5usize;
    let max_len = tier.pick(5usize, 6usize);
    // all shapes: one absent root with 1..=5 blocks, two absent roots with 2..=4 blocks
    let mut trees = vec![];
    let mut id = 1u64;
    for n in 1..=max_blocks {
        for parent in shapes(n, 1) {
            let epoch = (0..n).map(|i| (i % 2) as u64).collect();
            trees.push(Tree::new(id, parent, epoch, 1));
            id += 1;
        }
    }
    for n in 2..=4usize {
        for parent in shapes(n, 2) {
            let epoch = (0..n).map(|i| ((i + 1) % 2) as u64).collect();
            trees.push(Tree::new(id, parent, epoch, 2));
            id += 1;
        }
    }
    // work items: (tree, first op); big trees first
    let mut items: Vec<(usize, Op)> = vec![];
    for (ti, t) in trees.iter().enumerate().rev() {
        for op in alphabet(t) {
            items.push((ti, op));
        }
    }
    let next = AtomicUsize::new(0);
    let stop = AtomicBool::new(false);
    let deadline = Deadline::after(budget);
    let threads = worker_threads();
    let ntrees = trees.len() as u64;
    let mut acc = parallel(threads, |_w| {
        let mut acc = Acc::new();
        let mut st = ExStats {
            seqs: 0,
            by_len: [0; 8],
            ops: [0; 3],
            nonempty_release: 0,
            empty_release: 0,
            dup_insert: 0,
            panics: 0,
            illegal: 0,
        };
        loop {
            let k = next.fetch_add(1, Ordering::SeqCst);
            if k >= items.len() {
                break;
            }
            if deadline.passed() {
                stop.store(true, Ordering::Relaxed);
                acc.inconclusive("orphan exhaustive enumeration hit its time budget");
                break;
            }
            let (ti, op) = items[k];
            let t = &trees[ti];
            let alpha = alphabet(t);
            let mut seq = vec![op];
            if run_exhaustive_seq(&mut acc, t, &seq, &mut st, max_len == 1) {
                st.seqs += 1;
                st.by_len[1] += 1;
                if max_len > 1 {
                    dfs(&mut acc, t, &alpha, &mut seq, max_len, &mut st, &stop);
                }
            }
        }
        acc.count_n("orphan.ex.sequences", st.seqs);
        for l in 1..8 {
            if st.by_len[l] > 0 {
                acc.count_n(&format!("orphan.ex.sequences_len{l}"), st.by_len[l]);
            }
        }
        acc.count_n("orphan.ex.last_op.insert", st.ops[0]);
        acc.count_n("orphan.ex.last_op.remove_blocks_by_parent", st.ops[1]);
        acc.count_n("orphan.ex.last_op.clean_expired_blocks", st.ops[2]);
        acc.count_n("orphan.ex.release_returning_blocks", st.nonempty_release);
        acc.count_n("orphan.ex.release_returning_nothing", st.empty_release);
        acc.count_n("orphan.ex.duplicate_insert", st.dup_insert);
        acc.count_n("orphan.ex.panics", st.panics);
        acc.count_n("orphan.ex.skipped_precondition_broken", st.illegal);
        acc
    });
    acc.count_n("orphan.ex.tree_shapes", ntrees);
    acc.count_n("orphan.ex.max_len", max_len as u64);
    acc
}

pub fn worker_threads() -> usize {
    std::thread::available_parallelism()
        .map(|n| n.get())
        .unwrap_or(4)
        .clamp(2, 16)
}

// ------------------------------------------------------------------------------------------
// random part

pub fn random_tree(rng: &mut Rng, id: u64, n: usize) -> Tree {
    let nroots = 1 + rng.usize_below(4);
    let style = rng.below(4);
    let mut parent = Vec::with_capacity(n);
    let mut epoch = Vec::with_capacity(n);
    let base_epoch = rng.below(20);
    for i in 0..n {
        let p = if i < nroots {
            Node::Root(i)
        } else {
            match style {
                0 => Node::Block(i - 1 - rng.usize_below(3.min(i))), // mostly chains
                1 => Node::Block(rng.usize_below(i)),                // bushy
                2 => {
                    if rng.chance(1, 8) {
                        Node::Root(rng.usize_below(nroots))
                    } else {
                        Node::Block(i - 1 - rng.usize_below(2.min(i)))
                    }
                }
                _ => {
                    if rng.chance(1, 4) {
                        Node::Block(rng.usize_below(i))
                    } else {
                        Node::Block(i - 1)
                    }
                }
            }
        };
        let e = match p {
            Node::Block(j) => epoch[j] + if rng.chance(1, 5) { 1 } else { 0 },
            _ => base_epoch + rng.below(4),
        };
        parent.push(p);
        epoch.push(e);
    }
    Tree::new(id, parent, epoch, nroots)
}

fn random_run(acc: &mut Acc, rng: &mut Rng, id: u64, max_blocks: usize, max_ops: usize) {
    let n = 1 + rng.usize_below(max_blocks);
    let t = random_tree(rng, id, n);
    let nops = 20 + rng.usize_below(max_ops);
    let mut seq: Vec<Op> = Vec::with_capacity(nops);
    let pool = OrphanBlockPool::with_capacity(rng.usize_below(64));
    let mut m = Model::new(n);
    let mut h = t.id;
    let maxe = t.epoch.iter().copied().max().unwrap_or(0);
    let p_ins = 40 + rng.below(40);
    for step in 0..nops {
        let r = rng.below(100);
        let op = if r < p_ins {
            Op::Ins(rng.usize_below(n))
        } else if r < p_ins + 12 {
            // a leader according to the model (the real pipeline releases leaders)
            let ls: Vec<Node> = m.leaders(&t).into_iter().collect();
            if ls.is_empty() {
                Op::Rel(Node::Unrelated)
            } else {
                Op::Rel(*rng.pick(&ls))
            }
        } else if r < p_ins + 16 {
            // any absent node (mostly no stored children -> expects nothing)
            let cand = match rng.below(3) {
                0 => Node::Unrelated,
                1 => Node::Root(rng.usize_below(t.roots.len())),
                _ => Node::Block(rng.usize_below(n)),
            };
            if m.is_absent(cand) {
                Op::Rel(cand)
            } else {
                Op::Rel(Node::Unrelated)
            }
        } else {
            Op::Clean(rng.range(0, maxe + EXPIRED_EPOCH + 2))
        };
        seq.push(op);
        h = hcomb(h, op.code());
        let mut cx = Ctx {
            acc,
            tree: &t,
            mode: "random",
            seq: &seq,
            illegal: false,
            failed: false,
        };
        let res = catch(|| {
            let before = m.count;
            if !apply(&mut cx, &pool, &mut m, step, op) {
                return false;
            }
            match op {
                Op::Ins(_) => cx.acc.count("orphan.rand.insert"),
                Op::Rel(_) => {
                    cx.acc.count("orphan.rand.remove_blocks_by_parent");
                    if m.count < before {
                        cx.acc.count("orphan.rand.release_returning_blocks");
                    }
                }
                Op::Clean(_) => {
                    cx.acc.count("orphan.rand.clean_expired_blocks");
                    if m.count < before {
                        cx.acc.count("orphan.rand.clean_removed_blocks");
                    }
                }
            }
            check_views(&mut cx, &pool, &m, step)
        });
        match res {
            Ok(true) => {}
            Ok(false) => return,
            Err(msg) => {
                cx.fail(
                    "orphan.panic",
                    format!("the pool panicked: {msg}"),
                    step,
                    json!({"panic": msg}),
                );
                return;
            }
        }
    }
    let mut cx = Ctx {
        acc,
        tree: &t,
        mode: "random",
        seq: &seq,
        illegal: false,
        failed: false,
    };
    let last = seq.len() - 1;
    let res = catch(|| drain(&mut cx, &pool, &mut m, last));
    if let Err(msg) = res {
        cx.fail(
            "orphan.panic",
            format!("the pool panicked while draining: {msg}"),
            last,
            json!({"panic": msg}),
        );
        return;
    }
    acc.distinct(h);
    acc.count("orphan.rand.runs");
    if acc.samples.is_empty() {
        acc.sample(json!({"structure": "OrphanBlockPool", "mode": "random", "blocks": n,
            "ops": seq.len(), "first_ops": seq.iter().take(8).map(|o| o.json()).collect::<Vec<_>>() }));
    }
}

pub fn random(seed: u64, tier: Tier, budget: Duration) -> Acc {
    let runs_per_worker = tier.pick(150usize, 1500usize);
    let deadline = Deadline::after(budget);
    let threads = worker_threads();
    parallel(threads, |w| {
        let mut acc = Acc::new();
        let mut rng = Rng::new(seed ^ 0x0A11).fork(w as u64 + 1);
        for k in 0..runs_per_worker {
            if deadline.passed() {
                break;
            }
            let (mb, mo) = if k % 5 == 0 { (200, 2500) } else { (30, 300) };
            random_run(
                &mut acc,
                &mut rng,
                hcomb(seed, (w * 1_000_000 + k) as u64),
                mb,
                mo,
            );
        }
        acc
    })
}

// ------------------------------------------------------------------------------------------
// concurrent conservation

fn concurrent_round(acc: &mut Acc, rng: &mut Rng, id: u64) {
    let n = 50 + rng.usize_below(350);
    let t = Arc::new(random_tree(rng, id, n));
    let pool = Arc::new(OrphanBlockPool::with_capacity(16));
    let inserters = 2 + rng.usize_below(3);
    let releasers = 1 + rng.usize_below(3);
    // partition the blocks over the inserters, random order
    let mut order: Vec<usize> = (0..n).collect();
    rng.shuffle(&mut order);
    let mut parts: Vec<Vec<usize>> = vec![vec![]; inserters];
    for (k, b) in order.into_iter().enumerate() {
        parts[k % inserters].push(b);
    }
    let done = Arc::new(AtomicUsize::new(0));
    let seeds: Vec<u64> = (0..releasers).map(|_| rng.next_u64()).collect();
    let mut returned: Vec<Vec<Byte32>> = vec![];
    let res = catch(|| {
        std::thread::scope(|s| {
            for part in &parts {
                let pool = Arc::clone(&pool);
                let t = Arc::clone(&t);
                let done = Arc::clone(&done);
                s.spawn(move || {
                    for (k, &b) in part.iter().enumerate() {
                        pool.insert(t.lonely(b));
                        if k % 7 == 0 {
                            std::thread::yield_now();
                        }
                    }
                    done.fetch_add(1, Ordering::SeqCst);
                });
            }
            let mut hs = vec![];
            for sd in &seeds {
                let pool = Arc::clone(&pool);
                let done = Arc::clone(&done);
                let sd = *sd;
                hs.push(s.spawn(move || {
                    let mut r = Rng::new(sd);
                    let mut got: Vec<Byte32> = vec![];
                    loop {
                        let finished = done.load(Ordering::SeqCst) == inserters;
                        let leaders = pool.clone_leaders();
                        for l in leaders {
                            // release a random subset of the listed leaders
                            if r.chance(1, 2) {
                                for lb in pool.remove_blocks_by_parent(&l) {
                                    got.push(lb.hash());
                                }
                            }
                        }
                        let _ = pool.len();
                        if finished {
                            break;
                        }
                        std::thread::yield_now();
                    }
                    got
                }));
            }
            let mut out = vec![];
            for h in hs {
                out.push(h.join().unwrap_or_default());
            }
            out
        })
    });
    match res {
        Ok(v) => returned = v,
        Err(msg) => {
            acc.violation(
                "orphan.concurrent.panic",
                format!("the pool panicked under concurrent use: {msg}"),
                json!({"tree": t.describe()}),
            );
            return;
        }
    }
    // final drain, single threaded
    let mut final_got: Vec<Byte32> = vec![];
    let mut rounds = 0;
    loop {
        let ls = pool.clone_leaders();
        if ls.is_empty() {
            break;
        }
        rounds += 1;
        if rounds > n + 2 {
            break;
        }
        for l in ls {
            for lb in pool.remove_blocks_by_parent(&l) {
                final_got.push(lb.hash());
            }
        }
    }
    let mut count = vec![0u32; n];
    let mut during = 0u64;
    for (k, v) in returned.iter().chain(std::iter::once(&final_got)).enumerate() {
        for h in v {
            match t.index.get(h) {
                Some(Node::Block(i)) => {
                    count[*i] += 1;
                    if k < returned.len() {
                        during += 1;
                    }
                }
                _ => {
                    acc.eval();
                    acc.violation(
                        "orphan.concurrent.returned_unknown_block",
                        format!("hash {} was returned but never inserted", short(h)),
                        json!({"tree": t.describe()}),
                    );
                    return;
                }
            }
        }
    }
    acc.eval();
    let lost: Vec<usize> = (0..n).filter(|i| count[*i] == 0).collect();
    let dup: Vec<usize> = (0..n).filter(|i| count[*i] > 1).collect();
    if !lost.is_empty() || !dup.is_empty() || pool.len() != 0 {
        let sig = if !lost.is_empty() {
            "orphan.concurrent.block_lost"
        } else if !dup.is_empty() {
            "orphan.concurrent.block_returned_twice"
        } else {
            "orphan.concurrent.len_nonzero_after_drain"
        };
        acc.violation(
            sig,
            format!(
                "conservation broken under concurrent insert/release: {} never returned, {} returned twice, len()={} after drain",
                lost.len(),
                dup.len(),
                pool.len()
            ),
            json!({"tree": t.describe(), "lost": lost, "returned_twice": dup,
                   "inserters": inserters, "releasers": releasers}),
        );
        return;
    }
    acc.count("orphan.conc.rounds");
    acc.count_n("orphan.conc.blocks_inserted", n as u64);
    acc.count_n("orphan.conc.blocks_released_while_inserting", during);
    acc.distinct(hcomb(t.id, during));
}

pub fn concurrent(seed: u64, tier: Tier, budget: Duration) -> Acc {
    let rounds = tier.pick(400usize, 4000usize);
    let deadline = Deadline::after(budget);
    // each round uses up to 8 threads; run two rounds side by side
    parallel(2, |w| {
        let mut acc = Acc::new();
        let mut rng = Rng::new(seed ^ 0x0C0C).fork(w as u64 + 1);
        for k in 0..rounds / 2 {
            if deadline.passed() {
                break;
            }
            let id = hcomb(seed ^ 0xC0, (w * 100_000 + k) as u64);
            if let Err(msg) = catch(|| concurrent_round(&mut acc, &mut rng, id)) {
                acc.violation(
                    "orphan.concurrent.panic",
                    format!("the pool panicked under concurrent use: {msg}"),
                    json!({"round": k}),
                );
            }
        }
        acc
    })
}
