//! `vstructs` — engine `structs`: decides property C17 (sync bookkeeping structures behave like
//! their simple mathematical models) by running the real structures of /repo against plain
//! reference models.
//!
//!   vstructs [--seed S] [--tier quick|thorough] [only=orphan,inflight,hm,hmconc,ancestor,locator]
//!
//! Sub-engines (all feed the single C17 report):
//!   A orphan.rs    OrphanBlockPool        vs set of (hash, parent, epoch)
//!   B inflight.rs  InflightBlocks         vs map block -> (peer, time), virtual time
//!   C hmap.rs      HeaderMap (sequential) vs HashMap, explicit spills at every position
//!     hmap_conc.rs HeaderMap (concurrent) per-key linearizability with a spilling thread
//!   D ancestor.rs  HeaderIndexView::get_ancestor / ActiveChain::{get_ancestor,get_locator}
//!                  vs walking parent links

mod ancestor;
mod hmap;
mod hmap_conc;
mod hooks;
mod inflight;
mod orphan;
mod util;

use serde_json::json;
use std::time::{Duration, Instant};
use util::Acc;
use vbase::{Args, Report, Scratch, Tier};

fn main() {
    let args = Args::parse();
    let tier = args.tier;
    let seed = args.seed;
    util::install_quiet_panic_hook();
    let hook_installed = hooks::install();
    let scratch = Scratch::new("vstructs");
    // SharedBuilder::with_temp_db and tempfile follow TMPDIR
    unsafe {
        std::env::set_var("TMPDIR", &scratch.path);
    }
    let only: Option<Vec<String>> = args
        .get_str("only")
        .map(|s| s.split(',').map(|x| x.to_string()).collect());
    let want = |name: &str| only.as_ref().is_none_or(|v| v.iter().any(|x| x == name));
    let secs = |q: u64, t: u64| Duration::from_secs(args.get_u64("budget_scale", 1) * tier.pick(q, t));

    let mut report = Report::new(
        "C17",
        "exploration",
        &args,
        "real OrphanBlockPool / InflightBlocks / HeaderMap / get_ancestor / get_locator driven by \
         bounded-exhaustive and random operation sequences (plus concurrent runs with delays at the \
         spill schedule points); every return value and every observable state is compared with a \
         plain reference model (set, map, HashMap, parent walking)",
    );
    report.max_samples = 8;
    report.assume("OrphanBlockPool: a release is only issued for a parent that is not itself in the pool (what OrphanBroker does); 'stored descendants' means reachable through parent links of stored blocks");
    report.assume("OrphanBlockPool::get_block needs a ChainDB and is not exercised; clean_expired_blocks is judged only as far as the property reaches (whole leader sub-trees, each holding an expired block; fully expired sub-trees go)");
    report.assume("InflightBlocks: 'every block listed for a peer is in flight from that peer' is judged in that direction only; a state whose peer was dropped by prune is recorded as an observation, not a violation");
    report.assume("InflightBlocks::prune lower bound: an entry released without having exceeded BLOCK_DOWNLOAD_TIMEOUT must be older than division_point().2 (slow-block limit) and mark_slow_block must have been used before");
    report.assume("HeaderMap is built on a tokio runtime that is never driven, so the 5 s timer spill does not run; spills are the explicit verif_limit_memory() calls; the return value of HeaderMap::insert is not judged (no caller reads it)");
    report.assume("virtual time through ckb_systemtime::faketime (process global): the InflightBlocks sub-engine is the only clock user and single threaded");
    if !hook_installed {
        report.inconclusive("could not install the ckb_util::verif callback");
    }

    let timings = std::cell::RefCell::new(serde_json::Map::new());
    let phase = |name: &str, report: &mut Report, f: &mut dyn FnMut() -> Acc| {
        let t0 = Instant::now();
        let acc = f();
        acc.into_report(report);
        let dt = t0.elapsed().as_secs_f64();
        timings
            .borrow_mut()
            .insert(name.to_string(), json!((dt * 10.0).round() / 10.0));
        eprintln!("[vstructs] {name}: {dt:.1}s");
    };

    // ---- A and B side by side (B is single threaded and owns the virtual clock) -------------
    let mut b_acc: Option<Acc> = None;
    std::thread::scope(|s| {
        let hb = if want("inflight") {
            Some(s.spawn(|| {
                let t0 = Instant::now();
                let r = util::catch(|| {
                    let mut a = inflight::exhaustive(tier, secs(60, 600));
                    a.merge(inflight::random(seed, tier, secs(20, 150)));
                    a
                });
                inflight::disable_clock();
                let a = r.unwrap_or_else(|m| {
                    let mut a = Acc::new();
                    a.inconclusive(&format!("inflight harness panicked: {m}"));
                    a
                });
                (a, t0.elapsed().as_secs_f64())
            }))
        } else {
            None
        };
        if want("orphan") {
            phase("orphan.exhaustive", &mut report, &mut || {
                orphan::exhaustive(tier, secs(90, 900))
            });
            phase("orphan.random", &mut report, &mut || {
                orphan::random(seed, tier, secs(10, 60))
            });
            phase("orphan.concurrent", &mut report, &mut || {
                orphan::concurrent(seed, tier, secs(8, 60))
            });
        }
        if let Some(h) = hb {
            match h.join() {
                Ok((a, dt)) => {
                    timings.borrow_mut().insert(
                        "inflight (parallel to orphan)".into(),
                        json!((dt * 10.0).round() / 10.0),
                    );
                    eprintln!("[vstructs] inflight: {dt:.1}s");
                    b_acc = Some(a);
                }
                Err(_) => report.inconclusive("inflight thread died"),
            }
        }
    });
    if let Some(a) = b_acc {
        a.into_report(&mut report);
    }

    // ---- C --------------------------------------------------------------------------------
    if want("hm") {
        phase("header_map.exhaustive", &mut report, &mut || {
            hmap::exhaustive(tier, &scratch.path, secs(90, 900))
        });
        phase("header_map.random", &mut report, &mut || {
            hmap::random(seed, tier, &scratch.path, secs(10, 60))
        });
    }
    if want("hmconc") {
        phase("header_map.concurrent", &mut report, &mut || {
            hmap_conc::concurrent(seed, tier, &scratch.path, secs(15, 180))
        });
    }

    // ---- D --------------------------------------------------------------------------------
    if want("ancestor") {
        phase("ancestor.skiplist", &mut report, &mut || {
            ancestor::skiplist(seed, tier, secs(90, 600))
        });
    }
    if want("locator") {
        phase("ancestor.locator", &mut report, &mut || {
            ancestor::locator(seed, tier, secs(30, 180))
        });
    }
    if want("pinned") {
        phase("ancestor.pinned", &mut report, &mut || {
            ancestor::pinned_across_reorg(seed, tier, secs(30, 180))
        });
    }

    // ---- evidence ---------------------------------------------------------------------------
    report.note(
        "phase_wall_s",
        serde_json::Value::Object(timings.borrow().clone()),
    );
    report.note(
        "bounded_exhaustive",
        json!({
            "orphan_pool": format!(
                "every op sequence (insert i / remove_blocks_by_parent of any absent node or an unrelated hash / clean_expired_blocks(7|8)) of length <= {} on every unlabeled forest shape with <= 5 blocks under one absent root and <= 4 blocks under two absent roots (epochs alternate 0/1); return values judged at every step, len/leaders after the last op of every sequence, drain (release every listed leader, conservation) after every sequence of maximal length",
                report.counter("orphan.ex.max_len")),
            "inflight_blocks": format!(
                "every op sequence of length <= {} over an alphabet of {} ops (2 peers + 1 never tracked, 3 blocks numbered 1,2,30; prune/mark with 2 tips; clock steps 1000/1501/30001 ms)",
                report.counter("inflight.ex.max_len"), report.counter("inflight.ex.alphabet")),
            "header_map": format!(
                "every sequence of length <= {} over insert/get/remove x {} keys (keys canonical up to renaming) + verif_limit_memory at any position, memory limit 1, 2 and 3 items; contains_key of all keys and get of all keys after the last op of every sequence",
                report.counter("hm.ex.max_len"), report.counter("hm.ex.keys")),
            "ancestor": "all (start, target) pairs on all chain lengths 0..=64, on random chains of 65..300 blocks with up to 3 forks, with and without the main-chain shortcut; chains of 1000..3000 blocks with 3 forks: all pairs for `ancestor.big_chains_all_pairs` of them, sampled pairs for the rest",
            "beyond": "random longer sequences / trees for every structure; not exhaustive",
        }),
    );
    report.exhaustive = Some(false);

    if only.is_none() {
        let q = tier == Tier::Quick;
        // orphan pool
        report.require("orphan.ex.sequences", if q { 1_000_000 } else { 20_000_000 });
        report.require("orphan.ex.release_returning_blocks", 10_000);
        report.require("orphan.ex.duplicate_insert", 10_000);
        report.require("orphan.rand.runs", if q { 500 } else { 5000 });
        report.require("orphan.rand.release_returning_blocks", 1000);
        report.require("orphan.rand.clean_removed_blocks", 100);
        report.require("orphan.conc.rounds", if q { 10 } else { 100 });
        report.require("orphan.conc.blocks_released_while_inserting", 100);
        // inflight
        report.require("inflight.ex.sequences", if q { 100_000 } else { 1_000_000 });
        report.require("inflight.ex.prune_released_entries", if q { 200 } else { 5000 });
        report.require("inflight.ex.insert_refused", 1000);
        report.require("inflight.rand.runs", if q { 100 } else { 1000 });
        report.require("inflight.rand.prune_released_by_download_timeout", 100);
        report.require("inflight.rand.prune_released_by_slow_block_limit", 10);
        report.require("inflight.evict.prune_dropped_peers", 10);
        // header map
        report.require("hm.ex.sequences", if q { 50_000 } else { 5_000_000 });
        report.require("hm.ex.spills_that_moved_items", 10_000);
        report.require("hm.ex.get_returned_value", 10_000);
        report.require("hm.rand.sequences", if q { 50 } else { 500 });
        report.require("hm.rand.spills_that_moved_items", 1000);
        report.require("hm.conc.rounds", if q { 100 } else { 3000 });
        report.require("hm.conc.ops_invoked_inside_spill_window", if q { 50 } else { 1000 });
        // ancestor / locator
        report.require("ancestor.queries", if q { 500_000 } else { 5_000_000 });
        report.require("ancestor.queries_from_fork_blocks", 10_000);
        report.require("ancestor.main_chain_shortcut_hits", 1000);
        report.require("ancestor.chains_of_1000_to_3000", 2);
        report.require("locator.get_locator", if q { 50 } else { 500 });
        report.require("locator.active_chain_get_ancestor", if q { 1000 } else { 10_000 });
        report.require("pinned.reorgs_behind_a_pinned_active_chain", if q { 2 } else { 10 });
    }

    drop(scratch);
    std::process::exit(report.finish(None));
}
