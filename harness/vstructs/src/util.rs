//! Small shared helpers: per-thread evidence accumulator, synthetic hashes, panic capture.

use ckb_types::packed::Byte32;
use ckb_types::prelude::*;
use serde_json::Value;
use std::collections::{BTreeMap, HashSet};
use std::time::{Duration, Instant};
use vbase::Report;

/// Evidence collected by one worker thread; merged into the single C17 report at the end.
#[derive(Default)]
pub struct Acc {
    pub evals: u64,
    pub counters: BTreeMap<String, u64>,
    pub distinct: HashSet<u64>,
    /// (signature, detail, witness, weight): the witness with the smallest weight is kept
    pub violations: Vec<(String, String, Value, u64)>,
    pub samples: Vec<Value>,
    pub inconclusive: Vec<String>,
}

impl Acc {
    pub fn new() -> Acc {
        Acc::default()
    }
    #[inline]
    pub fn eval(&mut self) {
        self.evals += 1;
    }
    pub fn count(&mut self, k: &str) {
        self.count_n(k, 1);
    }
    pub fn count_n(&mut self, k: &str, n: u64) {
        if n == 0 {
            // make the counter visible even when nothing was observed
            self.counters.entry(k.to_string()).or_insert(0);
            return;
        }
        *self.counters.entry(k.to_string()).or_insert(0) += n;
    }
    #[inline]
    pub fn distinct(&mut self, h: u64) {
        self.distinct.insert(h);
    }
    pub fn sample(&mut self, v: Value) {
        if self.samples.len() < 2 {
            self.samples.push(v);
        }
    }
    /// True if a witness for this signature with weight <= `weight` is already stored (the new
    /// occurrence then only needs to be counted, see `recount`).
    pub fn seen(&self, sig: &str, weight: u64) -> bool {
        self.violations.iter().any(|v| v.0 == sig && v.3 <= weight)
    }
    /// Count one more occurrence of an already witnessed signature.
    pub fn recount(&mut self, sig: &str) {
        self.count(&format!("violation::{sig}"));
    }
    pub fn violation(&mut self, sig: &str, detail: String, witness: Value) {
        self.violation_w(sig, u64::MAX, detail, witness);
    }
    /// Record a violation; among several witnesses of one signature the lightest is kept.
    pub fn violation_w(&mut self, sig: &str, weight: u64, detail: String, witness: Value) {
        self.count(&format!("violation::{sig}"));
        if let Some(v) = self.violations.iter_mut().find(|v| v.0 == sig) {
            if weight < v.3 {
                *v = (sig.to_string(), detail, witness, weight);
            }
            return;
        }
        self.violations.push((sig.to_string(), detail, witness, weight));
    }
    pub fn inconclusive(&mut self, r: &str) {
        if !self.inconclusive.iter().any(|x| x == r) {
            self.inconclusive.push(r.to_string());
        }
    }
    pub fn has_violation(&self) -> bool {
        !self.violations.is_empty()
    }
    pub fn merge(&mut self, other: Acc) {
        self.evals += other.evals;
        for (k, v) in other.counters {
            *self.counters.entry(k).or_insert(0) += v;
        }
        self.distinct.extend(other.distinct);
        for v in other.violations {
            if let Some(x) = self.violations.iter_mut().find(|x| x.0 == v.0) {
                if v.3 < x.3 {
                    *x = v;
                }
            } else {
                self.violations.push(v);
            }
        }
        for s in other.samples {
            self.sample(s);
        }
        for r in other.inconclusive {
            self.inconclusive(&r);
        }
    }
    pub fn into_report(self, report: &mut Report) {
        report.evals(self.evals);
        for (k, v) in self.counters {
            if let Some(sig) = k.strip_prefix("violation::") {
                // Report::violation counts one itself
                let _ = sig;
                report.count_n(&k, v.saturating_sub(1));
                continue;
            }
            report.count_n(&k, v);
            if v == 0 {
                report.counters.entry(k).or_insert(0);
            }
        }
        for h in self.distinct {
            report.distinct(h);
        }
        for (sig, detail, w, _) in self.violations {
            report.violation(&sig, detail, w);
        }
        for s in self.samples {
            report.sample(s);
        }
        for r in self.inconclusive {
            report.inconclusive(&r);
        }
    }
}

pub fn mix(mut x: u64) -> u64 {
    x = x.wrapping_add(0x9E3779B97F4A7C15);
    x = (x ^ (x >> 30)).wrapping_mul(0xBF58476D1CE4E5B9);
    x = (x ^ (x >> 27)).wrapping_mul(0x94D049BB133111EB);
    x ^ (x >> 31)
}

pub fn hcomb(a: u64, b: u64) -> u64 {
    mix(a ^ mix(b).rotate_left(17))
}

/// Synthetic 32-byte hash, a deterministic function of (domain, id).
pub fn synth_hash(domain: u64, id: u64) -> Byte32 {
    let mut b = [0u8; 32];
    let mut x = hcomb(domain, id);
    for c in b.chunks_mut(8) {
        x = mix(x);
        c.copy_from_slice(&x.to_le_bytes());
    }
    b.pack()
}

pub fn short(h: &Byte32) -> String {
    vbase::hex(&h.as_slice()[..6])
}

/// Deadline helper.
#[derive(Clone, Copy)]
pub struct Deadline(Instant);
impl Deadline {
    pub fn after(d: Duration) -> Deadline {
        Deadline(Instant::now() + d)
    }
    pub fn passed(&self) -> bool {
        Instant::now() >= self.0
    }
}

thread_local! {
    static LAST_PANIC: std::cell::RefCell<Option<String>> = const { std::cell::RefCell::new(None) };
}

/// Install a panic hook that records the message per thread instead of printing it.
pub fn install_quiet_panic_hook() {
    std::panic::set_hook(Box::new(|info| {
        let msg = if let Some(s) = info.payload().downcast_ref::<&str>() {
            s.to_string()
        } else if let Some(s) = info.payload().downcast_ref::<String>() {
            s.clone()
        } else {
            "panic".to_string()
        };
        let loc = info
            .location()
            .map(|l| format!("{}:{}", l.file(), l.line()))
            .unwrap_or_default();
        let full = format!("{msg} @ {loc}");
        if std::env::var("VSTRUCTS_PANIC_TRACE").is_ok() {
            eprintln!("panic: {full}");
        }
        LAST_PANIC.with(|p| *p.borrow_mut() = Some(full));
    }));
}

/// Run `f`, turning a panic into Err(message).
pub fn catch<R>(f: impl FnOnce() -> R) -> Result<R, String> {
    match std::panic::catch_unwind(std::panic::AssertUnwindSafe(f)) {
        Ok(r) => Ok(r),
        Err(_) => Err(LAST_PANIC
            .with(|p| p.borrow_mut().take())
            .unwrap_or_else(|| "panic".to_string())),
    }
}

/// Run `n` workers in parallel, worker i gets its index; returns merged evidence.
pub fn parallel<F>(n: usize, f: F) -> Acc
where
    F: Fn(usize) -> Acc + Sync,
{
    let mut total = Acc::new();
    std::thread::scope(|s| {
        let hs: Vec<_> = (0..n)
            .map(|i| {
                let f = &f;
                s.spawn(move || match catch(|| f(i)) {
                    Ok(a) => a,
                    Err(m) => {
                        let mut a = Acc::new();
                        a.inconclusive(&format!("harness worker panicked: {m}"));
                        a
                    }
                })
            })
            .collect();
        for h in hs {
            match h.join() {
                Ok(a) => total.merge(a),
                Err(_) => total.inconclusive("harness worker thread died"),
            }
        }
    });
    total
}
