//! Sub-engine B: the real `ckb_sync::InflightBlocks` against a plain map block -> (peer, time),
//! under virtual time (`ckb_systemtime::faketime`, process global: this sub-engine is the only
//! user of the clock and runs on one thread).
//!
//! Judged after every operation (on the full observable state: `inflight_state_by_block` for
//! every block of the universe, `blocks_iter`, `inflight_block_by_peer`, counts):
//!  * per-peer listings pairwise disjoint; every listed block has a state whose peer is the lister
//!    (one direction only: a state whose peer is no longer tracked is legal, see notes);
//!  * `insert` of an in-flight block returns false and changes nothing, otherwise records
//!    (peer, now) and lists the block under the peer, nothing else changes;
//!  * `remove_by_block(b)` returns whether b was in flight, removes exactly b;
//!  * `remove_by_peer(p)` of a tracked peer returns the number of listed blocks and removes
//!    exactly those (states and listing); of an untracked peer: 0 and nothing changes;
//!  * `prune(tip)`: every entry with number <= tip+20 and timestamp + BLOCK_DOWNLOAD_TIMEOUT < now
//!    is released; every released entry is either such an entry or older than the slow-block
//!    limit `division_point().2` (the smallest timeout the code may apply, after
//!    `mark_slow_block`); if `mark_slow_block` was never called exactly the timed-out entries go;
//!    survivors are unchanged; listings shrink by exactly the released blocks (peers returned for
//!    disconnection lose their listing);
//!  * `mark_slow_block` changes nothing observable.

use crate::util::{Acc, Deadline, catch, hcomb, short, synth_hash};
use ckb_constant::sync::BLOCK_DOWNLOAD_TIMEOUT;
use ckb_network::PeerIndex;
use ckb_sync::InflightBlocks;
use ckb_types::BlockNumberAndHash;
use serde_json::{Value, json};
use std::collections::{BTreeMap, BTreeSet, HashMap};
use std::time::Duration;
use vbase::{Rng, Tier};

const PRUNE_RANGE: u64 = 20; // `let end = tip + 20` in InflightBlocks::prune

#[derive(Clone, Copy, Debug, PartialEq, Eq)]
pub enum Op {
    Insert(usize, usize),
    ByPeer(usize),
    ByBlock(usize),
    Prune(u64),
    Mark(u64),
    Tick(u64),
}

impl Op {
    fn name(&self) -> &'static str {
        match self {
            Op::Insert(..) => "insert",
            Op::ByPeer(_) => "remove_by_peer",
            Op::ByBlock(_) => "remove_by_block",
            Op::Prune(_) => "prune",
            Op::Mark(_) => "mark_slow_block",
            Op::Tick(_) => "advance_time",
        }
    }
    fn code(&self) -> u64 {
        match self {
            Op::Insert(p, b) => 1_000_000 + (*p as u64) * 1000 + *b as u64,
            Op::ByPeer(p) => 2_000_000 + *p as u64,
            Op::ByBlock(b) => 3_000_000 + *b as u64,
            Op::Prune(t) => 4_000_000 + *t,
            Op::Mark(t) => 5_000_000 + *t,
            Op::Tick(d) => 6_000_000 + *d,
        }
    }
    fn json(&self, u: &Universe) -> Value {
        match self {
            Op::Insert(p, b) => {
                json!({"insert": {"peer": p, "block": u.describe(*b)}})
            }
            Op::ByPeer(p) => json!({"remove_by_peer": p}),
            Op::ByBlock(b) => json!({"remove_by_block": u.describe(*b)}),
            Op::Prune(t) => json!({"prune": {"tip": t}}),
            Op::Mark(t) => json!({"mark_slow_block": {"tip": t}}),
            Op::Tick(d) => json!({"advance_time_ms": d}),
        }
    }
}

pub struct Universe {
    pub blocks: Vec<BlockNumberAndHash>,
    index: HashMap<BlockNumberAndHash, usize>,
    pub peers: Vec<usize>,
}

impl Universe {
    pub fn new(numbers: &[u64], peers: Vec<usize>, domain: u64) -> Universe {
        let blocks: Vec<BlockNumberAndHash> = numbers
            .iter()
            .enumerate()
            .map(|(i, n)| BlockNumberAndHash::new(*n, synth_hash(domain, i as u64)))
            .collect();
        let index = blocks
            .iter()
            .enumerate()
            .map(|(i, b)| (b.clone(), i))
            .collect();
        Universe {
            blocks,
            index,
            peers,
        }
    }
    fn describe(&self, b: usize) -> String {
        format!("#{}:{}", self.blocks[b].number, short(&self.blocks[b].hash))
    }
}

/// Observable state of the table == the reference model's state.
#[derive(Clone, Debug, PartialEq, Eq, Default)]
pub struct Tables {
    /// block -> (peer, request time)
    pub states: BTreeMap<usize, (usize, u64)>,
    /// tracked peer -> listed blocks
    pub lists: BTreeMap<usize, BTreeSet<usize>>,
}

impl Tables {
    fn json(&self, u: &Universe) -> Value {
        json!({
            "states": self.states.iter().map(|(b,(p,t))| json!({"block": u.describe(*b), "peer": p, "timestamp": t})).collect::<Vec<_>>(),
            "listings": self.lists.iter().map(|(p, s)| json!({"peer": p, "blocks": s.iter().map(|b| u.describe(*b)).collect::<Vec<_>>()})).collect::<Vec<_>>(),
        })
    }
    fn abstract_hash(&self) -> u64 {
        let mut h = 7u64;
        for (b, (p, _)) in &self.states {
            h = hcomb(h, (*b as u64) * 64 + *p as u64);
        }
        for (p, s) in &self.lists {
            h = hcomb(h, 1_000 + *p as u64);
            for b in s {
                h = hcomb(h, 2_000 + *b as u64);
            }
        }
        h
    }
}

#[derive(Clone, Default)]
pub struct Model {
    pub t: Tables,
    pub marks_ever: bool,
    /// blocks that arrived (remove_by_block) while their in-flight state was orphaned (its peer
    /// had already been dropped by prune, the state left behind) after a slow-block mark had been
    /// set: the precondition of the listed finding `inflight.prune.released_young_entry` (the
    /// mark of such a block is not cleared on arrival). Cleared when the stale mark has fired.
    pub stale_mark_possible: BTreeSet<usize>,
}

pub struct Fail {
    sig: String,
    detail: String,
    extra: Value,
}

fn fail(sig: String, detail: String, extra: Value) -> Fail {
    Fail { sig, detail, extra }
}

fn pi(p: usize) -> PeerIndex {
    p.into()
}

/// Read the complete observable state of the real table.
fn observe(real: &InflightBlocks, u: &Universe) -> Result<Tables, Fail> {
    let mut t = Tables::default();
    for (i, b) in u.blocks.iter().enumerate() {
        if let Some(s) = real.inflight_state_by_block(b) {
            t.states
                .insert(i, (s.verif_peer().value(), s.verif_timestamp()));
        }
    }
    for (p, set) in real.blocks_iter() {
        let mut s = BTreeSet::new();
        for b in set {
            match u.index.get(b) {
                Some(i) => {
                    s.insert(*i);
                }
                None => {
                    return Err(fail(
                        "inflight.listing_unknown_block".into(),
                        format!("peer {} lists a block that was never requested", p.value()),
                        json!({}),
                    ));
                }
            }
        }
        t.lists.insert(p.value(), s);
    }
    Ok(t)
}

/// Invariants that must hold in every observable state.
fn invariants(real: &InflightBlocks, u: &Universe, t: &Tables, acc: &mut Acc) -> Result<(), Fail> {
    // (1) a block is never listed for two peers
    acc.eval();
    let mut owner: BTreeMap<usize, usize> = BTreeMap::new();
    for (p, s) in &t.lists {
        for b in s {
            if let Some(q) = owner.insert(*b, *p) {
                return Err(fail(
                    "inflight.block_assigned_to_two_peers".into(),
                    format!("block {} is listed for peers {q} and {p}", u.describe(*b)),
                    json!({"block": u.describe(*b), "peers": [q, p]}),
                ));
            }
        }
    }
    // (2) every listed block is in flight from exactly the listing peer
    acc.eval();
    for (p, s) in &t.lists {
        for b in s {
            match t.states.get(b) {
                Some((q, _)) if q == p => {}
                other => {
                    return Err(fail(
                        "inflight.listed_block_not_in_flight_from_lister".into(),
                        format!(
                            "block {} is listed for peer {p} but its in-flight state is {other:?}",
                            u.describe(*b)
                        ),
                        json!({"block": u.describe(*b), "peer": p}),
                    ));
                }
            }
        }
    }
    // (3) counters and per-peer accessor agree with the tables
    acc.eval();
    if real.total_inflight_count() != t.states.len() {
        return Err(fail(
            "inflight.total_inflight_count_mismatch".into(),
            format!(
                "total_inflight_count()={} but {} blocks of the universe have a state",
                real.total_inflight_count(),
                t.states.len()
            ),
            json!({}),
        ));
    }
    for p in &u.peers {
        let listed = t.lists.get(p);
        let by_peer = real.inflight_block_by_peer(pi(*p));
        let n = real.peer_inflight_count(pi(*p));
        let ok = match (listed, by_peer) {
            (None, None) => n == 0,
            (Some(s), Some(h)) => {
                n == s.len()
                    && h.len() == s.len()
                    && h.iter().all(|b| u.index.get(b).is_some_and(|i| s.contains(i)))
            }
            _ => false,
        };
        if !ok {
            return Err(fail(
                "inflight.per_peer_accessors_disagree".into(),
                format!("inflight_block_by_peer/peer_inflight_count disagree with blocks_iter for peer {p}"),
                json!({"peer": p}),
            ));
        }
    }
    Ok(())
}

/// Compare the real tables with the model's after `op`, with a specific signature.
fn compare(op: &str, u: &Universe, real: &Tables, model: &Tables) -> Result<(), Fail> {
    for (b, st) in &real.states {
        match model.states.get(b) {
            None => {
                return Err(fail(
                    format!("inflight.{op}.state_not_released_or_appeared"),
                    format!("after {op}: block {} has state {st:?} but must not be in flight", u.describe(*b)),
                    json!({"block": u.describe(*b)}),
                ));
            }
            Some(ms) if ms != st => {
                return Err(fail(
                    format!("inflight.{op}.state_changed"),
                    format!("after {op}: block {} has state {st:?}, expected {ms:?}", u.describe(*b)),
                    json!({"block": u.describe(*b)}),
                ));
            }
            _ => {}
        }
    }
    for (b, ms) in &model.states {
        if !real.states.contains_key(b) {
            return Err(fail(
                format!("inflight.{op}.state_lost"),
                format!("after {op}: block {} lost its state {ms:?}", u.describe(*b)),
                json!({"block": u.describe(*b)}),
            ));
        }
    }
    for (p, s) in &real.lists {
        match model.lists.get(p) {
            None => {
                return Err(fail(
                    format!("inflight.{op}.peer_listing_not_released_or_appeared"),
                    format!("after {op}: peer {p} is tracked with {} block(s) but must not be", s.len()),
                    json!({"peer": p}),
                ));
            }
            Some(ms) => {
                if let Some(b) = s.difference(ms).next() {
                    return Err(fail(
                        format!("inflight.{op}.listing_not_released"),
                        format!("after {op}: peer {p} still lists block {}", u.describe(*b)),
                        json!({"peer": p, "block": u.describe(*b)}),
                    ));
                }
                if let Some(b) = ms.difference(s).next() {
                    return Err(fail(
                        format!("inflight.{op}.listing_lost"),
                        format!("after {op}: peer {p} no longer lists block {}", u.describe(*b)),
                        json!({"peer": p, "block": u.describe(*b)}),
                    ));
                }
            }
        }
    }
    for p in model.lists.keys() {
        if !real.lists.contains_key(p) {
            return Err(fail(
                format!("inflight.{op}.tracked_peer_lost"),
                format!("after {op}: peer {p} is no longer tracked"),
                json!({"peer": p}),
            ));
        }
    }
    Ok(())
}

pub struct StepInfo {
    pub released_hard: u64,
    pub released_slow: u64,
    pub peers_dropped: u64,
    pub orphaned_states: u64,
    pub refused: bool,
}

/// Apply one operation to the real table and the model and judge it.
pub fn step(
    real: &mut InflightBlocks,
    m: &mut Model,
    now: &mut u64,
    u: &Universe,
    op: Op,
    acc: &mut Acc,
) -> Result<StepInfo, Fail> {
    let clock = ckb_systemtime::faketime();
    clock.set_faketime(*now);
    std::mem::forget(clock); // keep the virtual clock enabled (the guard's drop would disable it)
    let mut info = StepInfo {
        released_hard: 0,
        released_slow: 0,
        peers_dropped: 0,
        orphaned_states: 0,
        refused: false,
    };
    match op {
        Op::Tick(d) => {
            *now += d;
            return Ok(info);
        }
        Op::Insert(p, b) => {
            let ret = real.insert(pi(p), u.blocks[b].clone());
            let expect = !m.t.states.contains_key(&b);
            acc.eval();
            if ret != expect {
                return Err(fail(
                    if expect {
                        "inflight.insert.fresh_block_refused".into()
                    } else {
                        "inflight.insert.in_flight_block_accepted".into()
                    },
                    format!("insert(peer {p}, {}) returned {ret}, the block was {}in flight", u.describe(b), if expect { "not " } else { "" }),
                    json!({}),
                ));
            }
            if expect {
                m.t.states.insert(b, (p, *now));
                m.t.lists.entry(p).or_default().insert(b);
            } else {
                info.refused = true;
            }
        }
        Op::ByBlock(b) => {
            let ret = real.remove_by_block(u.blocks[b].clone());
            let expect = m.t.states.contains_key(&b);
            acc.eval();
            if ret != expect {
                return Err(fail(
                    "inflight.remove_by_block.return_value".into(),
                    format!("remove_by_block({}) returned {ret}, expected {expect}", u.describe(b)),
                    json!({}),
                ));
            }
            if let Some((p, _)) = m.t.states.remove(&b) {
                if let Some(s) = m.t.lists.get_mut(&p) {
                    s.remove(&b);
                } else if m.marks_ever {
                    m.stale_mark_possible.insert(b);
                }
            }
        }
        Op::ByPeer(p) => {
            let ret = real.remove_by_peer(pi(p));
            let listed = m.t.lists.remove(&p).unwrap_or_default();
            acc.eval();
            if ret != listed.len() {
                return Err(fail(
                    "inflight.remove_by_peer.return_value".into(),
                    format!("remove_by_peer({p}) returned {ret}, the peer listed {} block(s)", listed.len()),
                    json!({}),
                ));
            }
            for b in listed {
                m.t.states.remove(&b);
            }
        }
        Op::Mark(tip) => {
            real.mark_slow_block(tip);
            m.marks_ever = true;
        }
        Op::Prune(tip) => {
            let low = real.division_point().2;
            let before = m.t.clone();
            let dl: BTreeSet<usize> = real.prune(tip).into_iter().map(|p| p.value()).collect();
            let after = observe(real, u)?;
            invariants(real, u, &after, acc)?;
            // survivors unchanged, nothing appears
            acc.eval();
            for (b, st) in &after.states {
                match before.states.get(b) {
                    Some(x) if x == st => {}
                    other => {
                        return Err(fail(
                            "inflight.prune.state_changed_or_appeared".into(),
                            format!("prune({tip}): block {} has state {st:?}, before it was {other:?}", u.describe(*b)),
                            json!({}),
                        ));
                    }
                }
            }
            let released: BTreeSet<usize> = before
                .states
                .keys()
                .filter(|b| !after.states.contains_key(b))
                .copied()
                .collect();
            let hard = |b: &usize| {
                let (_, ts) = before.states[b];
                u.blocks[*b].number <= tip + PRUNE_RANGE && ts + BLOCK_DOWNLOAD_TIMEOUT < *now
            };
            acc.eval();
            for b in before.states.keys() {
                if hard(b) && !released.contains(b) {
                    return Err(fail(
                        "inflight.prune.timed_out_entry_kept".into(),
                        format!(
                            "prune({tip}) at {now}: block {} requested at {} (older than {BLOCK_DOWNLOAD_TIMEOUT} ms, within tip+20) was not released",
                            u.describe(*b), before.states[b].1
                        ),
                        json!({"block": u.describe(*b)}),
                    ));
                }
            }
            acc.eval();
            for b in &released {
                let (_, ts) = before.states[b];
                let age = *now - ts;
                if hard(b) {
                    info.released_hard += 1;
                    continue;
                }
                if !m.marks_ever {
                    return Err(fail(
                        "inflight.prune.released_entry_not_timed_out".into(),
                        format!(
                            "prune({tip}) at {now}: block {} (age {age} ms) released although it has not timed out and no slow-block mark was ever set",
                            u.describe(*b)
                        ),
                        json!({"block": u.describe(*b), "age_ms": age}),
                    ));
                }
                if age <= low.min(BLOCK_DOWNLOAD_TIMEOUT) {
                    // the listed finding needs its precondition in this run's own history: the
                    // block arrived once while its state was orphaned and a mark existed
                    let listed_cause = m.stale_mark_possible.remove(b);
                    return Err(fail(
                        if listed_cause { "inflight.prune.released_young_entry".into() } else { "inflight.prune.released_young_entry@no_arrival_of_an_orphaned_state_before".into() },
                        format!(
                            "prune({tip}) at {now}: block {} released at age {age} ms, younger than the smallest timeout ({low} ms slow-block limit)",
                            u.describe(*b)
                        ),
                        json!({"block": u.describe(*b), "age_ms": age, "slow_limit_ms": low}),
                    ));
                }
                info.released_slow += 1;
            }
            // listings
            acc.eval();
            let mut expect = Tables {
                states: after.states.clone(),
                lists: BTreeMap::new(),
            };
            for (p, s) in &before.lists {
                if dl.contains(p) {
                    if after.lists.contains_key(p) {
                        return Err(fail(
                            "inflight.prune.disconnected_peer_still_tracked".into(),
                            format!("prune({tip}) asked to disconnect peer {p} but still tracks it"),
                            json!({"peer": p}),
                        ));
                    }
                    info.peers_dropped += 1;
                    continue;
                }
                expect
                    .lists
                    .insert(*p, s.difference(&released).copied().collect());
            }
            for p in &dl {
                if !before.lists.contains_key(p) {
                    return Err(fail(
                        "inflight.prune.disconnects_untracked_peer".into(),
                        format!("prune({tip}) asked to disconnect peer {p} which was not tracked"),
                        json!({"peer": p}),
                    ));
                }
            }
            compare("prune", u, &after, &expect)?;
            m.t = after;
        }
    }
    let real_t = observe(real, u)?;
    invariants(real, u, &real_t, acc)?;
    acc.eval();
    compare(op.name(), u, &real_t, &m.t)?;
    info.orphaned_states = real_t
        .states
        .values()
        .filter(|(p, _)| !real_t.lists.contains_key(p))
        .count() as u64;
    Ok(info)
}

fn report_fail(acc: &mut Acc, f: Fail, mode: &str, u: &Universe, ops: &[Op], now: u64, before: &Tables) {
    let weight = ops.len() as u64;
    if acc.seen(&f.sig, weight) {
        acc.recount(&f.sig);
        return;
    }
    let w = json!({
        "mode": mode,
        "virtual_now_ms": now,
        "ops": ops.iter().map(|o| o.json(u)).collect::<Vec<_>>(),
        "failing_step": ops.len() - 1,
        "tables_before_failing_op": before.json(u),
        "extra": f.extra,
    });
    acc.violation_w(&f.sig, weight, f.detail, w);
}

// ------------------------------------------------------------------------------------------

struct ExCtx<'a> {
    u: &'a Universe,
    alpha: &'a [Op],
    max_len: usize,
    nodes: u64,
    by_kind: BTreeMap<&'static str, u64>,
    refused: u64,
    released: u64,
    deadline: Deadline,
    timed_out: bool,
}

fn ex_dfs(
    cx: &mut ExCtx,
    acc: &mut Acc,
    real: &InflightBlocks,
    m: &Model,
    now: u64,
    seq: &mut Vec<Op>,
) {
    if cx.timed_out {
        return;
    }
    if cx.nodes % 4096 == 0 && cx.deadline.passed() {
        cx.timed_out = true;
        return;
    }
    for k in 0..cx.alpha.len() {
        let op = cx.alpha[k];
        // two consecutive clock advances are the same as another single one: skip
        if let (Op::Tick(_), Some(Op::Tick(_))) = (op, seq.last()) {
            continue;
        }
        let mut r2 = real.clone();
        let mut m2 = m.clone();
        let mut now2 = now;
        seq.push(op);
        cx.nodes += 1;
        *cx.by_kind.entry(op.name()).or_insert(0) += 1;
        acc.distinct(hcomb(hcomb(m.t.abstract_hash(), now2 % 100_000), op.code()));
        let res = catch(|| step(&mut r2, &mut m2, &mut now2, cx.u, op, acc));
        match res {
            Ok(Ok(info)) => {
                if info.refused {
                    cx.refused += 1;
                }
                cx.released += info.released_hard + info.released_slow;
                if seq.len() < cx.max_len {
                    ex_dfs(cx, acc, &r2, &m2, now2, seq);
                }
            }
            Ok(Err(f)) => {
                report_fail(acc, f, "exhaustive", cx.u, seq, now2, &m.t);
            }
            Err(msg) => {
                report_fail(
                    acc,
                    fail("inflight.panic".into(), format!("the table panicked: {msg}"), json!({"panic": msg})),
                    "exhaustive",
                    cx.u,
                    seq,
                    now2,
                    &m.t,
                );
            }
        }
        seq.pop();
    }
}

/// Every op sequence up to `max_len` over 2 peers (+1 never tracked) x 3 blocks.
pub fn exhaustive(tier: Tier, budget: Duration) -> Acc {
    let mut acc = Acc::new();
    // block numbers: 1 and 2 inside every scanned range, 30 outside the range of tip 0 (0+20)
    let u = Universe::new(&[1, 2, 30], vec![1, 2, 3], 0xB10C);
    let mut alpha = vec![];
    for p in [1usize, 2] {
        for b in 0..3 {
            alpha.push(Op::Insert(p, b));
        }
    }
    for p in [1usize, 2, 3] {
        alpha.push(Op::ByPeer(p));
    }
    for b in 0..3 {
        alpha.push(Op::ByBlock(b));
    }
    alpha.push(Op::Prune(0));
    alpha.push(Op::Prune(15));
    alpha.push(Op::Mark(0));
    alpha.push(Op::Mark(40));
    alpha.push(Op::Tick(1000));
    alpha.push(Op::Tick(1501));
    alpha.push(Op::Tick(BLOCK_DOWNLOAD_TIMEOUT + 1));
    let max_len = tier.pick(4usize, 5usize);
    let mut cx = ExCtx {
        u: &u,
        alpha: &alpha,
        max_len,
        nodes: 0,
        by_kind: BTreeMap::new(),
        refused: 0,
        released: 0,
        deadline: Deadline::after(budget),
        timed_out: false,
    };
    let real = InflightBlocks::default();
    let m = Model::default();
    let mut seq = vec![];
    ex_dfs(&mut cx, &mut acc, &real, &m, 1_000_000, &mut seq);
    if cx.timed_out {
        acc.inconclusive("inflight exhaustive enumeration hit its time budget");
    }
    acc.count_n("inflight.ex.sequences", cx.nodes);
    acc.count_n("inflight.ex.max_len", max_len as u64);
    acc.count_n("inflight.ex.alphabet", alpha.len() as u64);
    for (k, v) in &cx.by_kind {
        acc.count_n(&format!("inflight.ex.last_op.{k}"), *v);
    }
    acc.count_n("inflight.ex.insert_refused", cx.refused);
    acc.count_n("inflight.ex.prune_released_entries", cx.released);
    acc
}

// ------------------------------------------------------------------------------------------

const TICKS: [u64; 14] = [
    0,
    1,
    200,
    999,
    1000,
    1249,
    1499,
    1500,
    1501,
    5000,
    BLOCK_DOWNLOAD_TIMEOUT - 1,
    BLOCK_DOWNLOAD_TIMEOUT,
    BLOCK_DOWNLOAD_TIMEOUT + 1,
    BLOCK_DOWNLOAD_TIMEOUT + 2000,
];

fn run_ops(
    acc: &mut Acc,
    u: &Universe,
    mode: &str,
    mut next: impl FnMut(&Model, usize) -> Option<Op>,
) -> u64 {
    let mut real = InflightBlocks::default();
    let mut m = Model::default();
    let mut now = 10_000_000u64;
    let mut seq: Vec<Op> = vec![];
    let mut h = 11u64;
    let mut k = 0usize;
    while let Some(op) = next(&m, k) {
        k += 1;
        seq.push(op);
        if seq.len() > 64 {
            // keep the witness small: the tables before the failing op are part of it
            seq.remove(0);
        }
        h = hcomb(h, op.code());
        let before = m.t.clone();
        let res = catch(|| step(&mut real, &mut m, &mut now, u, op, acc));
        match res {
            Ok(Ok(info)) => {
                acc.count(&format!("inflight.{mode}.{}", op.name()));
                if info.refused {
                    acc.count(&format!("inflight.{mode}.insert_refused"));
                }
                acc.count_n(&format!("inflight.{mode}.prune_released_by_download_timeout"), info.released_hard);
                acc.count_n(&format!("inflight.{mode}.prune_released_by_slow_block_limit"), info.released_slow);
                acc.count_n(&format!("inflight.{mode}.prune_dropped_peers"), info.peers_dropped);
                if info.orphaned_states > 0 {
                    acc.count("inflight.observed.state_whose_peer_is_no_longer_tracked");
                    if !acc.counters.contains_key("inflight.observed.untracked_peer_state_sampled") {
                        acc.count("inflight.observed.untracked_peer_state_sampled");
                        acc.sample(json!({"structure": "InflightBlocks", "note": "state left behind for a peer dropped by prune (legal under the one-directional reading)",
                            "last_ops": seq.iter().rev().take(6).rev().map(|o| o.json(u)).collect::<Vec<_>>(), "tables": m.t.json(u)}));
                    }
                }
            }
            Ok(Err(f)) => {
                report_fail(acc, f, mode, u, &seq, now, &before);
                return h;
            }
            Err(msg) => {
                report_fail(
                    acc,
                    fail("inflight.panic".into(), format!("the table panicked: {msg}"), json!({"panic": msg})),
                    mode,
                    u,
                    &seq,
                    now,
                    &before,
                );
                return h;
            }
        }
    }
    let (_, _, low) = real.division_point();
    if low != 1500 {
        acc.count(&format!("inflight.{mode}.runs_where_slow_limit_adapted"));
    }
    h
}

fn random_run(acc: &mut Acc, rng: &mut Rng, id: u64, long: bool) {
    let npeers = 1 + rng.usize_below(6);
    let peers: Vec<usize> = (1..=npeers + 1).collect(); // the last one is rarely used
    let nblocks = 1 + rng.usize_below(if long { 200 } else { 48 });
    let max_number = 1 + rng.below(40);
    let numbers: Vec<u64> = (0..nblocks).map(|_| 1 + rng.below(max_number)).collect();
    let u = Universe::new(&numbers, peers, id);
    let nops = if long { 3000 + rng.usize_below(3000) } else { 50 + rng.usize_below(500) };
    let w_insert = 30 + rng.below(40);
    let w_arrive = if long { 40 } else { 5 + rng.below(25) };
    let w_peer = 1 + rng.below(6);
    let w_prune = 3 + rng.below(15);
    let w_mark = rng.below(8);
    let w_tick = 5 + rng.below(30);
    let total = w_insert + w_arrive + w_peer + w_prune + w_mark + w_tick;
    let mut r = rng.fork(id);
    let h = run_ops(acc, &u, "rand", |m, k| {
        if k >= nops {
            return None;
        }
        let x = r.below(total);
        Some(if x < w_insert {
            Op::Insert(1 + r.usize_below(npeers), r.usize_below(nblocks))
        } else if x < w_insert + w_arrive {
            // mostly a block that is in flight
            if !m.t.states.is_empty() && r.chance(4, 5) {
                let ks: Vec<usize> = m.t.states.keys().copied().collect();
                Op::ByBlock(*r.pick(&ks))
            } else {
                Op::ByBlock(r.usize_below(nblocks))
            }
        } else if x < w_insert + w_arrive + w_peer {
            Op::ByPeer(1 + r.usize_below(npeers + 1))
        } else if x < w_insert + w_arrive + w_peer + w_prune {
            Op::Prune(r.below(max_number + 5))
        } else if x < w_insert + w_arrive + w_peer + w_prune + w_mark {
            Op::Mark(r.below(max_number + 5))
        } else {
            Op::Tick(*r.pick(&TICKS))
        })
    });
    acc.distinct(h);
    acc.count("inflight.rand.runs");
}

/// Directed workloads around the peer-eviction path of `prune` (needs more than
/// MAX_OUTBOUND_PEERS_TO_PROTECT_FROM_DISCONNECT = 4 tracked peers and repeated timeouts).
fn eviction_run(acc: &mut Acc, rng: &mut Rng, id: u64) {
    let npeers = 5 + rng.usize_below(3);
    let peers: Vec<usize> = (1..=npeers).collect();
    // victim (peer 1) blocks 0..k: low numbers; one more block for the victim; one per other peer
    let k = 3 + rng.usize_below(3);
    let mut numbers: Vec<u64> = (0..k).map(|i| 1 + i as u64).collect();
    numbers.push(k as u64 + 1); // victim's young block, index k
    for p in 2..=npeers {
        numbers.push(k as u64 + p as u64); // index k + p - 1
    }
    let nblocks = numbers.len();
    let u = Universe::new(&numbers, peers, id);
    let mut script: Vec<Op> = vec![];
    for b in 0..k {
        script.push(Op::Insert(1, b));
    }
    script.push(Op::Tick(20_000 + rng.below(5000)));
    script.push(Op::Insert(1, k));
    for p in 2..=npeers {
        script.push(Op::Insert(p, k + p - 1));
    }
    script.push(Op::Tick(BLOCK_DOWNLOAD_TIMEOUT - 20_000 + 1));
    script.push(Op::Prune(rng.below(3)));
    // now a random tail around the young block of the dropped peer
    let tail = 10 + rng.usize_below(30);
    let mut r = rng.fork(id ^ 0xE71C);
    let mut i = 0usize;
    let h = run_ops(acc, &u, "evict", |_m, _k| {
        if i < script.len() {
            i += 1;
            return Some(script[i - 1]);
        }
        if i >= script.len() + tail {
            return None;
        }
        i += 1;
        Some(match r.below(10) {
            0 | 1 => Op::Mark(r.below(20)),
            2 | 3 => Op::ByBlock(if r.chance(2, 3) { k } else { r.usize_below(nblocks) }),
            4 | 5 => Op::Insert(1 + r.usize_below(npeers), if r.chance(2, 3) { k } else { r.usize_below(nblocks) }),
            6 => Op::ByPeer(1 + r.usize_below(npeers)),
            7 => Op::Prune(r.below(20)),
            _ => Op::Tick(*r.pick(&TICKS)),
        })
    });
    acc.distinct(h);
    acc.count("inflight.evict.runs");
}

pub fn random(seed: u64, tier: Tier, budget: Duration) -> Acc {
    let mut acc = Acc::new();
    let deadline = Deadline::after(budget);
    let mut rng = Rng::new(seed ^ 0xB0B0);
    let runs = tier.pick(2000usize, 20_000usize);
    for k in 0..runs {
        if deadline.passed() {
            break;
        }
        if k % 4 == 3 {
            eviction_run(&mut acc, &mut rng, hcomb(seed ^ 0xE, k as u64));
        } else {
            random_run(&mut acc, &mut rng, hcomb(seed ^ 0xB, k as u64), k % 50 == 1);
        }
    }
    acc
}

pub fn disable_clock() {
    ckb_systemtime::faketime().disable_faketime();
}
