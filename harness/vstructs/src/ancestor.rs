//! Sub-engine D: skip-list ancestor lookup and locator construction against walking parent links.
//!
//! Part 1: `HeaderIndexView`s built exactly like `SyncShared::insert_valid_header` does
//! (`HeaderIndexView::new` + `build_skip` with a lookup closure) kept in a plain HashMap;
//! `get_ancestor(tip, target, lookup, fast_scanner)` is compared with the hash found by following
//! `parent_hash` one by one, for trunk and fork blocks, with and without the main-chain shortcut.
//! Part 2: a real `SyncShared` (temp DB holding only genesis) fed through `insert_valid_header`;
//! `ActiveChain::get_ancestor` and `ActiveChain::get_locator` are judged the same way.

use crate::util::{Acc, Deadline, catch, hcomb, parallel, short, synth_hash};
use ckb_app_config::SyncConfig;
use ckb_chain_spec::consensus::ConsensusBuilder;
use ckb_shared::{HeaderIndexView, SharedBuilder};
use ckb_sync::SyncShared;
use ckb_types::core::{EpochNumberWithFraction, HeaderView};
use ckb_types::packed::Byte32;
use ckb_types::{BlockNumberAndHash, U256};
use serde_json::json;
use std::collections::HashMap;
use std::sync::atomic::{AtomicUsize, Ordering};
use std::time::Duration;
use vbase::{Rng, Tier};

/// A single query doing more header lookups than this is treated as non-termination.
const LOOKUP_LIMIT: u64 = 200_000;

pub struct Forest {
    pub map: HashMap<Byte32, HeaderIndexView>,
    /// trunk[h] = hash at height h
    pub trunk: Vec<Byte32>,
    /// branches: (fork height f, hashes at heights f+1..)
    pub branches: Vec<(u64, Vec<Byte32>)>,
    /// main chain tip used for the shortcut (blocks of the trunk up to here are "main chain")
    pub main_tip: u64,
    pub with_scanner: bool,
}

impl Forest {
    fn scanner(&self, number: u64, current: &BlockNumberAndHash) -> Option<HeaderIndexView> {
        if !self.with_scanner {
            return None;
        }
        if current.number <= self.main_tip && self.trunk[current.number as usize] == current.hash {
            self.map.get(&self.trunk[number as usize]).cloned()
        } else {
            None
        }
    }

    fn add(&mut self, hash: Byte32, number: u64, parent: Byte32) {
        let td = self
            .map
            .get(&parent)
            .map(|p| p.total_difficulty().clone())
            .unwrap_or_default()
            + U256::from(1000u64 + number % 7);
        let mut v = HeaderIndexView::new(
            hash.clone(),
            number,
            EpochNumberWithFraction::new(number / 1000, number % 1000, 1000),
            1_600_000_000_000 + number * 8000,
            parent,
            td,
        );
        {
            let this = &*self;
            let steps = std::cell::Cell::new(0u64);
            v.build_skip(
                this.main_tip,
                |h, _store_first| {
                    steps.set(steps.get() + 1);
                    if steps.get() > LOOKUP_LIMIT {
                        panic!("vstructs: build_skip does not terminate (more than {LOOKUP_LIMIT} header lookups)");
                    }
                    this.map.get(h).cloned()
                },
                |n, c| this.scanner(n, &c),
            );
        }
        self.map.insert(hash, v);
    }

    pub fn build(id: u64, len: u64, forks: &[(u64, u64)], main_tip: u64, with_scanner: bool) -> Forest {
        let mut f = Forest {
            map: HashMap::new(),
            trunk: (0..=len).map(|h| synth_hash(id, h)).collect(),
            branches: vec![],
            main_tip: main_tip.min(len),
            with_scanner,
        };
        for h in 0..=len {
            let parent = if h == 0 {
                synth_hash(id, u64::MAX)
            } else {
                f.trunk[h as usize - 1].clone()
            };
            f.add(f.trunk[h as usize].clone(), h, parent);
        }
        for (bi, (fork, blen)) in forks.iter().enumerate() {
            let fork = (*fork).min(len);
            let mut hashes = vec![];
            let mut parent = f.trunk[fork as usize].clone();
            for k in 1..=*blen {
                let h = synth_hash(id ^ 0xF0F0, (bi as u64) << 32 | k);
                f.add(h.clone(), fork + k, parent.clone());
                hashes.push(h.clone());
                parent = h;
            }
            f.branches.push((fork, hashes));
        }
        f
    }

    /// Walk parent links from `start` down to height 0, return hashes indexed by height.
    fn walk(&self, start: &Byte32) -> Vec<Byte32> {
        let v = &self.map[start];
        let mut out = vec![Byte32::zero(); v.number() as usize + 1];
        let mut cur = v.clone();
        loop {
            out[cur.number() as usize] = cur.hash();
            if cur.number() == 0 {
                break;
            }
            let p = self.map.get(&cur.parent_hash()).expect("parent in map");
            assert_eq!(p.number() + 1, cur.number());
            cur = p.clone();
        }
        out
    }
}

struct AStats {
    queries: u64,
    starts: u64,
    fork_queries: u64,
    above_height: u64,
    scanner_hits: std::cell::Cell<u64>,
    lookups: std::cell::Cell<u64>,
}

/// Check every (or a sample of) target(s) from one start block.
fn check_start(
    f: &Forest,
    acc: &mut Acc,
    st: &mut AStats,
    start: &Byte32,
    on_fork: bool,
    sample: Option<(&mut Rng, usize)>,
) -> bool {
    let walk = f.walk(start);
    let view = f.map[start].clone();
    let h = view.number();
    st.starts += 1;
    let targets: Vec<u64> = match sample {
        None => (0..=h).collect(),
        Some((rng, n)) => {
            let mut t: Vec<u64> = (0..n).map(|_| rng.range(0, h)).collect();
            t.push(0);
            t.push(h);
            if h > 0 {
                t.push(h - 1);
                t.push(1);
            }
            t
        }
    };
    for t in targets {
        st.queries += 1;
        if on_fork {
            st.fork_queries += 1;
        }
        let q0 = st.lookups.get();
        let got = view.get_ancestor(
            f.main_tip,
            t,
            |hh, _| {
                st.lookups.set(st.lookups.get() + 1);
                if st.lookups.get() - q0 > LOOKUP_LIMIT {
                    panic!("vstructs: get_ancestor({h} -> {t}) does not terminate (more than {LOOKUP_LIMIT} header lookups)");
                }
                f.map.get(hh).cloned()
            },
            |n, c| {
                let r = f.scanner(n, &c);
                if r.is_some() {
                    st.scanner_hits.set(st.scanner_hits.get() + 1);
                }
                r
            },
        );
        acc.eval();
        let expect = f.map.get(&walk[t as usize]);
        if got.as_ref() != expect {
            acc.violation(
                if got.is_none() {
                    "ancestor.get_ancestor.none_for_existing_ancestor"
                } else if got.as_ref().map(|g| g.number()) != Some(t) {
                    "ancestor.get_ancestor.wrong_height"
                } else {
                    "ancestor.get_ancestor.wrong_block"
                },
                format!(
                    "get_ancestor from height {h} to {t} returned {:?}, parent walking gives {}",
                    got.as_ref().map(|g| (g.number(), short(&g.hash()))),
                    short(&walk[t as usize])
                ),
                json!({"chain_len": f.trunk.len() - 1, "start_height": h, "start_on_fork": on_fork,
                       "target": t, "main_chain_tip": f.main_tip, "fast_scanner": f.with_scanner,
                       "forks(fork_height,len)": f.branches.iter().map(|(a, b)| (a, b.len())).collect::<Vec<_>>(),
                       "got": got.as_ref().map(|g| json!({"number": g.number(), "hash": short(&g.hash())})),
                       "expected_hash": short(&walk[t as usize])}),
            );
            return false;
        }
    }
    // a target above the start has no ancestor
    st.above_height += 1;
    acc.eval();
    let none = view.get_ancestor(f.main_tip, h + 1, |hh, _| f.map.get(hh).cloned(), |n, c| f.scanner(n, &c));
    if none.is_some() {
        acc.violation(
            "ancestor.get_ancestor.some_for_higher_target",
            format!("get_ancestor from height {h} to {} returned a block", h + 1),
            json!({"start_height": h}),
        );
        return false;
    }
    true
}

fn check_forest(f: &Forest, acc: &mut Acc, rng: &mut Rng, all_pairs: bool, samples: usize, st: &mut AStats) {
    let per = if all_pairs { None } else { Some(64usize) };
    let len = f.trunk.len();
    let starts: Vec<usize> = if all_pairs {
        (0..len).collect()
    } else {
        let mut s: Vec<usize> = (0..samples).map(|_| rng.usize_below(len)).collect();
        s.push(len - 1);
        s
    };
    for h in starts {
        let ok = match per {
            None => check_start(f, acc, st, &f.trunk[h], false, None),
            Some(n) => check_start(f, acc, st, &f.trunk[h], false, Some((rng, n))),
        };
        if !ok {
            return;
        }
    }
    for (_, hashes) in &f.branches {
        let idxs: Vec<usize> = if all_pairs || hashes.len() <= 8 {
            (0..hashes.len()).collect()
        } else {
            let mut v: Vec<usize> = (0..8).map(|_| rng.usize_below(hashes.len())).collect();
            v.push(hashes.len() - 1);
            v.push(0);
            v
        };
        for i in idxs {
            let ok = match per {
                None => check_start(f, acc, st, &hashes[i], true, None),
                Some(n) => check_start(f, acc, st, &hashes[i], true, Some((rng, n))),
            };
            if !ok {
                return;
            }
        }
    }
}

pub fn skiplist(seed: u64, tier: Tier, budget: Duration) -> Acc {
    // work items: (len, forks, main_tip, with_scanner, all_pairs)
    struct Item {
        len: u64,
        forks: Vec<(u64, u64)>,
        main_tip: u64,
        scanner: bool,
        all_pairs: bool,
    }
    let mut rng = Rng::new(seed ^ 0xA9CE);
    let mut items: Vec<Item> = vec![];
    // all chain lengths 0..=64 (all pairs), no forks, no scanner
    for len in 0..=64u64 {
        items.push(Item { len, forks: vec![], main_tip: 0, scanner: false, all_pairs: true });
    }
    let n_mid = tier.pick(30usize, 200usize);
    for k in 0..n_mid {
        let len = rng.range(65, 300);
        let nf = rng.usize_below(4);
        let forks = (0..nf).map(|_| (rng.range(0, len), rng.range(1, 80))).collect();
        let scanner = k % 2 == 1;
        let main_tip = if scanner { rng.range(0, len) } else { 0 };
        items.push(Item { len, forks, main_tip, scanner, all_pairs: true });
    }
    items.push(Item { len: 300, forks: vec![(0, 40), (128, 130), (255, 3), (299, 1), (300, 64)], main_tip: 200, scanner: true, all_pairs: true });
    items.push(Item { len: 300, forks: vec![(1, 300), (256, 100)], main_tip: 0, scanner: false, all_pairs: true });
    let n_big = tier.pick(3usize, 10usize);
    for k in 0..n_big {
        let len = if k == 0 { 3000 } else { rng.range(1000, 3000) };
        let forks = vec![
            (rng.range(0, len), rng.range(1, 500)),
            (len - rng.range(0, 10), rng.range(1, 50)),
            (rng.range(0, 100), rng.range(100, 1500)),
        ];
        let scanner = k % 2 == 1;
        let main_tip = if scanner { rng.range(len / 2, len) } else { 0 };
        // thorough: all pairs on the big ones too
        items.push(Item { len, forks, main_tip, scanner, all_pairs: k < tier.pick(1, 6) });
    }
    let next = AtomicUsize::new(0);
    let deadline = Deadline::after(budget);
    let threads = crate::orphan::worker_threads();
    let items = &items;
    parallel(threads, |w| {
        let mut acc = Acc::new();
        let mut rng = Rng::new(seed ^ 0xA9CF).fork(w as u64 + 1);
        let mut st = AStats {
            queries: 0,
            starts: 0,
            fork_queries: 0,
            above_height: 0,
            scanner_hits: std::cell::Cell::new(0),
            lookups: std::cell::Cell::new(0),
        };
        loop {
            // big items first (they are at the end of the list)
            let k = next.fetch_add(1, Ordering::SeqCst);
            if k >= items.len() {
                break;
            }
            if deadline.passed() {
                acc.inconclusive("ancestor checks hit their time budget");
                break;
            }
            let it = &items[items.len() - 1 - k];
            let res = catch(|| {
                let f = Forest::build(hcomb(seed, k as u64), it.len, &it.forks, it.main_tip, it.scanner);
                // skip pointers built by the real code must point to a strict ancestor
                for v in f.map.values() {
                    if let Some(sh) = v.skip_hash() {
                        acc.eval();
                        let ok = f.map.get(sh).is_some_and(|s| s.number() < v.number());
                        if !ok {
                            acc.violation(
                                "ancestor.build_skip.skip_not_lower",
                                format!("build_skip of height {} stored a skip hash that is not a lower known block", v.number()),
                                json!({"height": v.number()}),
                            );
                            return;
                        }
                    }
                }
                check_forest(&f, &mut acc, &mut rng, it.all_pairs, 200, &mut st);
                acc.count("ancestor.forests");
                if it.scanner {
                    acc.count("ancestor.forests_with_main_chain_shortcut");
                }
                acc.count_n("ancestor.fork_branches", f.branches.len() as u64);
                acc.distinct(hcomb(hcomb(it.len, it.main_tip), hcomb(it.forks.len() as u64, it.forks.iter().fold(0, |a, b| hcomb(a, hcomb(b.0, b.1))))));
                if it.len >= 1000 {
                    acc.count("ancestor.chains_of_1000_to_3000");
                    if it.all_pairs {
                        acc.count("ancestor.big_chains_all_pairs");
                    }
                }
            });
            if let Err(msg) = res {
                acc.violation(
                    "ancestor.panic",
                    format!("get_ancestor/build_skip panicked: {msg}"),
                    json!({"len": it.len, "forks": it.forks, "main_tip": it.main_tip, "scanner": it.scanner}),
                );
            }
        }
        acc.count_n("ancestor.queries", st.queries);
        acc.count_n("ancestor.start_blocks", st.starts);
        acc.count_n("ancestor.queries_from_fork_blocks", st.fork_queries);
        acc.count_n("ancestor.queries_above_height", st.above_height);
        acc.count_n("ancestor.main_chain_shortcut_hits", st.scanner_hits.get());
        acc.count_n("ancestor.header_lookups", st.lookups.get());
        acc
    })
}

// ------------------------------------------------------------------------------------------
// Part 2: real SyncShared / ActiveChain

fn header_after(parent: &HeaderView, salt: u64) -> HeaderView {
    let n = parent.number() + 1;
    parent
        .as_advanced_builder()
        .parent_hash(parent.hash())
        .number(n)
        .timestamp(parent.timestamp() + 8000 + salt)
        .epoch(EpochNumberWithFraction::new(n / 1000, n % 1000, 1000))
        .nonce((salt as u128) << 64 | n as u128)
        .build()
}

pub fn locator(seed: u64, tier: Tier, budget: Duration) -> Acc {
    let mut acc = Acc::new();
    let deadline = Deadline::after(budget);
    let mut rng = Rng::new(seed ^ 0x10CA);
    let res = catch(|| {
        let mut cfg = SyncConfig::default();
        // a small memory limit: most headers live in the sled backend after a spill
        cfg.header_map.memory_limit =
            ((500 * std::mem::size_of::<HeaderIndexView>()) as u64).into();
        let consensus = ConsensusBuilder::default().build();
        let (shared, mut pack) = SharedBuilder::with_temp_db()
            .consensus(consensus)
            .sync_config(cfg.clone())
            .build()
            .expect("shared");
        let sync_shared = SyncShared::new(shared.clone(), cfg, pack.take_relay_tx_receiver());
        let genesis = shared.snapshot().tip_header().clone();
        let len: u64 = tier.pick(3000, 20_000);
        // parent bookkeeping of the harness: hash -> (number, parent hash)
        let mut parents: HashMap<Byte32, (u64, Byte32)> = HashMap::new();
        parents.insert(genesis.hash(), (0, genesis.parent_hash()));
        let mut trunk: Vec<HeaderView> = vec![genesis.clone()];
        let peer = 1usize.into();
        for i in 0..len {
            let h = header_after(&trunk[i as usize], 0);
            sync_shared.insert_valid_header(peer, &h);
            parents.insert(h.hash(), (h.number(), h.parent_hash()));
            trunk.push(h);
            if i % 997 == 0 {
                shared.header_map().verif_limit_memory();
            }
        }
        // forks
        let mut tips: Vec<HeaderView> = vec![trunk[len as usize].clone()];
        let nforks = tier.pick(4usize, 12usize);
        for k in 0..nforks {
            let at = match k {
                0 => 0,
                1 => len,
                2 => len - 1,
                _ => rng.range(0, len),
            };
            let blen = rng.range(1, 600);
            let mut cur = trunk[at as usize].clone();
            for _ in 0..blen {
                let h = header_after(&cur, 1 + k as u64);
                sync_shared.insert_valid_header(peer, &h);
                parents.insert(h.hash(), (h.number(), h.parent_hash()));
                cur = h;
            }
            tips.push(cur);
            shared.header_map().verif_limit_memory();
        }
        acc.count_n("locator.headers_inserted_through_insert_valid_header", parents.len() as u64 - 1);
        let walk = |start: &Byte32| -> Vec<Byte32> {
            let (n, _) = parents[start];
            let mut out = vec![Byte32::zero(); n as usize + 1];
            let mut cur = start.clone();
            loop {
                let (num, p) = parents[&cur].clone();
                out[num as usize] = cur.clone();
                if num == 0 {
                    break;
                }
                cur = p;
            }
            out
        };
        let active = sync_shared.active_chain();
        // starts: every tip, plus random blocks of the trunk and of the walks
        let mut starts: Vec<Byte32> = tips.iter().map(|t| t.hash()).collect();
        starts.push(genesis.hash());
        for h in [1u64, 2, 9, 10, 11, 12, 13, 27, 28, 29, 100] {
            if h <= len {
                starts.push(trunk[h as usize].hash());
            }
        }
        let extra = tier.pick(150usize, 1500usize);
        for _ in 0..extra {
            starts.push(trunk[rng.range(0, len) as usize].hash());
        }
        let tipw: Vec<Vec<Byte32>> = tips.iter().map(|t| walk(&t.hash())).collect();
        for _ in 0..extra {
            let w = rng.pick(&tipw);
            starts.push(w[rng.usize_below(w.len())].clone());
        }
        for (si, start) in starts.iter().enumerate() {
            if deadline.passed() {
                acc.inconclusive("locator checks hit their time budget");
                break;
            }
            let w = walk(start);
            let (num, _) = parents[start];
            // get_locator
            let loc = active.get_locator(BlockNumberAndHash::new(num, start.clone()));
            acc.count("locator.get_locator");
            acc.eval();
            let mut prev: Option<u64> = None;
            let mut bad: Option<String> = None;
            if loc.first() != Some(start) {
                bad = Some("the first entry is not the start block".into());
            }
            for (i, h) in loc.iter().enumerate() {
                match parents.get(h) {
                    None => {
                        bad = Some(format!("entry {i} is an unknown hash {}", short(h)));
                        break;
                    }
                    Some((n, _)) => {
                        if *n > num || w[*n as usize] != *h {
                            bad = Some(format!("entry {i} (height {n}) is not an ancestor of the start"));
                            break;
                        }
                        if let Some(p) = prev {
                            if *n >= p {
                                bad = Some(format!("entry {i} has height {n}, not below the previous {p}"));
                                break;
                            }
                        }
                        prev = Some(*n);
                    }
                }
            }
            if bad.is_none() && loc.last() != Some(&genesis.hash()) {
                bad = Some("the last entry is not genesis".into());
            }
            if let Some(b) = bad {
                acc.violation(
                    "locator.get_locator.not_descending_ancestors_to_genesis",
                    format!("get_locator(start height {num}): {b}"),
                    json!({"start_height": num, "locator_heights": loc.iter().map(|h| parents.get(h).map(|x| x.0)).collect::<Vec<_>>()}),
                );
                return;
            }
            acc.distinct(hcomb(num, loc.len() as u64));
            acc.count_n("locator.entries_checked", loc.len() as u64);
            if si < 2 {
                acc.sample(json!({"structure": "ActiveChain::get_locator", "start_height": num,
                    "locator_heights": loc.iter().map(|h| parents[h].0).collect::<Vec<_>>()}));
            }
            // ActiveChain::get_ancestor on sampled targets
            for _ in 0..24 {
                let t = rng.range(0, num);
                let got = active.get_ancestor(start, t);
                acc.count("locator.active_chain_get_ancestor");
                acc.eval();
                let ok = got.as_ref().map(|g| (g.number(), g.hash())) == Some((t, w[t as usize].clone()));
                if !ok {
                    acc.violation(
                        "ancestor.active_chain_get_ancestor.differs_from_parent_walk",
                        format!(
                            "ActiveChain::get_ancestor(height {num} -> {t}) returned {:?}, parent walking gives {}",
                            got.as_ref().map(|g| (g.number(), short(&g.hash()))),
                            short(&w[t as usize])
                        ),
                        json!({"start_height": num, "target": t}),
                    );
                    return;
                }
            }
            if si % 50 == 7 {
                shared.header_map().verif_limit_memory();
            }
        }
    });
    if let Err(msg) = res {
        acc.violation(
            "locator.panic",
            format!("get_locator / get_ancestor / insert_valid_header panicked: {msg}"),
            json!({}),
        );
    }
    acc
}


// -----------------------------------------------------------------------------------------
// Part 3: an `ActiveChain` held across a reorganisation of the real chain
//
// A protocol handler takes `SyncShared::active_chain()` (which pins a snapshot) and may still be
// using it after the chain service has switched the main chain. Whatever happened to the store
// in the meantime, `get_ancestor(base, n)` is the block found by walking the parent links from
// `base`, and every locator entry is such an ancestor.

pub fn pinned_across_reorg(seed: u64, tier: Tier, budget: Duration) -> Acc {
    use vnode::consensus::{self, ChainParams, EpochMode};
    use vnode::model::{H, h};
    use vnode::node::{Node, NodeCfg};
    use vnode::treegen::{TreeCfg, TreeGen};
    let mut acc = Acc::new();
    let deadline = Deadline::after(budget);
    let mut rng = Rng::new(seed ^ 0x91_44ED);
    let rounds = tier.pick(3u64, 20u64);
    let res = catch(|| {
        for round in 0..rounds {
            if deadline.passed() {
                break;
            }
            let mut params = ChainParams::default();
            params.epoch = EpochMode::Permanent { genesis_len: 50, epoch_len: 50 };
            let gi = consensus::build(&params);
            let cfg = TreeCfg { n_blocks: 0, invalid: 0, fork_pm: 0, max_new_txs: 0, uncle_pm: 0, ..Default::default() };
            let mut tg = TreeGen::new(&gi, cfg, rng.next_u64());
            let a_len = 12 + rng.range(0, 30);
            let fork_at = 1 + rng.range(0, a_len - 2);
            let b_extra = 1 + rng.range(0, 12);
            // branch A
            let mut a: Vec<H> = vec![tg.rc.genesis];
            for i in 0..a_len {
                let x = tg.extend(&a[i as usize]);
                a.push(x);
            }
            // branch B from A[fork_at], longer than A
            let mut b: Vec<H> = a[..=fork_at as usize].to_vec();
            for _ in 0..(a_len - fork_at + b_extra) {
                let x = tg.extend(b.last().unwrap());
                b.push(x);
            }
            let node = Node::boot(&gi, &NodeCfg::default());
            for x in a.iter().skip(1) {
                let _ = node.chain().blocking_process_block(std::sync::Arc::clone(&tg.rc.get(x).block));
            }
            if h(&node.tip_hash()) != *a.last().unwrap() {
                acc.inconclusive.push("pinned: node did not reach the tip of branch A".into());
                return;
            }
            let (_tx, rx) = ckb_channel::unbounded();
            let sync_shared = SyncShared::new(node.shared.clone(), SyncConfig::default(), rx);
            let pinned = sync_shared.active_chain();
            for x in b.iter().skip(fork_at as usize + 1) {
                let _ = node.chain().blocking_process_block(std::sync::Arc::clone(&tg.rc.get(x).block));
            }
            if h(&node.tip_hash()) != *b.last().unwrap() {
                acc.inconclusive.push("pinned: node did not switch to branch B".into());
                return;
            }
            acc.count("pinned.reorgs_behind_a_pinned_active_chain");
            let fresh = sync_shared.active_chain();
            let b32 = |x: &H| Byte32::new(*x);
            let cases: [(&str, &ckb_sync::ActiveChain, &Vec<H>); 4] = [
                ("pinned_view.abandoned_branch", &pinned, &a),
                ("pinned_view.new_branch", &pinned, &b),
                ("fresh_view.abandoned_branch", &fresh, &a),
                ("fresh_view.new_branch", &fresh, &b),
            ];
            for (name, chain, path) in cases {
                let base = b32(path.last().unwrap());
                let top = path.len() as u64 - 1;
                for n in 0..=top {
                    let got = chain.get_ancestor(&base, n).map(|v| v.hash());
                    acc.eval();
                    acc.count("pinned.get_ancestor");
                    acc.distinct(vbase::fnv1a(format!("{name}|{}|{}", n.cmp(&fork_at) as i8, top - n < 3).as_bytes()));
                    let want = b32(&path[n as usize]);
                    if got.as_ref() != Some(&want) {
                        acc.violation(
                            &format!("ancestor.active_chain_get_ancestor.differs_from_parent_walk@{name}"),
                            format!(
                                "branch A has {a_len} blocks, branch B forks at height {fork_at} and became the main chain while the ActiveChain was held; get_ancestor(tip of {} at height {top}, {n}) returned {:?}, parent walking gives {}",
                                if name.ends_with("abandoned_branch") { "A" } else { "B" },
                                got.map(|x| format!("{x}")), want
                            ),
                            json!({"round": round, "a_len": a_len, "fork_at": fork_at, "b_len": b.len() - 1, "height": n, "case": name}),
                        );
                        break;
                    }
                }
                let loc = chain.get_locator(BlockNumberAndHash::new(top, base.clone()));
                acc.eval();
                acc.count("pinned.get_locator");
                let on_path: std::collections::HashSet<Byte32> = path.iter().map(b32).collect();
                if loc.first() != Some(&base) || loc.iter().any(|x| !on_path.contains(x)) {
                    acc.violation(
                        &format!("locator.get_locator.entry_not_an_ancestor@{name}"),
                        format!("locator starting at the tip of branch {} (height {top}) contains blocks that are not its ancestors (fork at {fork_at})", if name.ends_with("abandoned_branch") { "A" } else { "B" }),
                        json!({"round": round, "a_len": a_len, "fork_at": fork_at, "case": name, "locator": loc.iter().map(|x| format!("{x}")).collect::<Vec<_>>()}),
                    );
                }
            }
            drop(pinned);
            drop(fresh);
            drop(sync_shared);
            drop(node);
        }
    });
    if let Err(msg) = res {
        acc.violation("ancestor.pinned_active_chain.panicked", format!("get_ancestor / get_locator on a pinned ActiveChain panicked: {msg}"), json!({}));
    }
    acc
}
