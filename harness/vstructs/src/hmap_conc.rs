//! Sub-engine C (concurrent part): several threads operate on the real `HeaderMap` while another
//! thread runs the spill (`verif_limit_memory`), with bounded waits injected at the two schedule
//! points inside `limit_memory` so that worker operations land between `front_n`, `insert_batch`
//! and `remove_batch`. Every call/return is stamped with a global counter; per key the history
//! must be linearizable w.r.t. a register: insert(v) -> Some(v), remove -> None, get/contains read.
//! The spill itself is not part of the history: it has to be invisible.

use crate::hmap::{IdleRuntime, Keys, make_view, new_map};
use crate::hooks::{self, RoundSync, spin_until};
use crate::util::{Acc, Deadline, catch, hcomb, parallel, short};
use ckb_shared::{HeaderIndexView, HeaderMap};
use serde_json::{Value, json};
use std::collections::{HashMap, HashSet};
use std::path::Path;
use std::sync::atomic::{AtomicBool, AtomicU64, Ordering};
use std::sync::{Arc, Barrier};
use std::time::Duration;
use vbase::{Rng, Tier};

static STAMP: AtomicU64 = AtomicU64::new(1);

fn stamp() -> u64 {
    STAMP.fetch_add(1, Ordering::SeqCst)
}

#[derive(Clone, Copy, Debug, PartialEq, Eq)]
enum Kind {
    Ins(u64),
    Rem,
    Get(Option<u64>),
    Has(bool),
}

#[derive(Clone, Debug)]
struct Ev {
    call: u64,
    ret: u64,
    thread: usize,
    key: usize,
    kind: Kind,
    /// spill window (0 none, 1 after_front_n, 2 after_insert_batch) seen when the op was invoked
    window: u32,
}

impl Ev {
    fn json(&self) -> Value {
        let op = match self.kind {
            Kind::Ins(u) => format!("insert(v{u})"),
            Kind::Rem => "remove".to_string(),
            Kind::Get(Some(u)) => format!("get -> v{u}"),
            Kind::Get(None) => "get -> None".to_string(),
            Kind::Has(b) => format!("contains_key -> {b}"),
        };
        json!({"call": self.call, "ret": self.ret, "thread": self.thread, "key": self.key, "op": op,
               "invoked_in_spill_window": match self.window {1 => "after_front_n", 2 => "after_insert_batch", _ => "-"}})
    }
}

#[derive(Clone, Copy)]
enum POp {
    Ins,
    Rem,
    Get,
    Has,
}

struct Plan {
    /// per worker: (op, key, wait for an open spill window before invoking?)
    scripts: Vec<Vec<(POp, usize, bool)>>,
    spills: usize,
    need_front: u32,
    need_batch: u32,
    pre_insert: Vec<usize>,
    pre_spill: bool,
}

fn make_plan(rng: &mut Rng, nkeys: usize, workers: usize) -> Plan {
    let style = rng.below(4);
    let mut scripts = vec![];
    for _ in 0..workers {
        let n = 2 + rng.usize_below(4);
        let mut s = vec![];
        for _ in 0..n {
            let key = rng.usize_below(nkeys);
            let op = match style {
                // remove / read heavy (resurrection)
                0 => *rng.pick(&[POp::Rem, POp::Rem, POp::Has, POp::Get, POp::Ins]),
                // read heavy (promotion from the backend)
                1 => *rng.pick(&[POp::Get, POp::Get, POp::Has, POp::Has, POp::Ins]),
                // write heavy
                2 => *rng.pick(&[POp::Ins, POp::Ins, POp::Get, POp::Rem, POp::Has]),
                _ => *rng.pick(&[POp::Ins, POp::Rem, POp::Get, POp::Has]),
            };
            s.push((op, key, rng.chance(1, 2)));
        }
        scripts.push(s);
    }
    let mut pre_insert: Vec<usize> = (0..nkeys).filter(|_| rng.chance(4, 5)).collect();
    rng.shuffle(&mut pre_insert);
    Plan {
        scripts,
        spills: 1 + rng.usize_below(3),
        need_front: rng.below(3) as u32,
        need_batch: rng.below(3) as u32,
        pre_insert,
        pre_spill: rng.chance(1, 2),
    }
}

/// Wing-Gong linearizability check of one key's history against a register.
/// Returns Some(true/false) or None when the step budget ran out.
fn linearizable(evs: &[Ev], budget: &mut u64) -> Option<bool> {
    let n = evs.len();
    assert!(n <= 60);
    let mut memo: HashSet<(u64, u64)> = HashSet::new();
    // state: 0 = absent, else uid
    fn go(
        evs: &[Ev],
        done: u64,
        state: u64,
        memo: &mut HashSet<(u64, u64)>,
        budget: &mut u64,
    ) -> Option<bool> {
        let n = evs.len();
        if done == (1u64 << n) - 1 {
            return Some(true);
        }
        if !memo.insert((done, state)) {
            return Some(false);
        }
        if *budget == 0 {
            return None;
        }
        *budget -= 1;
        // minimal return among pending ops
        let mut min_ret = u64::MAX;
        for (i, e) in evs.iter().enumerate() {
            if done & (1 << i) == 0 {
                min_ret = min_ret.min(e.ret);
            }
        }
        for (i, e) in evs.iter().enumerate() {
            if done & (1 << i) != 0 || e.call > min_ret {
                continue;
            }
            let next = match e.kind {
                Kind::Ins(u) => Some(u),
                Kind::Rem => Some(0),
                Kind::Get(r) => {
                    if r.unwrap_or(0) == state {
                        Some(state)
                    } else {
                        None
                    }
                }
                Kind::Has(b) => {
                    if b == (state != 0) {
                        Some(state)
                    } else {
                        None
                    }
                }
            };
            if let Some(s2) = next {
                match go(evs, done | (1 << i), s2, memo, budget) {
                    Some(true) => return Some(true),
                    Some(false) => {}
                    None => return None,
                }
            }
        }
        Some(false)
    }
    go(evs, 0, 0, &mut memo, budget)
}

/// Name what went wrong in a non-linearizable history of one key.
///
/// The culprit is the first read (by return stamp) whose addition makes the history
/// non-linearizable (writes alone always linearize). The name says which answer would have been
/// acceptable instead:
///  * the read found the key/value but only "absent" linearizes   -> remove_resurrected_by_spill
///  * get returned v but only another (newer) value linearizes     -> stale_value_after_spill
///  * the read found nothing but only "present" linearizes: the final sequential read
///    (nothing runs any more, the key is gone for good)            -> insert_lost_by_spill
///    a read during the run (transient)                            -> read_misses_present_key
fn classify(evs: &[Ev]) -> (&'static str, String) {
    let is_read = |e: &Ev| matches!(e.kind, Kind::Get(_) | Kind::Has(_));
    let writes: Vec<Ev> = evs.iter().filter(|e| !is_read(e)).cloned().collect();
    let mut reads: Vec<Ev> = evs.iter().filter(|e| is_read(e)).cloned().collect();
    reads.sort_by_key(|e| e.ret);
    let lin = |extra: &[Ev]| -> Option<bool> {
        let mut h: Vec<Ev> = writes.clone();
        h.extend_from_slice(extra);
        h.sort_by_key(|e| e.call);
        let mut budget = 2_000_000u64;
        linearizable(&h, &mut budget)
    };
    let mut k = 0;
    while k < reads.len() {
        if lin(&reads[..=k]) == Some(false) {
            break;
        }
        k += 1;
    }
    if k == reads.len() {
        return (
            "header_map.concurrent_not_linearizable",
            "no linearization of the per-key history exists".to_string(),
        );
    }
    let culprit = reads[k].clone();
    // Preconditions of the listed findings, proved from the history of this key: every listed
    // mechanism needs a worker write (insert / remove) on the same key racing with the spill, the
    // transient miss needs a worker `get` of the same key (promotion from the backend) overlapping
    // the read. An anomaly on a key nobody wrote to concurrently is none of them.
    let worker_write = writes.iter().any(|e| e.thread != 99);
    let overlapping_get = evs.iter().any(|e| {
        e.thread != 99 && e.thread != culprit.thread && matches!(e.kind, Kind::Get(_)) && e.call < culprit.ret && culprit.call < e.ret
    });
    let with_alt = |kind: Kind| -> bool {
        let mut h: Vec<Ev> = reads[..k].to_vec();
        let mut c = culprit.clone();
        c.kind = kind;
        h.push(c);
        lin(&h) == Some(true)
    };
    let uids: Vec<u64> = writes
        .iter()
        .filter_map(|e| if let Kind::Ins(u) = e.kind { Some(u) } else { None })
        .collect();
    let at = format!(
        "key {}: the {} invoked at {} (thread {})",
        culprit.key,
        match culprit.kind {
            Kind::Get(_) => "get",
            _ => "contains_key",
        },
        culprit.call,
        culprit.thread
    );
    if !worker_write && !(overlapping_get && matches!(culprit.kind, Kind::Get(None) | Kind::Has(false))) {
        return (
            "header_map.concurrent_anomaly_on_key_without_concurrent_write",
            format!("{at} has an answer that does not linearize although no worker thread wrote to this key in the round{}", if matches!(culprit.kind, Kind::Get(None) | Kind::Has(false)) { " and no get of the key overlaps the read" } else { "" }),
        );
    }
    match culprit.kind {
        Kind::Get(Some(u)) => {
            if with_alt(Kind::Get(None)) {
                return (
                    "header_map.concurrent_remove_resurrected_by_spill",
                    format!("{at} returns v{u} although the key had been removed (only 'absent' linearizes)"),
                );
            }
            if let Some(u2) = uids.iter().find(|x| **x != u && with_alt(Kind::Get(Some(**x)))) {
                return (
                    "header_map.concurrent_stale_value_after_spill",
                    format!("{at} returns v{u} although it had been overwritten (only v{u2} linearizes)"),
                );
            }
        }
        Kind::Has(true) => {
            if with_alt(Kind::Has(false)) {
                return (
                    "header_map.concurrent_remove_resurrected_by_spill",
                    format!("{at} finds the key although it had been removed (only 'absent' linearizes)"),
                );
            }
        }
        Kind::Get(None) | Kind::Has(false) => {
            let present_ok = match culprit.kind {
                Kind::Has(_) => with_alt(Kind::Has(true)),
                _ => uids.iter().any(|x| with_alt(Kind::Get(Some(*x)))),
            };
            if present_ok {
                if culprit.thread == 99 {
                    return (
                        "header_map.concurrent_insert_lost_by_spill",
                        format!("{at}, after all threads finished, does not find the key although an insert was the last write (only 'present' linearizes)"),
                    );
                }
                return (
                    "header_map.concurrent_read_misses_present_key",
                    format!("{at} does not find the key although it was present throughout (only 'present' linearizes)"),
                );
            }
        }
        _ => {}
    }
    (
        "header_map.concurrent_not_linearizable",
        format!("{at} has no acceptable answer at all"),
    )
}

struct Group<'a> {
    map: &'a HeaderMap,
    keys: &'a Keys,
    limit: usize,
    uid: u64,
}

fn round(g: &mut Group, acc: &mut Acc, rng: &mut Rng, workers: usize) {
    let nkeys = g.keys.keys.len();
    let plan = make_plan(rng, nkeys, workers);
    let sync = Arc::new(RoundSync::default());
    sync.need_front.store(plan.need_front, Ordering::SeqCst);
    sync.need_batch.store(plan.need_batch, Ordering::SeqCst);
    sync.wait_us.store(300, Ordering::SeqCst);
    let mut views: HashMap<u64, HeaderIndexView> = HashMap::new();
    let mut history: Vec<Ev> = vec![];

    // sequential preparation (part of the history)
    for (i, k) in g.keys.keys.iter().enumerate() {
        let c = stamp();
        g.map.remove(k);
        history.push(Ev { call: c, ret: stamp(), thread: 99, key: i, kind: Kind::Rem, window: 0 });
    }
    for &i in &plan.pre_insert {
        g.uid += 1;
        let v = make_view(&g.keys.keys[i], g.uid);
        views.insert(g.uid, v.clone());
        let c = stamp();
        g.map.insert(v);
        history.push(Ev { call: c, ret: stamp(), thread: 99, key: i, kind: Kind::Ins(g.uid), window: 0 });
    }
    if plan.pre_spill {
        g.map.verif_limit_memory();
        // re-insert some so that the next spill has something to move
        for &i in plan.pre_insert.iter().take(g.limit + 1) {
            g.uid += 1;
            let v = make_view(&g.keys.keys[i], g.uid);
            views.insert(g.uid, v.clone());
            let c = stamp();
            g.map.insert(v);
            history.push(Ev { call: c, ret: stamp(), thread: 99, key: i, kind: Kind::Ins(g.uid), window: 0 });
        }
    }
    // pre-build the values the workers insert
    let mut scripts: Vec<Vec<(POp, usize, bool, Option<(u64, HeaderIndexView)>)>> = vec![];
    for s in &plan.scripts {
        let mut v = vec![];
        for (op, key, wait) in s {
            let val = if let POp::Ins = op {
                g.uid += 1;
                let view = make_view(&g.keys.keys[*key], g.uid);
                views.insert(g.uid, view.clone());
                Some((g.uid, view))
            } else {
                None
            };
            v.push((*op, *key, *wait, val));
        }
        scripts.push(v);
    }

    let barrier = Barrier::new(workers + 1);
    let workers_done = AtomicBool::new(false);
    let corrupt: std::sync::Mutex<Option<String>> = std::sync::Mutex::new(None);
    let map = g.map;
    let keys = g.keys;
    let res = catch(|| {
        std::thread::scope(|s| {
            let mut hs = vec![];
            for (w, script) in scripts.iter().enumerate() {
                let sync = Arc::clone(&sync);
                let barrier = &barrier;
                let corrupt = &corrupt;
                let views = &views;
                hs.push(s.spawn(move || {
                    let mut evs = vec![];
                    barrier.wait();
                    for (op, key, wait, val) in script {
                        if *wait {
                            spin_until(Duration::from_micros(300), || {
                                sync.window.load(Ordering::SeqCst) != 0
                            });
                        }
                        let window = sync.window.load(Ordering::SeqCst);
                        let k = &keys.keys[*key];
                        let c = stamp();
                        let kind = match op {
                            POp::Ins => {
                                let (u, v) = val.as_ref().unwrap();
                                map.insert(v.clone());
                                Kind::Ins(*u)
                            }
                            POp::Rem => {
                                map.remove(k);
                                Kind::Rem
                            }
                            POp::Get => {
                                let got = map.get(k);
                                match got {
                                    None => Kind::Get(None),
                                    Some(v) => {
                                        let u = v.timestamp();
                                        if views.get(&u) != Some(&v) {
                                            *corrupt.lock().unwrap() = Some(format!(
                                                "get(key {key}) returned a view that was never inserted (uid field {u})"
                                            ));
                                        }
                                        Kind::Get(Some(u))
                                    }
                                }
                            }
                            POp::Has => Kind::Has(map.contains_key(k)),
                        };
                        let r = stamp();
                        sync.ops_done.fetch_add(1, Ordering::SeqCst);
                        evs.push(Ev { call: c, ret: r, thread: w, key: *key, kind, window });
                    }
                    evs
                }));
            }
            // the spiller
            let sp = {
                let sync = Arc::clone(&sync);
                let barrier = &barrier;
                let workers_done = &workers_done;
                let spills = plan.spills;
                s.spawn(move || {
                    hooks::set_thread_ctx(Some(Arc::clone(&sync)));
                    barrier.wait();
                    let mut n = 0;
                    while n < spills && !workers_done.load(Ordering::SeqCst) {
                        map.verif_limit_memory();
                        n += 1;
                    }
                    hooks::set_thread_ctx(None);
                    n
                })
            };
            let mut all = vec![];
            for h in hs {
                all.extend(h.join().expect("worker"));
            }
            workers_done.store(true, Ordering::SeqCst);
            let _ = sp.join();
            all
        })
    });
    let evs = match res {
        Ok(e) => e,
        Err(msg) => {
            acc.violation(
                "header_map.concurrent_panic",
                format!("the header map panicked under concurrent use: {msg}"),
                json!({"limit": g.limit}),
            );
            return;
        }
    };
    history.extend(evs);
    // sequential final reads
    for (i, k) in g.keys.keys.iter().enumerate() {
        let c = stamp();
        let b = g.map.contains_key(k);
        history.push(Ev { call: c, ret: stamp(), thread: 99, key: i, kind: Kind::Has(b), window: 0 });
        let c = stamp();
        let got = g.map.get(k);
        let kind = match got {
            None => Kind::Get(None),
            Some(v) => {
                let u = v.timestamp();
                if views.get(&u) != Some(&v) {
                    *corrupt.lock().unwrap() =
                        Some(format!("final get(key {i}) returned a view that was never inserted (uid field {u})"));
                }
                Kind::Get(Some(u))
            }
        };
        history.push(Ev { call: c, ret: stamp(), thread: 99, key: i, kind, window: 0 });
    }
    acc.eval();
    if let Some(msg) = corrupt.lock().unwrap().take() {
        acc.violation(
            "header_map.concurrent_value_never_inserted",
            msg,
            json!({"limit": g.limit, "history": history.iter().map(|e| e.json()).collect::<Vec<_>>()}),
        );
        return;
    }
    acc.count("hm.conc.rounds");
    let in_window = history.iter().filter(|e| e.window != 0).count() as u64;
    acc.count_n("hm.conc.ops_invoked_inside_spill_window", in_window);
    acc.count_n("hm.conc.ops", history.iter().filter(|e| e.thread != 99).count() as u64);
    let mut sh = g.limit as u64;
    for key in 0..nkeys {
        let mut evs: Vec<Ev> = history.iter().filter(|e| e.key == key).cloned().collect();
        evs.sort_by_key(|e| e.call);
        let mut budget = 2_000_000u64;
        acc.eval();
        match linearizable(&evs, &mut budget) {
            Some(true) => {
                acc.count("hm.conc.key_histories_linearizable");
            }
            None => {
                acc.count("hm.conc.checker_budget_exhausted");
            }
            Some(false) => {
                let (sig, what) = classify(&evs);
                acc.violation(
                    sig,
                    format!(
                        "HeaderMap with concurrent spill is not linearizable on one key: {what}"
                    ),
                    json!({
                        "memory_limit_items": g.limit,
                        "key": short(&g.keys.keys[key]),
                        "stamps": "global counter values taken immediately before the call and after the return",
                        "history_of_key": evs.iter().map(|e| e.json()).collect::<Vec<_>>(),
                        "spill": {"thread": "separate thread calling verif_limit_memory()", "waited_for_ops_after_front_n": plan.need_front, "waited_for_ops_after_insert_batch": plan.need_batch},
                    }),
                );
            }
        }
        for e in &evs {
            if e.thread != 99 {
                sh = hcomb(sh, hcomb(e.key as u64, match e.kind { Kind::Ins(_) => 1, Kind::Rem => 2, Kind::Get(Some(_)) => 3, Kind::Get(None) => 4, Kind::Has(true) => 5, Kind::Has(false) => 6 } + 10 * e.window as u64));
            }
        }
    }
    acc.distinct(sh);
}

pub fn concurrent(seed: u64, tier: Tier, scratch: &Path, budget: Duration) -> Acc {
    let rounds = tier.pick(2000usize, 40_000usize);
    let deadline = Deadline::after(budget);
    let groups = 6usize;
    let before_front = hooks::HITS_AFTER_FRONT_N.load(Ordering::SeqCst);
    let before_win = hooks::WINDOW_OPS.load(Ordering::SeqCst);
    let mut acc = parallel(groups, |w| {
        let mut acc = Acc::new();
        let rt = IdleRuntime::new();
        let mut rng = Rng::new(seed ^ 0xC09C).fork(w as u64 + 1);
        let limit = if w >= 4 { 2 } else { 1 + w % 2 };
        let dir = scratch.join(format!("hm-conc-{w}"));
        std::fs::create_dir_all(&dir).expect("mkdir");
        let map = new_map(&dir, limit, &rt, w % 2 == 1);
        // groups 4 and 5: more keys than the workers touch (bystander keys that are only read)
        let keys = Keys::new(if w >= 4 { 5 + w % 2 } else { 2 + w % 2 }, 0xCC00 + w as u64);
        let mut g = Group {
            map: &map,
            keys: &keys,
            limit,
            uid: (1u64 << 55) + ((w as u64) << 40),
        };
        for _ in 0..rounds / groups {
            if deadline.passed() {
                break;
            }
            round(&mut g, &mut acc, &mut rng, 3);
        }
        acc
    });
    acc.count_n(
        "hm.conc.spills_that_moved_items",
        hooks::HITS_AFTER_FRONT_N.load(Ordering::SeqCst) - before_front,
    );
    acc.count_n(
        "hm.conc.worker_ops_completed_while_spill_waited_at_hook",
        hooks::WINDOW_OPS.load(Ordering::SeqCst) - before_win,
    );
    acc
}
