//! Engine `filter` — block-filter part of C19.
//!
//! A builder node B (TreeGen) produces random block trees with transactions (plain transfers,
//! chains inside one block, typed outputs). Every block is delivered to a separate node N in
//! generation order, so N goes through real reorganisations. After (some) chain operations the
//! real `BlockFilter` builder is run to completion on N through hook H9 and the stored filters
//! of N's main chain are judged against the reference model:
//!   * a filter is stored for every main-chain block;
//!   * decoded with the third-party GCS reader (crate golomb-coded-set) it matches the script
//!     hash of the lock and type of every output and of every cell spent by the block (scripts
//!     taken from the model's cell set) — a miss refutes, false positives are legitimate;
//!   * filter_hash(b) == blake2b(filter_hash(parent) || blake2b(filter_data(b))), zero parent
//!     hash for genesis, recomputed with ckb_hash::blake2b_256;
//!   * the latest-built marker equals the tip after a completed build.
//! Race episodes (hypothesis H-i): the builder runs in its own thread and is held at hook point
//! `filter::after_snapshot` / `filter::before_build_block` while the main thread delivers a
//! heavier competing branch; later the first branch is extended and becomes the main chain
//! again, the builder is run to completion and the same oracle is applied.
//!
//! Light-client part (module `light`, own evidence shard `C19.part-light.json`): on the same node
//! N, after reorganisations (stored blocks of abandoned branches), the real light-client protocol
//! server is driven with GetLastState / GetLastStateProof / GetBlocksProof / GetTransactionsProof
//! messages and every reply is judged against the reference model (see light.rs).

use ckb_block_filter::filter::BlockFilter;
use ckb_hash::blake2b_256;
use ckb_store::ChainStore;
use ckb_types::core::TransactionView;
use ckb_types::packed::{self, OutPoint};
use ckb_types::prelude::*;
use golomb_coded_set::{GCSFilterReader, M, P, SipHasher24Builder};
use serde_json::json;
use std::collections::{HashMap, HashSet};
use std::io::Cursor;
use std::panic::{AssertUnwindSafe, catch_unwind};
use std::sync::atomic::{AtomicU64, Ordering};
use std::sync::mpsc::{Receiver, Sender, channel};
use std::sync::{Mutex, OnceLock};
use std::time::{Duration, Instant};
use vbase::{Args, Report, Rng};
use vnode::builder::{self, OutSpec};
use vnode::consensus::{self, ChainParams, EpochMode, GenesisInfo};
use vnode::hooks;
use vnode::model::{H, h, hx};
use vnode::node::{Node, NodeCfg};
use vnode::treegen::{TreeCfg, TreeGen};

mod light;

// ---------------------------------------------------------------------------------------
// hook H9 plumbing

#[derive(Clone, Copy, PartialEq, Eq, Debug)]
enum PauseAt {
    AfterSnapshot,
    /// the n-th `filter::before_build_block` of the armed build (1-based)
    BeforeBuild(u64),
}

struct Armed {
    at: PauseAt,
    seen_before_build: u64,
    paused_tx: Sender<()>,
    resume_rx: Receiver<()>,
}

static ARMED: OnceLock<Mutex<Option<Armed>>> = OnceLock::new();
static HITS_AFTER_SNAPSHOT: AtomicU64 = AtomicU64::new(0);
static HITS_BEFORE_BUILD: AtomicU64 = AtomicU64::new(0);
static PAUSE_TIMEOUTS: AtomicU64 = AtomicU64::new(0);

fn armed() -> &'static Mutex<Option<Armed>> {
    ARMED.get_or_init(|| Mutex::new(None))
}

fn on_filter_point(name: &'static str) {
    match name {
        "filter::after_snapshot" => {
            HITS_AFTER_SNAPSHOT.fetch_add(1, Ordering::SeqCst);
        }
        "filter::before_build_block" => {
            HITS_BEFORE_BUILD.fetch_add(1, Ordering::SeqCst);
        }
        _ => return,
    }
    // decide under the lock, wait outside of it
    let taken: Option<Armed> = {
        let mut g = armed().lock().unwrap();
        let fire = match g.as_mut() {
            None => false,
            Some(a) => match (a.at, name) {
                (PauseAt::AfterSnapshot, "filter::after_snapshot") => true,
                (PauseAt::BeforeBuild(n), "filter::before_build_block") => {
                    a.seen_before_build += 1;
                    a.seen_before_build == n
                }
                _ => false,
            },
        };
        if fire { g.take() } else { None }
    };
    if let Some(a) = taken {
        let _ = a.paused_tx.send(());
        if a.resume_rx.recv_timeout(Duration::from_secs(60)).is_err() {
            PAUSE_TIMEOUTS.fetch_add(1, Ordering::SeqCst);
        }
    }
}

// ---------------------------------------------------------------------------------------

fn script_hash(s: &packed::Script) -> H {
    blake2b_256(s.as_slice())
}

fn gcs_match(raw: &[u8], element: &[u8]) -> Result<bool, String> {
    let reader = GCSFilterReader::new(SipHasher24Builder::new(0, 0), M, P);
    let mut cur = Cursor::new(raw.to_vec());
    reader
        .match_any(&mut cur, &mut std::iter::once(element))
        .map_err(|e| e.to_string())
}

struct Sess {
    si: u64,
    gi: GenesisInfo,
    tg: TreeGen,
    n: Node,
    rng: Rng,
    salt: u64,
    ops: Vec<String>,
    /// (block hash, hash of filter data) pairs whose script matching was already judged
    judged: HashSet<(H, H)>,
    /// blocks whose filter was written while the live main chain differed from the chain of
    /// the builder's snapshot (race episodes)
    built_in_window: HashSet<H>,
    params_desc: String,
    dead: bool,
    /// light-client part: blocks delivered to N, own random stream, probe bookkeeping
    delivered: HashSet<H>,
    lrng: Rng,
    last_deliver_reorged: bool,
    light_probes: u64,
    light_on: bool,
}

fn out_key(op: &OutPoint) -> (H, u32) {
    let i: u32 = op.index().into();
    (h(&op.tx_hash()), i)
}

impl Sess {
    fn n_tip(&self) -> H {
        h(&self.n.tip_hash())
    }

    fn witness(&self, extra: serde_json::Value) -> serde_json::Value {
        json!({
            "session": self.si,
            "params": self.params_desc,
            "ops_tail": self.ops.iter().rev().take(40).rev().collect::<Vec<_>>(),
            "extra": extra,
        })
    }

    /// Inputs reserved by transactions proposed on the path to `parent` and not yet committed.
    fn reserved(&self, parent: &H) -> HashSet<(H, u32)> {
        let (_, w_far) = self.tg.rc.window;
        let st = self.tg.rc.replay(parent);
        let n = self.tg.rc.get(parent).number + 1;
        let mut out = HashSet::new();
        let mut cur = *parent;
        loop {
            let rec = self.tg.rc.get(&cur);
            if rec.number == 0 || n - rec.number > w_far {
                break;
            }
            if let Some(i) = self.tg.info.get(&cur) {
                for tx in &i.proposed {
                    if !st.tx_info.contains_key(&h(&tx.hash())) {
                        for op in tx.input_pts_iter() {
                            out.insert(out_key(&op));
                        }
                    }
                }
            }
            cur = rec.parent;
        }
        out
    }

    /// Transactions creating / spending cells that carry a type script (TreeGen's own
    /// transactions are untyped): proposed through `extend_ex`, committed later by TreeGen.
    fn typed_txs(&mut self, parent: &H) -> Vec<TransactionView> {
        let mut out = vec![];
        if !self.rng.chance(550, 1000) {
            return out;
        }
        let st = self.tg.rc.replay(parent);
        let mut reserved = self.reserved(parent);
        let as_code = self.gi.always_success_script.code_hash();
        let k = 1 + self.rng.usize_below(2);
        for _ in 0..k {
            let mut typed = vec![];
            let mut plain = vec![];
            for (key, c) in st.cells.iter() {
                if reserved.contains(key) {
                    continue;
                }
                let Ok(o) = packed::CellOutput::from_slice(&c.output) else { continue };
                if o.lock().code_hash() != as_code {
                    continue;
                }
                match o.type_().to_opt() {
                    Some(t) if t.code_hash() == as_code => typed.push((*key, o)),
                    Some(_) => {}
                    None => plain.push((*key, o)),
                }
            }
            let pick_typed = !typed.is_empty() && (plain.is_empty() || self.rng.chance(600, 1000));
            let pool = if pick_typed { &typed } else { &plain };
            if pool.is_empty() {
                break;
            }
            let (key, o) = pool[self.rng.usize_below(pool.len())].clone();
            let in_cap: u64 = o.capacity().into();
            self.salt += 1;
            let n_out = 1 + self.rng.usize_below(2);
            let fee = self.rng.range(0, 3000);
            let Some(mut remaining) = in_cap.checked_sub(fee) else { continue };
            let mut outs: Vec<OutSpec> = vec![];
            for i in 0..n_out {
                let lock = builder::lock_with_args(&self.gi, &[self.rng.below(4) as u8]);
                let type_ = if self.rng.chance(700, 1000) {
                    Some(builder::lock_with_args(&self.gi, &[0x70 + self.rng.below(3) as u8]))
                } else {
                    None
                };
                let dl = self.rng.usize_below(12);
                let mut data = self.rng.bytes(dl);
                if i == 0 {
                    data.extend_from_slice(&self.salt.to_le_bytes());
                    data.extend_from_slice(&self.si.to_le_bytes());
                }
                let occ = builder::occupied(&lock, &type_, data.len());
                let cap = if i + 1 == n_out { remaining } else { (remaining / 2).max(occ) };
                if cap < occ || cap > remaining {
                    break;
                }
                remaining -= cap;
                outs.push(OutSpec { capacity: cap, lock, type_, data });
            }
            if outs.is_empty() {
                continue;
            }
            if remaining > 0 {
                outs.last_mut().unwrap().capacity += remaining;
            }
            let op = OutPoint::new(packed::Byte32::from_slice(&key.0).unwrap(), key.1);
            let tx = builder::build_tx(&self.gi, &[(op, 0)], &outs, &[], &[], None);
            reserved.insert(key);
            out.push(tx);
        }
        out
    }

    /// Generate one block on `parent` with B (not delivered to N).
    fn make_block(&mut self, parent: &H) -> H {
        let extras = self.typed_txs(parent);
        self.tg.extend_ex(parent, &extras)
    }

    /// Deliver a generated block to N. Returns false when the session cannot continue.
    fn deliver(&mut self, x: &H, r: &mut Report) -> bool {
        let block = std::sync::Arc::clone(&self.tg.rc.get(x).block);
        let old = self.n_tip();
        let res = self.n.process(&block);
        if let Err(e) = &res {
            let msg = e.to_string();
            if msg.contains("InvalidChainRoot") {
                // the block commits to the root of its own ancestors (checked against the harness's
                // MMR by the chain engine and accepted by the builder node): the node's MMR does
                // not describe the chain it is on
                r.violation(
                    "chain_root.valid_commitment_refused_after_reorg",
                    format!("node under test refused block {}#{} with {msg} although the builder node accepted it: its stored MMR no longer matches the chain it is on", vnode::model::hx(x), self.tg.rc.get(x).number),
                    serde_json::json!({"block": vbase::hex(x), "number": self.tg.rc.get(x).number, "error": msg}),
                );
                self.dead = true;
                return false;
            }
        }
        if !matches!(res, Ok(true)) {
            r.inconclusive(&format!(
                "harness: node under test answered {:?} to a block accepted by the builder node",
                res.map_err(|e| e.to_string())
            ));
            self.dead = true;
            return false;
        }
        self.delivered.insert(*x);
        self.last_deliver_reorged = false;
        let new = self.n_tip();
        if new != old {
            r.count("n.tip_changes");
            if h(&block.parent_hash()) != old || new != *x {
                r.count("n.reorgs");
                let d = {
                    let rc = &self.tg.rc;
                    let (mut a, mut depth) = (old, 0u64);
                    while !rc.is_ancestor(&a, &new) {
                        a = rc.get(&a).parent;
                        depth += 1;
                    }
                    depth
                };
                r.count(&format!("n.reorg_depth.{}", d.min(8)));
                self.ops.push(format!("deliver {}#{} -> REORG depth {} tip {}", hx(x), block.number(), d, hx(&new)));
                self.last_deliver_reorged = true;
                return true;
            }
        }
        self.ops.push(format!("deliver {}#{} txs={} tip {}", hx(x), block.number(), block.transactions().len() - 1, hx(&new)));
        true
    }

    fn main_chain_of_n(&self, r: &mut Report) -> Option<std::sync::Arc<vnode::model::State>> {
        let tip = self.n_tip();
        if !self.tg.rc.contains(&tip) {
            r.inconclusive("harness: tip of the node under test is not a generated block");
            return None;
        }
        Some(self.tg.rc.replay(&tip))
    }

    /// Run the real builder to completion on the calling thread.
    fn build(&mut self, r: &mut Report, why: &str) -> bool {
        let Some(st) = self.main_chain_of_n(r) else { return false };
        let shared = self.n.shared.clone();
        let store = shared.store();
        // fork-recovery branch: latest built block is not on the main chain
        if let Some(latest) = store.get_latest_built_filter_data_block_hash() {
            let lh = h(&latest);
            if self.tg.rc.contains(&lh) {
                let num = self.tg.rc.get(&lh).number as usize;
                if st.chain.get(num) != Some(&lh) {
                    r.count("build.fork_recovery");
                    self.ops.push(format!("build({why}): FORK RECOVERY latest built {}#{} not on main chain", hx(&lh), num));
                } else {
                    self.ops.push(format!("build({why}): latest built {}#{}", hx(&lh), num));
                }
            }
        }
        r.count("build.runs");
        let res = catch_unwind(AssertUnwindSafe(|| BlockFilter::new(shared).verif_build_filter_data()));
        if let Err(p) = res {
            let msg = p
                .downcast_ref::<&str>()
                .map(|s| s.to_string())
                .or_else(|| p.downcast_ref::<String>().cloned())
                .unwrap_or_default();
            let _ = hooks::take_panics();
            r.violation(
                "filter.builder_panicked",
                format!("build_filter_data panicked: {msg}"),
                self.witness(json!({"panic": msg})),
            );
            return false;
        }
        true
    }

    /// Scripts the filter of `block` must match according to the model:
    /// (kind, script hash, description).
    fn expected_scripts(&self, bh: &H, r: &mut Report) -> Option<Vec<(&'static str, H, String)>> {
        let rec = self.tg.rc.get(bh);
        let block = &rec.block;
        let mut out = vec![];
        let parent_state = if rec.number == 0 { None } else { Some(self.tg.rc.replay(&rec.parent)) };
        let mut created: HashMap<(H, u32), packed::CellOutput> = HashMap::new();
        for (ti, tx) in block.transactions().iter().enumerate() {
            if ti > 0 {
                if let Some(ps) = &parent_state {
                    for (ii, op) in tx.input_pts_iter().enumerate() {
                        let k = out_key(&op);
                        let (cell, origin, origin_desc) = if let Some(c) = created.get(&k) {
                            (c.clone(), "same_block", "the same block".to_string())
                        } else if let Some(c) = ps.cells.get(&k) {
                            (
                                packed::CellOutput::from_slice(&c.output).unwrap(),
                                "earlier_block",
                                format!("block {}#{}", hx(&c.block_hash), c.block_number),
                            )
                        } else {
                            r.inconclusive("harness: a generated main-chain block spends a cell the model does not know");
                            return None;
                        };
                        r.count(&format!("inputs.{origin}"));
                        out.push((
                            "input_lock",
                            script_hash(&cell.lock()),
                            format!("tx {ti} input {ii} ({}:{} created in {origin_desc}) lock", hx(&k.0), k.1),
                        ));
                        if let Some(t) = cell.type_().to_opt() {
                            out.push((
                                "input_type",
                                script_hash(&t),
                                format!("tx {ti} input {ii} ({}:{} created in {origin_desc}) type", hx(&k.0), k.1),
                            ));
                        }
                    }
                }
            }
            let th = h(&tx.hash());
            for (oi, o) in tx.outputs().into_iter().enumerate() {
                out.push(("output_lock", script_hash(&o.lock()), format!("tx {ti} output {oi} lock")));
                if let Some(t) = o.type_().to_opt() {
                    out.push(("output_type", script_hash(&t), format!("tx {ti} output {oi} type")));
                }
                created.insert((th, oi as u32), o);
            }
        }
        Some(out)
    }

    /// The oracle: judge the stored filters of N's whole main chain.
    fn check(&mut self, r: &mut Report, ctx: &str) {
        let Some(st) = self.main_chain_of_n(r) else { return };
        let shared = self.n.shared.clone();
        let store = shared.store();
        let tip = st.tip;
        r.count("check.runs");
        match store.get_latest_built_filter_data_block_hash() {
            Some(l) if h(&l) == tip => {}
            other => {
                r.violation(
                    "filter.latest_built_is_not_tip_after_completed_build",
                    format!(
                        "after a completed build the latest-built marker is {:?}, tip is {}",
                        other.map(|x| hx(&h(&x))),
                        hx(&tip)
                    ),
                    self.witness(json!({"ctx": ctx})),
                );
            }
        }
        r.eval();
        let mut parent_fh: Option<H> = Some([0u8; 32]);
        for (num, bh) in st.chain.iter().enumerate() {
            let hash = packed::Byte32::from_slice(bh).unwrap();
            let data = store.get_block_filter(&hash);
            let fh = store.get_block_filter_hash(&hash);
            r.eval();
            r.count("blocks_checked");
            let Some(data) = data else {
                r.violation(
                    "filter.missing_for_main_chain_block",
                    format!("no filter data stored for main-chain block {}#{} after a completed build (tip #{})", hx(bh), num, st.number),
                    self.witness(json!({"ctx": ctx, "block": vbase::hex(bh), "number": num, "filter_hash_present": fh.is_some()})),
                );
                parent_fh = fh.map(|x| h(&x));
                continue;
            };
            let raw = data.raw_data().to_vec();
            // hash chain
            match (&fh, &parent_fh) {
                (None, _) => {
                    r.violation(
                        "filter.hash_missing_for_main_chain_block",
                        format!("no filter hash stored for main-chain block {}#{}", hx(bh), num),
                        self.witness(json!({"ctx": ctx, "block": vbase::hex(bh), "number": num})),
                    );
                }
                (Some(fh), Some(pfh)) => {
                    let mut buf = pfh.to_vec();
                    buf.extend_from_slice(&blake2b_256(&raw));
                    let want = blake2b_256(&buf);
                    r.count("filter_hash_checked");
                    if h(fh) != want {
                        r.violation(
                            if num == 0 { "filter.hash_chain_mismatch@genesis" } else { "filter.hash_chain_mismatch" },
                            format!(
                                "filter hash of {}#{} is {} but blake2b(filter_hash(parent)={} || blake2b(filter data)) = {}",
                                hx(bh), num, vbase::hex(fh.as_slice()), vbase::hex(pfh), vbase::hex(&want)
                            ),
                            self.witness(json!({"ctx": ctx, "block": vbase::hex(bh), "number": num, "filter_data": vbase::hex(&raw)})),
                        );
                    }
                }
                (Some(_), None) => {}
            }
            parent_fh = fh.map(|x| h(&x));
            // script matching (once per (block, data) pair: stored filters are immutable bytes)
            let key = (*bh, blake2b_256(&raw));
            if self.judged.contains(&key) {
                continue;
            }
            let Some(exp) = self.expected_scripts(bh, r) else { return };
            r.distinct(vbase::fnv1a(&[&bh[..], &key.1[..]].concat()));
            let in_window = self.built_in_window.contains(bh);
            for (kind, sh, desc) in &exp {
                r.eval();
                match gcs_match(&raw, sh) {
                    Ok(true) => r.count(&format!("scripts_matched.{kind}")),
                    Ok(false) => {
                        let sig = match (*kind, in_window) {
                            ("input_lock" | "input_type", true) => "filter.missing_input_script@built_during_reorg",
                            ("input_lock" | "input_type", false) => "filter.missing_input_script",
                            _ => "filter.missing_output_script",
                        };
                        let block = &self.tg.rc.get(bh).block;
                        r.violation(
                            sig,
                            format!(
                                "filter of main-chain block {}#{} does not match script hash {} ({desc}); filter built while the live chain differed from the builder's snapshot: {in_window}",
                                hx(bh), num, vbase::hex(sh)
                            ),
                            self.witness(json!({
                                "ctx": ctx, "block": vbase::hex(bh), "number": num, "kind": kind, "what": desc,
                                "script_hash": vbase::hex(sh), "filter_data": vbase::hex(&raw),
                                "block_txs": block.transactions().iter().map(|t| json!({
                                    "hash": vbase::hex(t.hash().as_slice()),
                                    "inputs": t.input_pts_iter().map(|op| format!("{}:{}", vbase::hex(&op.tx_hash().as_slice()[..6]), Into::<u32>::into(op.index()))).collect::<Vec<_>>(),
                                    "outputs": t.outputs().len(),
                                })).collect::<Vec<_>>(),
                                "built_in_race_window": in_window,
                            })),
                        );
                    }
                    Err(e) => {
                        r.violation(
                            "filter.undecodable",
                            format!("filter data of {}#{} cannot be decoded by the GCS reader: {e}", hx(bh), num),
                            self.witness(json!({"ctx": ctx, "block": vbase::hex(bh), "filter_data": vbase::hex(&raw)})),
                        );
                        break;
                    }
                }
            }
            // negative control: the reader must be able to say "no"
            let ctrl = blake2b_256([&bh[..], b"control"].concat());
            r.count("control.random_queries");
            if let Ok(true) = gcs_match(&raw, &ctrl) {
                r.count("control.random_matched");
            }
            if r.samples.len() < 4 && exp.len() > 6 {
                r.sample(json!({"session": self.si, "block": format!("{}#{}", hx(bh), num), "scripts": exp.len(), "filter_bytes": raw.len(), "ctx": ctx}));
            }
            self.judged.insert(key);
        }
    }

    /// Light-client part: drive the light-client protocol server of N at this point.
    fn light_probe(&mut self, lt: &mut light::Light, at: &str, batch: u64) {
        if !self.light_on || self.dead {
            return;
        }
        self.light_probes += 1;
        let c = light::Ctx { si: self.si, params: &self.params_desc, ops: &self.ops, at };
        lt.probe(&self.n, &self.tg.rc, &self.delivered, &mut self.lrng, &c, batch);
    }

    fn build_and_check(&mut self, r: &mut Report, why: &str) {
        if self.build(r, why) {
            self.check(r, why);
        }
    }

    /// Extend B's tip until N's tip equals it (N follows the heaviest branch).
    fn sync_tips(&mut self, r: &mut Report) -> bool {
        for _ in 0..12 {
            if self.n_tip() == self.tg.tip() {
                return true;
            }
            let t = self.tg.tip();
            let x = self.make_block(&t);
            if !self.deliver(&x, r) {
                return false;
            }
        }
        self.n_tip() == self.tg.tip()
    }

    fn chain_hashes_with_filter(&self, chain: &[H]) -> HashSet<H> {
        let store = self.n.shared.store();
        chain
            .iter()
            .filter(|x| store.get_block_filter_hash(&packed::Byte32::from_slice(&x[..]).unwrap()).is_some())
            .cloned()
            .collect()
    }

    /// H-i: a reorganisation lands between the builder's snapshot and the building of a block.
    /// Light-client race episode (C19, chain root served next to a header): a poller thread sends
    /// GetLastState requests through the real protocol handler while this thread delivers a
    /// heavier competing branch block by block; seeded delays right after every snapshot load
    /// (hook point `shared::after_snapshot_load`) stretch the distance between two loads made by
    /// one handler. Every reply must be self-consistent on the chain of the header it names.
    fn light_race_episode(&mut self, r: &mut Report, lt: &mut light::Light) {
        if !self.light_on || self.dead {
            return;
        }
        if !self.sync_tips(r) {
            return;
        }
        let f = self.n_tip();
        let k_a = 2 + self.rng.usize_below(3);
        let mut a = vec![];
        let mut cur = f;
        for _ in 0..k_a {
            cur = self.make_block(&cur);
            a.push(cur);
        }
        let mut b = vec![];
        cur = f;
        for _ in 0..(k_a + 2) {
            cur = self.make_block(&cur);
            b.push(cur);
        }
        for x in a.clone() {
            if !self.deliver(&x, r) {
                return;
            }
        }
        if self.n_tip() != *a.last().unwrap() {
            r.inconclusive("harness: node did not follow branch A in a light race episode");
            self.dead = true;
            return;
        }
        self.ops.push(format!("light race: fork point {}#{} A={} B={}", hx(&f), self.tg.rc.get(&f).number, a.len(), b.len()));
        let stop = std::sync::Arc::new(std::sync::atomic::AtomicBool::new(false));
        let shared = self.n.shared.clone();
        let stop2 = stop.clone();
        let poller = std::thread::Builder::new()
            .name("vfilter-light-poller".into())
            .spawn(move || {
                let rt = tokio::runtime::Builder::new_current_thread().enable_all().build().unwrap();
                let (mut out, mut out2) = (vec![], vec![]);
                let mut i = 0u64;
                while !stop2.load(Ordering::SeqCst) && out.len() + out2.len() < 4000 {
                    i += 1;
                    if i % 2 == 0 {
                        out.push(light::raw_last_state(&shared, &rt));
                    } else {
                        out2.push(light::raw_blocks_proof(&shared, &rt, i.wrapping_mul(0x9e3779b97f4a7c15) >> 20));
                    }
                }
                (out, out2)
            })
            .unwrap();
        {
            let mut points = std::collections::BTreeMap::new();
            points.insert("shared::after_snapshot_load", (350u64, 250u64));
            hooks::set_plan(hooks::DelayPlan { points, seed: self.si ^ 0x51a7 });
        }
        let mut acceptable: HashSet<H> = HashSet::new();
        acceptable.insert(*a.last().unwrap());
        let mut ok = true;
        for x in b.clone() {
            if !self.deliver(&x, r) {
                ok = false;
                break;
            }
            acceptable.insert(self.n_tip());
            std::thread::sleep(Duration::from_micros(300));
        }
        std::thread::sleep(Duration::from_millis(2));
        stop.store(true, Ordering::SeqCst);
        hooks::set_plan(hooks::DelayPlan::default());
        let (replies, proofs) = poller.join().unwrap_or_default();
        if !ok {
            return;
        }
        r.count("light_race.episodes");
        let ctx = light::Ctx { si: self.si, params: &self.params_desc, ops: &self.ops, at: "light race: while branch B was delivered" };
        lt.judge_concurrent_last_states(&self.tg.rc, &self.delivered, &acceptable, replies, &ctx);
        lt.judge_concurrent_blocks_proofs(&self.tg.rc, &self.delivered, &acceptable, proofs, &ctx);
        if self.n_tip() == *b.last().unwrap() {
            self.light_probe(lt, "light race: on branch B", 4);
        }
    }

    fn race_episode(&mut self, r: &mut Report, lt: &mut light::Light) {
        if !self.sync_tips(r) {
            return;
        }
        if self.rng.bool() {
            self.build_and_check(r, "pre-race");
        }
        let f = self.n_tip();
        let k_a = 3 + self.rng.usize_below(4);
        let j = 2 + self.rng.usize_below(2);
        let mut a = vec![];
        let mut cur = f;
        for _ in 0..(k_a + j) {
            cur = self.make_block(&cur);
            a.push(cur);
        }
        let mut b = vec![];
        cur = f;
        for _ in 0..(k_a + 1) {
            cur = self.make_block(&cur);
            b.push(cur);
        }
        self.ops.push(format!("race: fork point {}#{} A={} (+{} held back) B={}", hx(&f), self.tg.rc.get(&f).number, k_a, j, b.len()));
        for x in a[..k_a].to_vec() {
            if !self.deliver(&x, r) {
                return;
            }
        }
        if self.n_tip() != a[k_a - 1] {
            r.inconclusive("harness: node did not follow branch A in a race episode");
            self.dead = true;
            return;
        }
        let a_chain: Vec<H> = self.tg.rc.path(&a[k_a - 1]);
        let unbuilt = a_chain.len() - self.chain_hashes_with_filter(&a_chain).len();
        let at = if self.rng.chance(300, 1000) {
            PauseAt::AfterSnapshot
        } else {
            PauseAt::BeforeBuild(1 + self.rng.below(unbuilt.max(1) as u64))
        };
        let (paused_tx, paused_rx) = channel();
        let (resume_tx, resume_rx) = channel();
        *armed().lock().unwrap() = Some(Armed { at, seen_before_build: 0, paused_tx, resume_rx });
        r.count("race.runs");
        let shared = self.n.shared.clone();
        let builder = std::thread::Builder::new()
            .name("vfilter-builder".into())
            .spawn(move || catch_unwind(AssertUnwindSafe(|| BlockFilter::new(shared).verif_build_filter_data())).is_ok())
            .unwrap();
        // wait until the builder is held at the chosen point (or finished without reaching it)
        let t0 = Instant::now();
        let mut paused = false;
        loop {
            if paused_rx.recv_timeout(Duration::from_millis(2)).is_ok() {
                paused = true;
                break;
            }
            if builder.is_finished() || t0.elapsed() > Duration::from_secs(30) {
                break;
            }
        }
        *armed().lock().unwrap() = None;
        let mut landed = false;
        let have_before = self.chain_hashes_with_filter(&a_chain);
        if paused {
            r.count("race.builder_held");
            for x in b.clone() {
                if !self.deliver(&x, r) {
                    let _ = resume_tx.send(());
                    let _ = builder.join();
                    return;
                }
            }
            landed = self.n_tip() == *b.last().unwrap();
            let _ = resume_tx.send(());
        } else {
            r.count("race.builder_not_held");
        }
        let ok = builder.join().unwrap_or(false);
        if !ok {
            let _ = hooks::take_panics();
            r.violation(
                "filter.builder_panicked@reorg_during_build",
                "build_filter_data panicked while a reorganisation landed between its snapshot and a block build".into(),
                self.witness(json!({"pause_at": format!("{at:?}")})),
            );
        }
        if PAUSE_TIMEOUTS.load(Ordering::SeqCst) > 0 {
            r.inconclusive("watchdog: builder thread was not resumed within 60 s");
        }
        if !paused {
            for x in b.clone() {
                if !self.deliver(&x, r) {
                    return;
                }
            }
        }
        if paused && landed {
            let have_after = self.chain_hashes_with_filter(&a_chain);
            let in_window: Vec<H> = have_after.difference(&have_before).cloned().collect();
            self.ops.push(format!(
                "race: builder held at {at:?}; reorg to B landed; {} filters of branch-A/common blocks written afterwards: {:?}",
                in_window.len(),
                in_window.iter().map(|x| format!("{}#{}", hx(x), self.tg.rc.get(x).number)).collect::<Vec<_>>()
            ));
            if !in_window.is_empty() {
                r.count("race.reorg_landed_in_window");
                r.count_n("race.filters_written_in_window", in_window.len() as u64);
                r.distinct_str(&format!("race:{}:{:?}:{}:{}", self.si, at, k_a, in_window.len()));
            }
            self.built_in_window.extend(in_window);
        }
        // the competing branch is the main chain now
        if self.n_tip() == *b.last().unwrap() {
            self.light_probe(lt, "race: on branch B", 8);
        }
        if self.rng.bool() {
            self.build_and_check(r, "race: on branch B");
        }
        // reorg back to the (extended) first branch
        for x in a[k_a..].to_vec() {
            if !self.deliver(&x, r) {
                return;
            }
        }
        if self.n_tip() != *a.last().unwrap() {
            r.inconclusive("harness: node did not reorganise back to branch A in a race episode");
            self.dead = true;
            return;
        }
        r.count("race.reorged_back");
        self.light_probe(lt, "race: back on branch A", 8);
        self.build_and_check(r, "race: back on branch A");
    }
}

#[allow(clippy::too_many_arguments)]
fn run_session(si: u64, rng: &mut Rng, r: &mut Report, lt: &mut light::Light, light_on: bool, deadline: Instant, steps: u64, with_races: bool) {
    let mut params = ChainParams::default();
    match si % 3 {
        0 => {
            params.window = (2, 10);
            params.epoch = EpochMode::Permanent { genesis_len: 8, epoch_len: 6 };
        }
        1 => {
            params.window = (1, 3);
            params.epoch = EpochMode::Permanent { genesis_len: 5, epoch_len: 4 };
        }
        _ => {
            params.window = (2, 4);
            params.epoch = EpochMode::Permanent { genesis_len: 30, epoch_len: 30 };
        }
    }
    params.issued_cells = 32;
    let gi = consensus::build(&params);
    let tcfg = TreeCfg {
        n_blocks: 0,
        invalid: 0,
        fork_pm: 0,
        max_new_txs: 3,
        chain_pm: 450,
        conflict_pm: 40,
        uncle_pm: 300,
        junk_proposals: 1,
        ts_step_max: 9_000,
        ..Default::default()
    };
    let tg = TreeGen::new(&gi, tcfg, rng.next_u64());
    let n = Node::boot(&gi, &NodeCfg::default());
    let mut s = Sess {
        si,
        gi,
        tg,
        n,
        rng: rng.fork(11),
        lrng: rng.fork(12),
        delivered: HashSet::new(),
        last_deliver_reorged: false,
        light_probes: 0,
        light_on,
        salt: si << 32,
        ops: vec![],
        judged: HashSet::new(),
        built_in_window: HashSet::new(),
        params_desc: format!("window={:?} epoch={:?}", params.window, params.epoch),
        dead: false,
    };
    r.count("sessions");
    // genesis alone
    if s.rng.bool() {
        s.build_and_check(r, "genesis only");
    }
    let mut races = 0;
    let mut light_races = 0;
    for step in 0..steps {
        if s.dead || Instant::now() > deadline {
            break;
        }
        let tip = s.tg.tip();
        let tip_n = s.tg.rc.get(&tip).number;
        let k = s.rng.below(100);
        if with_races && k < 7 && tip_n >= 4 && races < 3 {
            races += 1;
            s.race_episode(r, lt);
            continue;
        }
        if with_races && (7..12).contains(&k) && tip_n >= 4 && light_races < 3 {
            light_races += 1;
            s.light_race_episode(r, lt);
            continue;
        }
        let parent = if k < 27 && tip_n >= 1 {
            let d = 1 + s.rng.below(6u64.min(tip_n));
            r.count("gen.forks");
            s.tg.rc.ancestor_at(&tip, tip_n - d).unwrap()
        } else {
            tip
        };
        let x = s.make_block(&parent);
        if !s.deliver(&x, r) {
            break;
        }
        r.count("gen.blocks");
        if s.last_deliver_reorged && s.light_probes < 10 && s.lrng.chance(6, 10) {
            s.light_probe(lt, "after a reorganisation", 8);
        }
        // run the builder after some operations only, so that it also meets backlogs and
        // backlogs that span a reorganisation
        if s.rng.chance(400, 1000) || step + 1 == steps {
            s.build_and_check(r, "after op");
        }
    }
    if !s.dead {
        s.build_and_check(r, "end of session");
        s.light_probe(lt, "end of session", 12);
    }
    for (k, v) in s.tg.stats.iter() {
        r.count_n(&format!("treegen.{k}"), *v);
    }
}

fn main() {
    let args = Args::parse();
    let _ = vnode::node::scratch_dir();
    vnode::node::set_time(ChainParams::default().genesis_timestamp + 3_000_000_000);
    hooks::install();
    hooks::install_panic_monitor();
    let installed = ckb_block_filter::verif::install(Box::new(on_filter_point));
    let mut r = Report::new(
        "C19",
        "exploration",
        &args,
        "block filters: random block trees with transactions (spends of earlier-block and same-block cells, typed cells) delivered to a real node through reorganisations; after chain operations the real filter builder (hook H9) runs to completion and every main-chain block's stored filter is decoded with the third-party GCS reader and must match the script hash of every output and every spent input (model cell set), filter hashes must chain by blake2b(parent_filter_hash || blake2b(filter_data)); race episodes hold the builder between snapshot and block build while a reorganisation lands; distinct = (block, filter data) pairs judged + race shapes",
    );
    if !installed {
        r.inconclusive("harness: could not install the block-filter hook callback");
    }
    // light-client part (light.rs): own report, own shard file; `light=0` switches it off
    let light_on = args.get_u64("light", 1) != 0;
    let mut lt = light::Light::new(Report::new(
        "C19",
        "exploration",
        &args,
        "light-client server: on the node of the filter sessions, after reorganisations (blocks of abandoned branches in the store), the real LightClientProtocol handlers are driven through `received` with GetLastState / GetLastStateProof / GetBlocksProof / GetTransactionsProof (last_hash = tip / older main-chain block / genesis / abandoned-branch block / unknown; items on the main chain below and above last, on abandoned branches only, unknown, duplicated; limits and invalid sampling parameters) and malformed bytes; every reply is judged against the reference model: last_header is the requested main-chain block or the tip (tip-state form, nothing else carried), its chain root equals the own MMR root over the main chain below it and its extension commits to it, proved headers / transactions are main-chain items below last and exactly the provable requested ones, the others are listed as missing, the MMR proof verifies against the model root for exactly the served positions (third-party verifier over the harness' digest and merge), transaction Merkle proofs are evaluated by the harness, GetLastStateProof serves exactly the blocks the sampling rule (linear scans over model total difficulties) selects; handlers never panic, well-formed requests are answered, malformed ones are not answered with wrong content; distinct = (message kind, last_hash class, item classes / sampling shape, reply form)",
    ));
    let mut rng = Rng::new(args.seed ^ 0xF117E5);
    let budget = args.get_u64("budget_s", args.tier.pick(40, 480));
    let sessions = args.get_u64("sessions", args.tier.pick(40, 2000));
    let steps = args.get_u64("steps", args.tier.pick(60, 110));
    let deadline = Instant::now() + Duration::from_secs(budget);
    // `race=0` disables the race episodes (diagnosis only: the run is then inconclusive)
    let with_races = args.get_u64("race", 1) != 0;
    for si in 0..sessions {
        if Instant::now() > deadline {
            r.note("stopped_by_budget_after_sessions", json!(si));
            break;
        }
        let mut srng = rng.fork(si);
        run_session(si, &mut srng, &mut r, &mut lt, light_on, deadline, steps, with_races);
        for p in hooks::take_panics() {
            let file = p.location.rsplit('/').next().unwrap_or("").split(':').next().unwrap_or("").to_string();
            r.violation(
                &format!("node_thread_panicked@{}:{}:{}", p.thread, file, p.message.chars().take(60).collect::<String>()),
                format!("thread '{}' panicked at {}: {}", p.thread, p.location, p.message),
                json!({"session": si}),
            );
        }
    }
    r.count_n("hook.filter::after_snapshot", HITS_AFTER_SNAPSHOT.load(Ordering::SeqCst));
    r.count_n("hook.filter::before_build_block", HITS_BEFORE_BUILD.load(Ordering::SeqCst));
    let q = args.tier == vbase::Tier::Quick;
    r.require("blocks_checked", if q { 500 } else { 5000 });
    r.require("filter_hash_checked", if q { 500 } else { 5000 });
    r.require("scripts_matched.output_lock", if q { 300 } else { 3000 });
    r.require("scripts_matched.output_type", if q { 10 } else { 100 });
    r.require("scripts_matched.input_lock", if q { 100 } else { 1000 });
    r.require("scripts_matched.input_type", if q { 3 } else { 30 });
    r.require("inputs.same_block", if q { 5 } else { 50 });
    r.require("inputs.earlier_block", if q { 50 } else { 500 });
    r.require("n.reorgs", if q { 5 } else { 50 });
    r.require("build.fork_recovery", if q { 3 } else { 30 });
    r.require("race.reorg_landed_in_window", if q { 2 } else { 20 });
    r.require("hook.filter::before_build_block", 10);
    if r.counter("control.random_matched") * 20 > r.counter("control.random_queries").max(1) {
        r.inconclusive("negative control: the GCS reader matched more than 5% of random hashes (oracle cannot discriminate)");
    }
    r.assume("golomb-coded-set's GCSFilterReader (third-party) decodes filters; SipHash keys (0,0), M and P are the crate constants ckb uses");
    r.assume("the main chain is taken from the node's tip hash and replayed from the harness's own copies of the blocks (RefChain); tip selection itself is C01's subject");
    r.assume("ckb-types is used to read block / transaction fields; script hash = blake2b_256(script.as_slice())");
    let dir = std::env::var("VERIF_OUT_DIR")
        .map(std::path::PathBuf::from)
        .unwrap_or_else(|_| vbase::verif_root().join("evidence"));
    let path = args
        .get_str("out")
        .map(std::path::PathBuf::from)
        .unwrap_or_else(|| dir.join("C19.part-filter.json"));
    let code = r.finish(Some(&path));
    let lcode = if light_on { finish_light(&mut lt.r, &args, &path) } else { 0 };
    // shard files are silent: print a summary for humans
    let known = vbase::KnownFindings::load();
    for v in &r.violations {
        let tag = if known.is_known("C19", &v.signature) { "KNOWN-FINDING(shard):" } else { "VIOLATION(shard)" };
        println!("{tag} property=C19 signature={} occurrences={}\n  detail: {}", v.signature, r.counter(&format!("violation::{}", v.signature)), v.detail);
    }
    for i in &r.inconclusive {
        println!("INCONCLUSIVE(shard) property=C19 reason={i}");
    }
    println!(
        "[C19/filter] {} seed={} evaluations={} distinct={} blocks_checked={} reorgs={} fork_recovery={} races_landed={} exit={} shard={}",
        args.tier.as_str(), args.seed, r.evaluations, r.distinct_count(), r.counter("blocks_checked"), r.counter("n.reorgs"),
        r.counter("build.fork_recovery"), r.counter("race.reorg_landed_in_window"), code, path.display()
    );
    vnode::node::exit(code.max(lcode))
}

/// Minimums, assumptions and shard file of the light-client part.
fn finish_light(lr: &mut Report, args: &Args, filter_shard: &std::path::Path) -> i32 {
    let q = args.tier == vbase::Tier::Quick;
    let m = |a: u64, b: u64| if q { a } else { b };
    lr.require("light.probes", m(60, 600));
    lr.require("light.probes_with_abandoned_blocks", m(50, 500));
    lr.require("light.req.GetLastState", m(60, 600));
    lr.require("light.req.GetLastStateProof", m(200, 2000));
    lr.require("light.req.GetBlocksProof", m(150, 1500));
    lr.require("light.req.GetTransactionsProof", m(150, 1500));
    for cl in ["tip", "main_old", "abandoned", "unknown"] {
        lr.require(&format!("light.last_class.{cl}"), m(60, 600));
        lr.require(&format!("light.req.GetBlocksProof.last.{cl}"), m(15, 150));
        lr.require(&format!("light.req.GetTransactionsProof.last.{cl}"), m(15, 150));
        lr.require(&format!("light.req.GetLastStateProof.last.{cl}"), m(20, 200));
    }
    lr.require("light.last_class.genesis", m(10, 100));
    lr.require("light.replies_verified", m(400, 4000));
    lr.require("light.replies_verified.last_state_proof", m(60, 600));
    lr.require("light.replies_verified.blocks_proof", m(80, 800));
    lr.require("light.replies_verified.txs_proof", m(80, 800));
    lr.require("light.tip_state_replies", m(100, 1000));
    lr.require("light.proofs_verified", m(150, 1500));
    lr.require("light.tx_merkle_proofs_verified", m(60, 600));
    lr.require("light.verifiable_headers_checked", m(800, 8000));
    for cl in ["main_below_last", "abandoned", "unknown"] {
        lr.require(&format!("light.items.block.{cl}"), m(80, 800));
        lr.require(&format!("light.items.tx.{cl}"), m(40, 400));
    }
    lr.require("light.items.block.main_at_or_above_last", m(5, 50));
    lr.require("light.lsp.expected.reorg_blocks", m(20, 200));
    lr.require("light.lsp.expected.sampled_blocks", m(20, 200));
    lr.require("light.lsp.expected.last_n_blocks", m(100, 1000));
    lr.require("light.req.malformed", m(15, 150));
    lr.assume("the main chain is taken from the node's tip hash and replayed from the harness's own copies of the blocks (RefChain); tip selection itself is C01's subject");
    lr.assume("chain roots, MMR sizes and leaf positions come from vnode::model::{Mmr, Digest}; membership proofs are evaluated by ckb-merkle-mountain-range's MerkleProof::verify (third-party) instantiated with the harness' digest type and merge function");
    lr.assume("ckb-types' molecule readers decode the replies; header hash = blake2b_256(header), transaction hash = blake2b_256(raw transaction), both recomputed from the served bytes");
    lr.assume("a request with last_hash on the main chain that asks for an item at or above last (not provable against last), or whose start_number is above last, may be refused, dropped or answered correctly; only panics and wrong content are judged for it");
    let path = filter_shard.parent().map(|d| d.join("C19.part-light.json")).unwrap_or_else(|| std::path::PathBuf::from("C19.part-light.json"));
    let code = lr.finish(Some(&path));
    let known = vbase::KnownFindings::load();
    for v in &lr.violations {
        let tag = if known.is_known("C19", &v.signature) { "KNOWN-FINDING(shard):" } else { "VIOLATION(shard)" };
        println!("{tag} property=C19 signature={} occurrences={}\n  detail: {}", v.signature, lr.counter(&format!("violation::{}", v.signature)), v.detail);
    }
    for i in &lr.inconclusive {
        println!("INCONCLUSIVE(shard) property=C19 reason={i}");
    }
    println!(
        "[C19/light] {} seed={} evaluations={} distinct={} probes={} requests(lsp/blocks/txs)={}/{}/{} replies_verified={} proofs_verified={} exit={} shard={}",
        args.tier.as_str(), args.seed, lr.evaluations, lr.distinct_count(), lr.counter("light.probes"),
        lr.counter("light.req.GetLastStateProof"), lr.counter("light.req.GetBlocksProof"), lr.counter("light.req.GetTransactionsProof"),
        lr.counter("light.replies_verified"), lr.counter("light.proofs_verified"), code, path.display()
    );
    code
}
