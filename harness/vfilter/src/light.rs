//! Light-client part of C19: the real `ckb_light_client_protocol_server::LightClientProtocol`
//! message handlers are driven (through `received` with a recording protocol context) on the
//! node N of the filter sessions at points after reorganisations, i.e. while blocks of abandoned
//! branches are in N's store. Every outcome (reply / ban / silence / panic) is judged against the
//! reference model only: the main chain is the RefChain path to N's tip, chain roots come from the
//! harness' own MMR (`vnode::model::{Mmr, Digest}`), membership proofs are verified with the
//! third-party `ckb-merkle-mountain-range` verifier instantiated with the harness' own digest
//! type and merge function, leaf positions and MMR sizes are taken from the model MMR's node
//! count, the transaction Merkle proofs (CBMT) are evaluated by an own implementation.

use ckb_hash::blake2b_256;
use ckb_light_client_protocol_server::LightClientProtocol;
use ckb_merkle_mountain_range::{Merge, MerkleProof, Result as MmrResult};
use ckb_network::{
    Behaviour, CKBProtocolContext, CKBProtocolHandler, Error as NetError, Peer, PeerIndex, ProtocolId,
    SupportProtocols, TargetSession, async_trait, bytes::Bytes,
};
use ckb_types::core::HeaderView;
use ckb_types::{U256, packed, prelude::*};
use serde_json::{Value, json};
use std::collections::{BTreeSet, HashMap, HashSet};
use std::future::Future;
use std::panic::{AssertUnwindSafe, catch_unwind};
use std::pin::Pin;
use std::sync::{Arc, Mutex};
use std::time::Duration;
use vbase::{Report, Rng};
use vnode::hooks;
use vnode::model::{Digest, H, Mmr, RefChain, difficulty_of_compact, h, hx};
use vnode::node::Node;

// ---------------------------------------------------------------------------------------
// recording protocol context (copy of vrelay::netctx, reduced)

type Task = Pin<Box<dyn Future<Output = ()> + 'static + Send>>;

pub struct RecCtx {
    pub sent: Mutex<Vec<Bytes>>,
    pub bans: Mutex<Vec<String>>,
}

impl RecCtx {
    fn new() -> Self {
        RecCtx { sent: Mutex::new(vec![]), bans: Mutex::new(vec![]) }
    }
    fn record(&self, data: Bytes) {
        self.sent.lock().unwrap().push(data);
    }
}

#[async_trait]
impl CKBProtocolContext for RecCtx {
    async fn set_notify(&self, _interval: Duration, _token: u64) -> Result<(), NetError> {
        Ok(())
    }
    async fn remove_notify(&self, _token: u64) -> Result<(), NetError> {
        Ok(())
    }
    async fn async_quick_send_message(&self, _p: ProtocolId, _peer: PeerIndex, data: Bytes) -> Result<(), NetError> {
        self.record(data);
        Ok(())
    }
    async fn async_quick_send_message_to(&self, _peer: PeerIndex, data: Bytes) -> Result<(), NetError> {
        self.record(data);
        Ok(())
    }
    async fn async_quick_filter_broadcast(&self, _t: TargetSession, _data: Bytes) -> Result<(), NetError> {
        Ok(())
    }
    async fn async_future_task(&self, _task: Task, _blocking: bool) -> Result<(), NetError> {
        Ok(())
    }
    async fn async_send_message(&self, _p: ProtocolId, _peer: PeerIndex, data: Bytes) -> Result<(), NetError> {
        self.record(data);
        Ok(())
    }
    async fn async_send_message_to(&self, _peer: PeerIndex, data: Bytes) -> Result<(), NetError> {
        self.record(data);
        Ok(())
    }
    async fn async_filter_broadcast(&self, _t: TargetSession, _data: Bytes) -> Result<(), NetError> {
        Ok(())
    }
    async fn async_filter_broadcast_with_proto(&self, _p: ProtocolId, _t: TargetSession, _data: Bytes) -> Result<(), NetError> {
        Ok(())
    }
    async fn async_quick_filter_broadcast_with_proto(&self, _p: ProtocolId, _t: TargetSession, _data: Bytes) -> Result<(), NetError> {
        Ok(())
    }
    async fn async_disconnect(&self, _peer: PeerIndex, _message: &str) -> Result<(), NetError> {
        Ok(())
    }
    fn quick_send_message(&self, _p: ProtocolId, _peer: PeerIndex, data: Bytes) -> Result<(), NetError> {
        self.record(data);
        Ok(())
    }
    fn quick_send_message_to(&self, _peer: PeerIndex, data: Bytes) -> Result<(), NetError> {
        self.record(data);
        Ok(())
    }
    fn quick_filter_broadcast(&self, _t: TargetSession, _data: Bytes) -> Result<(), NetError> {
        Ok(())
    }
    fn quick_filter_broadcast_with_proto(&self, _p: ProtocolId, _t: TargetSession, _data: Bytes) -> Result<(), NetError> {
        Ok(())
    }
    fn future_task(&self, _task: Task, _blocking: bool) -> Result<(), NetError> {
        Ok(())
    }
    fn send_message(&self, _p: ProtocolId, _peer: PeerIndex, data: Bytes) -> Result<(), NetError> {
        self.record(data);
        Ok(())
    }
    fn send_message_to(&self, _peer: PeerIndex, data: Bytes) -> Result<(), NetError> {
        self.record(data);
        Ok(())
    }
    fn filter_broadcast(&self, _t: TargetSession, _data: Bytes) -> Result<(), NetError> {
        Ok(())
    }
    fn disconnect(&self, _peer: PeerIndex, _message: &str) -> Result<(), NetError> {
        Ok(())
    }
    fn get_peer(&self, _peer: PeerIndex) -> Option<Peer> {
        None
    }
    fn with_peer_mut(&self, _peer: PeerIndex, _f: Box<dyn FnOnce(&mut Peer)>) {}
    fn connected_peers(&self) -> Vec<PeerIndex> {
        vec![]
    }
    fn full_relay_connected_peers(&self) -> Vec<PeerIndex> {
        vec![]
    }
    fn report_peer(&self, _peer: PeerIndex, _b: Behaviour) {}
    fn ban_peer(&self, _peer: PeerIndex, _d: Duration, reason: String) {
        self.bans.lock().unwrap().push(reason);
    }
    fn protocol_id(&self) -> ProtocolId {
        SupportProtocols::LightClient.protocol_id()
    }
}

// ---------------------------------------------------------------------------------------
// own digest / proof arithmetic

/// Merge function of the harness' own digest type for the third-party proof verifier.
#[derive(Debug)]
struct OwnMerge;

impl Merge for OwnMerge {
    type Item = Digest;
    fn merge(l: &Digest, r: &Digest) -> MmrResult<Digest> {
        Ok(Digest::merge(l, r))
    }
    /// the verifier bags peaks from the right and calls this with (right, left)
    fn merge_peaks(right: &Digest, left: &Digest) -> MmrResult<Digest> {
        Ok(Digest::merge(left, right))
    }
}

fn digest_of_header(hd: &HeaderView) -> Digest {
    Digest {
        children_hash: h(&hd.hash()),
        total_difficulty: difficulty_of_compact(hd.compact_target()),
        start_number: hd.number(),
        end_number: hd.number(),
        start_epoch: hd.epoch().full_value(),
        end_epoch: hd.epoch().full_value(),
        start_timestamp: hd.timestamp(),
        end_timestamp: hd.timestamp(),
        start_compact_target: hd.compact_target(),
        end_compact_target: hd.compact_target(),
    }
}

/// Decode the 120 bytes of a packed HeaderDigest into the model's digest type.
fn digest_from_bytes(b: &[u8]) -> Option<Digest> {
    if b.len() != 120 {
        return None;
    }
    let u64_at = |o: usize| u64::from_le_bytes(b[o..o + 8].try_into().unwrap());
    let u32_at = |o: usize| u32::from_le_bytes(b[o..o + 4].try_into().unwrap());
    let mut ch = [0u8; 32];
    ch.copy_from_slice(&b[0..32]);
    Some(Digest {
        children_hash: ch,
        total_difficulty: U256::from_little_endian(&b[32..64]).ok()?,
        start_number: u64_at(64),
        end_number: u64_at(72),
        start_epoch: u64_at(80),
        end_epoch: u64_at(88),
        start_timestamp: u64_at(96),
        end_timestamp: u64_at(104),
        start_compact_target: u32_at(112),
        end_compact_target: u32_at(116),
    })
}

fn merge32(l: &H, r: &H) -> H {
    let mut buf = [0u8; 64];
    buf[..32].copy_from_slice(l);
    buf[32..].copy_from_slice(r);
    blake2b_256(buf)
}

/// Own evaluation of a complete-binary-Merkle-tree proof (RFC 0006): `indices` are node indices
/// of the proved leaves in the array layout (root 0, children 2i+1 / 2i+2), stored in the order
/// of the sorted leaf hashes; lemmas are consumed while walking the nodes by descending index.
fn cbmt_root(indices: &[u32], lemmas: &[H], leaves: &[H]) -> Option<H> {
    if leaves.is_empty() || leaves.len() != indices.len() {
        return None;
    }
    let mut sorted = leaves.to_vec();
    sorted.sort();
    let mut pre: Vec<(u32, H)> = indices.iter().cloned().zip(sorted).collect();
    pre.sort_by(|a, b| b.0.cmp(&a.0));
    let mut queue: std::collections::VecDeque<(u32, H)> = pre.into();
    let mut li = 0usize;
    while let Some((idx, node)) = queue.pop_front() {
        if idx == 0 {
            return if li == lemmas.len() && queue.is_empty() { Some(node) } else { None };
        }
        let sib = if idx % 2 == 1 { idx + 1 } else { idx - 1 };
        let sibling = match queue.front() {
            Some((f, _)) if *f == sib => queue.pop_front().map(|x| x.1),
            _ => {
                let l = lemmas.get(li).cloned();
                li += 1;
                l
            }
        }?;
        let parent = if idx % 2 == 1 { merge32(&node, &sibling) } else { merge32(&sibling, &node) };
        queue.push_back(((idx - 1) / 2, parent));
    }
    None
}

fn own_uncles_hash(block: &ckb_types::core::BlockView) -> H {
    let uncles = block.data().uncles();
    if uncles.is_empty() {
        return [0u8; 32];
    }
    let mut buf = vec![];
    for u in uncles.into_iter() {
        buf.extend_from_slice(&blake2b_256(u.header().as_slice()));
    }
    blake2b_256(&buf)
}

fn b32(x: &H) -> packed::Byte32 {
    packed::Byte32::from_slice(x).unwrap()
}

// ---------------------------------------------------------------------------------------
// model view of N's chain at a probe point

pub struct View<'a> {
    pub rc: &'a RefChain,
    pub tip: H,
    /// number -> hash of the main chain
    pub chain: Vec<H>,
    pub num_of: HashMap<H, u64>,
    /// roots[i] = root of the own MMR over the digests of main-chain blocks 0..=i
    pub roots: Vec<Digest>,
    /// sizes[i] = number of MMR nodes with i+1 leaves (== position of leaf i+1)
    pub sizes: Vec<u64>,
    pub td: Vec<U256>,
    /// tx hash -> (block number, index in block) for main-chain transactions
    pub tx_main: HashMap<H, (u64, u32)>,
    pub tx_main_list: Vec<(H, u64, u32)>,
    /// delivered blocks that are not on the main chain, ordered by (number, hash)
    pub abandoned: Vec<H>,
    /// transactions committed in abandoned blocks only
    pub tx_abandoned_only: Vec<H>,
}

impl<'a> View<'a> {
    pub fn build(rc: &'a RefChain, tip: H, delivered: &HashSet<H>) -> View<'a> {
        let chain = rc.path(&tip);
        let mut num_of = HashMap::new();
        let mut mmr = Mmr::default();
        let (mut roots, mut sizes, mut td) = (vec![], vec![], vec![]);
        let mut tx_main = HashMap::new();
        let mut tx_main_list = vec![];
        for (i, x) in chain.iter().enumerate() {
            num_of.insert(*x, i as u64);
            let rec = rc.get(x);
            mmr.push(Digest::leaf(&rec.block));
            roots.push(mmr.root().unwrap());
            sizes.push(mmr.size());
            td.push(rec.td.clone());
            for (ti, tx) in rec.block.transactions().iter().enumerate() {
                let th = h(&tx.hash());
                tx_main.insert(th, (i as u64, ti as u32));
                tx_main_list.push((th, i as u64, ti as u32));
            }
        }
        let mut abandoned: Vec<H> = delivered.iter().filter(|x| !num_of.contains_key(*x)).cloned().collect();
        abandoned.sort_by_key(|x| (rc.get(x).number, *x));
        let mut seen = BTreeSet::new();
        let mut tx_abandoned_only = vec![];
        for x in &abandoned {
            for tx in rc.get(x).block.transactions().iter() {
                let th = h(&tx.hash());
                if !tx_main.contains_key(&th) && seen.insert(th) {
                    tx_abandoned_only.push(th);
                }
            }
        }
        View { rc, tip, chain, num_of, roots, sizes, td, tx_main, tx_main_list, abandoned, tx_abandoned_only }
    }

    fn tip_number(&self) -> u64 {
        self.chain.len() as u64 - 1
    }

    /// position of leaf `n` in the MMR (== node count of the MMR over leaves 0..n)
    fn pos(&self, n: u64) -> u64 {
        if n == 0 { 0 } else { self.sizes[n as usize - 1] }
    }

    /// bytes of the chain root a block with this number commits to (root over 0..number-1)
    fn parent_root_bytes(&self, number: u64) -> Vec<u8> {
        if number == 0 { vec![0u8; 120] } else { self.roots[number as usize - 1].to_bytes() }
    }
}

// ---------------------------------------------------------------------------------------
// driver

pub enum Outcome {
    Panic(String),
    Banned(String),
    Replies(Vec<Bytes>),
    Nothing,
}

impl Outcome {
    fn tag(&self) -> &'static str {
        match self {
            Outcome::Panic(_) => "panic",
            Outcome::Banned(_) => "ban",
            Outcome::Replies(_) => "reply",
            Outcome::Nothing => "silence",
        }
    }
    fn describe(&self) -> Value {
        match self {
            Outcome::Panic(m) => json!({"panic": m}),
            Outcome::Banned(m) => json!({"ban": m}),
            Outcome::Replies(v) => json!({"replies": v.len(), "first_reply_bytes": v.first().map(|b| b.len())}),
            Outcome::Nothing => json!("no reply and no ban"),
        }
    }
}

/// Per-probe context for witnesses.
pub struct Ctx<'a> {
    pub si: u64,
    pub params: &'a str,
    pub ops: &'a [String],
    pub at: &'a str,
}

pub struct Light {
    rt: tokio::runtime::Runtime,
    pub r: Report,
}

/// What the model says about the `last_hash` of a request.
#[derive(Clone, Copy, PartialEq, Eq, Debug)]
enum LastClass {
    Tip,
    MainOld,
    Genesis,
    Abandoned,
    Unknown,
}

impl LastClass {
    fn s(&self) -> &'static str {
        match self {
            LastClass::Tip => "tip",
            LastClass::MainOld => "main_old",
            LastClass::Genesis => "genesis",
            LastClass::Abandoned => "abandoned",
            LastClass::Unknown => "unknown",
        }
    }
}

/// A reply decoded far enough for the common checks.
struct LastHeader {
    hash: H,
    number: u64,
}

impl Light {
    pub fn new(r: Report) -> Light {
        let rt = tokio::runtime::Builder::new_current_thread().enable_all().build().unwrap();
        Light { rt, r }
    }

    fn call(&mut self, n: &Node, data: Bytes) -> Outcome {
        let ctx = Arc::new(RecCtx::new());
        let nc: Arc<dyn CKBProtocolContext + Sync> = ctx.clone();
        let mut proto = LightClientProtocol::new(n.shared.clone());
        let before = hooks::peek_panics();
        let res = catch_unwind(AssertUnwindSafe(|| self.rt.block_on(proto.received(nc, PeerIndex::new(7), data))));
        if let Err(p) = res {
            let msg = p
                .downcast_ref::<&str>()
                .map(|s| s.to_string())
                .or_else(|| p.downcast_ref::<String>().cloned())
                .unwrap_or_default();
            // the panic monitor recorded it too: take it so that it is reported once, here;
            // records of other threads (node services) are reported as such
            let recs = hooks::take_panics();
            let me = std::thread::current().name().unwrap_or("<unnamed>").to_string();
            let loc = recs.iter().rev().find(|p| p.thread == me).map(|p| p.location.clone()).unwrap_or_default();
            for p in recs.iter().filter(|p| p.thread != me) {
                let file = p.location.rsplit('/').next().unwrap_or("").split(':').next().unwrap_or("").to_string();
                self.r.violation(
                    &format!("node_thread_panicked@{}:{}:{}", p.thread, file, p.message.chars().take(60).collect::<String>()),
                    format!("thread '{}' panicked at {}: {} (observed while a light-client request was processed)", p.thread, p.location, p.message),
                    json!({}),
                );
            }
            let _ = before;
            return Outcome::Panic(format!("{msg} @ {loc}"));
        }
        let bans = ctx.bans.lock().unwrap().clone();
        let sent = ctx.sent.lock().unwrap().clone();
        if let Some(b) = bans.first() {
            if !sent.is_empty() {
                self.r.count("light.outcome.ban_and_reply");
            }
            return Outcome::Banned(b.clone());
        }
        if sent.is_empty() { Outcome::Nothing } else { Outcome::Replies(sent) }
    }

    fn wit(&self, c: &Ctx, req: &Value, out: &Outcome, extra: Value) -> Value {
        json!({
            "session": c.si,
            "params": c.params,
            "probe_at": c.at,
            "ops_tail": c.ops.iter().rev().take(30).rev().collect::<Vec<_>>(),
            "request": req,
            "outcome": out.describe(),
            "extra": extra,
        })
    }

    /// `cause`: what is special about the request (the generator knows), so that independent
    /// defects get independent signatures.
    fn panic_sig(kind: &str, cause: &str, msg: &str) -> String {
        // "<message> @ <path>:<line>" -> file name and the beginning of the message
        let (m, loc) = msg.rsplit_once(" @ ").unwrap_or((msg, ""));
        let file = loc.rsplit('/').next().unwrap_or("").split(':').next().unwrap_or("");
        let m: String = m.chars().take(48).collect();
        format!("light.{kind}.handler_panicked@{cause}:{file}:{m}")
    }

    /// Checks 1 and 2 on a reply's `last_header`. Returns the decoded last header when the proof
    /// part can be judged against it (i.e. it is a main-chain block), and whether the reply has to
    /// be in the tip-state form.
    #[allow(clippy::too_many_arguments)]
    fn judge_last_header(
        &mut self,
        v: &View,
        c: &Ctx,
        kind: &str,
        lclass: LastClass,
        req_last: &H,
        vh: &packed::VerifiableHeader,
        req: &Value,
        out: &Outcome,
    ) -> Option<(LastHeader, bool)> {
        let hash = blake2b_256(vh.header().as_slice());
        let last_on_main = v.num_of.contains_key(req_last);
        self.r.eval();
        let Some(&number) = v.num_of.get(&hash) else {
            let what = if v.rc.contains(&hash) {
                format!("block {}#{} of an abandoned branch", hx(&hash), v.rc.get(&hash).number)
            } else {
                format!("unknown header {}", hx(&hash))
            };
            self.r.violation(
                &format!("light.{kind}.last_header_not_on_main_chain@last_hash_{}", lclass.s()),
                format!("{kind} with last_hash {} ({}) was answered with last_header = {what}; main chain tip is {}#{}", hx(req_last), lclass.s(), hx(&v.tip), v.tip_number()),
                self.wit(c, req, out, json!({"last_header": vbase::hex(&hash)})),
            );
            return None;
        };
        let tip_state = !last_on_main;
        if last_on_main && hash != *req_last {
            self.r.violation(
                &format!("light.{kind}.last_header_is_not_the_requested_main_chain_block@last_hash_{}", lclass.s()),
                format!("requested last_hash {}#{} is on the main chain but last_header is {}#{}", hx(req_last), v.num_of[req_last], hx(&hash), number),
                self.wit(c, req, out, json!({})),
            );
            return None;
        }
        if !last_on_main && hash != v.tip {
            self.r.violation(
                &format!("light.{kind}.tip_state_reply_is_not_the_tip@last_hash_{}", lclass.s()),
                format!("last_hash {} is not on the main chain; the reply names main-chain block {}#{} instead of the tip {}#{}", hx(req_last), hx(&hash), number, hx(&v.tip), v.tip_number()),
                self.wit(c, req, out, json!({})),
            );
            return None;
        }
        self.judge_verifiable(v, c, kind, "last_header", lclass, number, vh, req, out);
        Some((LastHeader { hash, number }, tip_state))
    }

    /// A VerifiableHeader of main-chain block `number`: every field against the model block, the
    /// chain root against the own MMR, and validity (extension commits to the root, extra hash)
    /// recomputed.
    #[allow(clippy::too_many_arguments)]
    fn judge_verifiable(
        &mut self,
        v: &View,
        c: &Ctx,
        kind: &str,
        which: &str,
        lclass: LastClass,
        number: u64,
        vh: &packed::VerifiableHeader,
        req: &Value,
        out: &Outcome,
    ) -> bool {
        let bh = v.chain[number as usize];
        let block = &v.rc.get(&bh).block;
        let mut ok = true;
        self.r.eval();
        self.r.count("light.verifiable_headers_checked");
        let root = vh.parent_chain_root();
        let want_root = v.parent_root_bytes(number);
        if root.as_slice() != &want_root[..] {
            ok = false;
            let got = digest_from_bytes(root.as_slice());
            self.r.violation(
                &format!("light.{kind}.{which}.chain_root_differs_from_model@last_hash_{}", lclass.s()),
                format!(
                    "{which} {}#{}: served parent_chain_root covers blocks {:?} but the model root over main-chain blocks 0..{} differs",
                    hx(&bh), number, got.as_ref().map(|d| (d.start_number, d.end_number)), number.saturating_sub(1)
                ),
                self.wit(c, req, out, json!({"served_root": vbase::hex(root.as_slice()), "model_root": vbase::hex(&want_root), "number": number})),
            );
        }
        // validity as a client recomputes it (from the served fields only)
        let ext: Option<Vec<u8>> = vh.extension().to_opt().map(|b| b.raw_data().to_vec());
        let uh = h(&vh.uncles_hash());
        let commits = if number == 0 {
            root.as_slice().iter().all(|b| *b == 0)
        } else {
            ext.as_ref().map(|e| e.len() >= 32 && e[..32] == blake2b_256(root.as_slice())).unwrap_or(false)
        };
        let extra = match &ext {
            None => uh,
            Some(e) => merge32(&uh, &blake2b_256(e)),
        };
        let hv = vh.header().into_view();
        let extra_ok = extra == h(&hv.extra_hash());
        if !commits || !extra_ok {
            ok = false;
            self.r.violation(
                &format!("light.{kind}.{which}.verifiable_header_invalid@last_hash_{}", lclass.s()),
                format!("{which} {}#{}: extension commits to the served chain root: {commits}; extra hash matches uncles hash / extension: {extra_ok}", hx(&bh), number),
                self.wit(c, req, out, json!({"number": number})),
            );
        }
        // fields against the model block
        let m_ext: Option<Vec<u8>> = block.extension().map(|b| b.raw_data().to_vec());
        if vh.header().as_slice() != block.header().data().as_slice() || uh != own_uncles_hash(block) || ext != m_ext {
            ok = false;
            self.r.violation(
                &format!("light.{kind}.{which}.fields_differ_from_main_chain_block"),
                format!("{which} {}#{}: header / uncles hash / extension differ from the block the harness generated", hx(&bh), number),
                self.wit(c, req, out, json!({"number": number})),
            );
        }
        ok
    }

    /// Check 4: the served proof items verify for exactly `leaves` (block number, digest) against
    /// the model root of the chain below `last`.
    #[allow(clippy::too_many_arguments)]
    fn judge_proof(
        &mut self,
        v: &View,
        c: &Ctx,
        kind: &str,
        lclass: LastClass,
        last: &LastHeader,
        proof: &packed::HeaderDigestVec,
        leaves: Vec<(u64, Digest)>,
        req: &Value,
        out: &Outcome,
    ) {
        self.r.eval();
        if leaves.is_empty() {
            if !proof.is_empty() {
                self.r.violation(
                    &format!("light.{kind}.proof_items_without_proved_items"),
                    format!("{} proof items served although nothing is proved", proof.len()),
                    self.wit(c, req, out, json!({})),
                );
            } else {
                self.r.count("light.empty_proofs_checked");
            }
            return;
        }
        if last.number == 0 {
            return; // unreachable: leaves are below `last`
        }
        let items: Option<Vec<Digest>> = proof.clone().into_iter().map(|d| digest_from_bytes(d.as_slice())).collect();
        let Some(items) = items else { return };
        let numbers: Vec<u64> = leaves.iter().map(|l| l.0).collect();
        let n_items = items.len();
        let mp: MerkleProof<Digest, OwnMerge> = MerkleProof::new(v.sizes[last.number as usize - 1], items);
        let root = v.roots[last.number as usize - 1].clone();
        let lv: Vec<(u64, Digest)> = leaves.into_iter().map(|(n, d)| (v.pos(n), d)).collect();
        let res = catch_unwind(AssertUnwindSafe(|| mp.verify(root, lv)));
        match res {
            Ok(Ok(true)) => {
                self.r.count("light.proofs_verified");
                self.r.count_n("light.proof_leaves_verified", numbers.len() as u64);
            }
            other => {
                if other.is_err() {
                    let _ = hooks::take_panics();
                }
                let why = match other {
                    Ok(Ok(b)) => format!("verify = {b}"),
                    Ok(Err(e)) => format!("verify error {e}"),
                    Err(_) => "verifier panicked".to_string(),
                };
                self.r.violation(
                    &format!("light.{kind}.proof_does_not_verify_against_model_root@last_hash_{}", lclass.s()),
                    format!("proof ({n_items} items) for blocks {numbers:?} below last {}#{} does not verify against the model root over 0..{}: {why}", hx(&last.hash), last.number, last.number - 1),
                    self.wit(c, req, out, json!({"numbers": numbers})),
                );
            }
        }
    }
}

// ---------------------------------------------------------------------------------------
// expectations about the form of the outcome

#[derive(Clone, Copy, PartialEq, Eq)]
enum Expect {
    /// a well-formed request the protocol defines an answer for: exactly a reply
    Reply,
    /// malformed / over-limit / invalid parameters: a ban (or silence); a reply is only accepted
    /// when its content is correct
    Refusal(&'static str),
    /// the request asks for something that cannot be proved against `last` (item at or above
    /// `last`, start above last): refusal, silence or a correct reply
    Unprovable(&'static str),
}

impl Light {
    /// Applies check 5 (panic / form of the outcome); returns the reply to judge, if any.
    #[allow(clippy::too_many_arguments)]
    fn settle(&mut self, c: &Ctx, kind: &str, lclass: LastClass, exp: Expect, cause: &str, req: &Value, out: &Outcome) -> Option<Bytes> {
        self.r.eval();
        self.r.count(&format!("light.outcome.{}.{}", kind, out.tag()));
        match out {
            Outcome::Panic(m) => {
                self.r.violation(
                    &Self::panic_sig(kind, cause, m),
                    format!("the {kind} handler panicked: {m} (last_hash class {}, expectation: {})", lclass.s(), match exp {
                        Expect::Reply => "reply".to_string(),
                        Expect::Refusal(w) => format!("refusal ({w})"),
                        Expect::Unprovable(w) => format!("unprovable ({w})"),
                    }),
                    self.wit(c, req, out, json!({})),
                );
                None
            }
            Outcome::Banned(b) => {
                match exp {
                    Expect::Reply => self.r.violation(
                        &format!("light.{kind}.valid_request_banned@last_hash_{}", lclass.s()),
                        format!("a well-formed {kind} was answered with a ban: {b}"),
                        self.wit(c, req, out, json!({})),
                    ),
                    Expect::Refusal(w) => self.r.count(&format!("light.refused.{kind}.{w}")),
                    Expect::Unprovable(w) => self.r.count(&format!("light.unprovable_banned.{kind}.{w}")),
                }
                None
            }
            Outcome::Nothing => {
                match exp {
                    Expect::Reply => self.r.violation(
                        &format!("light.{kind}.no_reply_to_valid_request@last_hash_{}", lclass.s()),
                        format!("a well-formed {kind} got neither a reply nor a ban (internal error status)"),
                        self.wit(c, req, out, json!({})),
                    ),
                    Expect::Refusal(w) => self.r.count(&format!("light.dropped_silently.{kind}.{w}")),
                    Expect::Unprovable(w) => self.r.count(&format!("light.unprovable_dropped.{kind}.{w}")),
                }
                None
            }
            Outcome::Replies(v) => {
                if v.len() != 1 {
                    self.r.violation(
                        &format!("light.{kind}.several_replies"),
                        format!("{} replies to one request", v.len()),
                        self.wit(c, req, out, json!({})),
                    );
                }
                match exp {
                    Expect::Reply => {}
                    Expect::Refusal(w) => self.r.count(&format!("light.replied_to_refusable.{kind}.{w}")),
                    Expect::Unprovable(w) => self.r.count(&format!("light.replied_to_unprovable.{kind}.{w}")),
                }
                v.first().cloned()
            }
        }
    }

    fn unparsable(&mut self, c: &Ctx, kind: &str, req: &Value, out: &Outcome, why: &str) {
        self.r.violation(
            &format!("light.{kind}.reply_not_decodable"),
            format!("the reply to {kind} cannot be decoded as the expected message: {why}"),
            self.wit(c, req, out, json!({})),
        );
    }

    /// Tip-state form: only `last_header`, everything else empty.
    #[allow(clippy::too_many_arguments)]
    fn judge_tip_state_empty(&mut self, c: &Ctx, kind: &str, lclass: LastClass, n_proof: usize, n_items: usize, n_missing: usize, req: &Value, out: &Outcome) {
        self.r.eval();
        self.r.count("light.tip_state_replies");
        self.r.count(&format!("light.tip_state_replies.{kind}"));
        if n_proof + n_items + n_missing != 0 {
            self.r.violation(
                &format!("light.{kind}.tip_state_reply_carries_items@last_hash_{}", lclass.s()),
                format!("last_hash is not on the main chain, the reply must be the tip state only; it carries {n_proof} proof items, {n_items} proved items, {n_missing} missing items"),
                self.wit(c, req, out, json!({})),
            );
        }
    }

    // -----------------------------------------------------------------------------------
    // GetLastState

    fn get_last_state(&mut self, n: &Node, v: &View, c: &Ctx, rng: &mut Rng) {
        let subscribe = rng.bool();
        let content = packed::GetLastState::new_builder().subscribe(subscribe).build();
        let msg = packed::LightClientMessage::new_builder().set(content).build();
        let req = json!({"kind": "GetLastState", "subscribe": subscribe});
        self.r.count("light.req.GetLastState");
        let out = self.call(n, msg.as_bytes());
        let kind = "last_state";
        let Some(data) = self.settle(c, kind, LastClass::Tip, Expect::Reply, "valid_request", &req, &out) else { return };
        let parsed = packed::LightClientMessageReader::from_compatible_slice(&data).ok().and_then(|m| match m.to_enum() {
            packed::LightClientMessageUnionReader::SendLastState(s) => Some(s.to_entity()),
            _ => None,
        });
        let Some(s) = parsed else {
            self.unparsable(c, kind, &req, &out, "not a SendLastState");
            return;
        };
        // the "requested" last block of GetLastState is the tip itself
        let tip = v.tip;
        if self.judge_last_header(v, c, kind, LastClass::Tip, &tip, &s.last_header(), &req, &out).is_some() {
            self.r.count("light.replies_verified");
            self.r.count("light.replies_verified.last_state");
            self.r.distinct_str(&format!("light:last_state:{}", if v.abandoned.is_empty() { "linear" } else { "after_reorg" }));
        }
    }
}


// ---------------------------------------------------------------------------------------
// concurrent episode: GetLastState requests answered while the chain reorganises

/// Raw GetLastState round trip on the calling thread (own protocol object and runtime); used by
/// the poller thread of the concurrent episode. None = no reply (ban / silence / panic).
pub fn raw_last_state(shared: &ckb_shared::Shared, rt: &tokio::runtime::Runtime) -> Result<Option<Bytes>, String> {
    let ctx = Arc::new(RecCtx::new());
    let nc: Arc<dyn CKBProtocolContext + Sync> = ctx.clone();
    let mut proto = LightClientProtocol::new(shared.clone());
    let content = packed::GetLastState::new_builder().subscribe(false).build();
    let msg = packed::LightClientMessage::new_builder().set(content).build();
    let res = catch_unwind(AssertUnwindSafe(|| rt.block_on(proto.received(nc, PeerIndex::new(9), msg.as_bytes()))));
    if let Err(p) = res {
        let msg = p.downcast_ref::<&str>().map(|s| s.to_string()).or_else(|| p.downcast_ref::<String>().cloned()).unwrap_or_default();
        return Err(msg);
    }
    let sent = ctx.sent.lock().unwrap().clone();
    Ok(sent.into_iter().next())
}

/// Raw GetBlocksProof round trip on the calling thread: `last_hash` is the tip the caller sees
/// right now, the requested blocks are up to three of its ancestors.
pub fn raw_blocks_proof(shared: &ckb_shared::Shared, rt: &tokio::runtime::Runtime, salt: u64) -> Result<Option<Bytes>, String> {
    use ckb_store::ChainStore;
    let (last, wanted) = {
        let snap = shared.snapshot();
        let tip_n = snap.tip_number();
        if tip_n < 2 {
            return Ok(None);
        }
        let mut wanted = vec![];
        for n in [1 + salt % (tip_n - 1), tip_n - 1, 1 + (salt / 7) % (tip_n - 1)] {
            if let Some(x) = snap.get_block_hash(n) {
                if !wanted.contains(&x) {
                    wanted.push(x);
                }
            }
        }
        (snap.tip_hash(), wanted)
    };
    let ctx = Arc::new(RecCtx::new());
    let nc: Arc<dyn CKBProtocolContext + Sync> = ctx.clone();
    let mut proto = LightClientProtocol::new(shared.clone());
    let content = packed::GetBlocksProof::new_builder().last_hash(last).block_hashes(wanted).build();
    let msg = packed::LightClientMessage::new_builder().set(content).build();
    let res = catch_unwind(AssertUnwindSafe(|| rt.block_on(proto.received(nc, PeerIndex::new(9), msg.as_bytes()))));
    if let Err(p) = res {
        let msg = p.downcast_ref::<&str>().map(|s| s.to_string()).or_else(|| p.downcast_ref::<String>().cloned()).unwrap_or_default();
        return Err(msg);
    }
    let sent = ctx.sent.lock().unwrap().clone();
    Ok(sent.into_iter().next())
}

impl Light {
    /// Judge the GetBlocksProof replies of the poller thread: whatever chain the handler saw, the
    /// reply must be consistent in itself: `last_header` was the tip at some moment, its chain
    /// root / extension are those of that block on its own chain, every proved header is an
    /// ancestor of it and the MMR proof verifies against the model root of that chain.
    pub fn judge_concurrent_blocks_proofs(&mut self, rc: &RefChain, delivered: &HashSet<H>, acceptable: &HashSet<H>, replies: Vec<Result<Option<Bytes>, String>>, c: &Ctx) {
        let kind = "blocks_proof_during_reorg";
        let req = json!({"kind": "GetBlocksProof", "last_hash": "the tip the requester saw", "concurrent_with": "block deliveries that reorganise the chain"});
        let mut views: HashMap<H, View> = HashMap::new();
        for rep in replies {
            self.r.count("light.concurrent.blocks_proof_requests");
            self.r.eval();
            let data = match rep {
                Err(m) => {
                    let out = Outcome::Panic(m.clone());
                    self.r.violation(&Self::panic_sig(kind, "valid_request", &m), format!("GetBlocksProof handler panicked while the chain was reorganising: {m}"), self.wit(c, &req, &out, json!({})));
                    continue;
                }
                Ok(None) => continue,
                Ok(Some(d)) => d,
            };
            let out = Outcome::Replies(vec![data.clone()]);
            let rep = match decode_blocks_reply(&data) {
                Ok(r) => r,
                Err(e) => {
                    self.unparsable(c, kind, &req, &out, &e);
                    continue;
                }
            };
            let hash = blake2b_256(rep.last_header.header().as_slice());
            if !acceptable.contains(&hash) {
                self.r.violation(
                    &format!("light.{kind}.last_header_was_never_the_tip"),
                    format!("GetBlocksProof (last_hash = a tip) answered with last_header {} which was not the tip at any moment of the episode", hx(&hash)),
                    self.wit(c, &req, &out, json!({"acceptable_tips": acceptable.iter().map(hx).collect::<Vec<_>>() })),
                );
                continue;
            }
            let v = views.entry(hash).or_insert_with(|| View::build(rc, hash, delivered));
            let Some((lh, _)) = self.judge_last_header(v, c, kind, LastClass::Tip, &hash, &rep.last_header, &req, &out) else { continue };
            let mut leaves: Vec<(u64, Digest)> = vec![];
            let mut bad = false;
            for hd in &rep.headers {
                let hv = hd.clone().into_view();
                let hh = h(&hv.hash());
                match v.num_of.get(&hh) {
                    Some(&num) if num < lh.number => leaves.push((num, digest_of_header(&hv))),
                    _ => {
                        bad = true;
                        self.r.violation(
                            &format!("light.{kind}.proved_header_not_an_ancestor_of_last_header"),
                            format!("proved header {} is not a main-chain block below last_header {}#{} on that block's own chain", hx(&hh), hx(&lh.hash), lh.number),
                            self.wit(c, &req, &out, json!({})),
                        );
                    }
                }
            }
            if bad {
                continue;
            }
            if !leaves.is_empty() {
                self.r.count("light.concurrent.blocks_proofs_with_items");
            }
            self.judge_proof(v, c, kind, LastClass::Tip, &lh, &rep.proof, leaves, &req, &out);
            self.r.count("light.concurrent.blocks_proof_replies_judged");
        }
    }

    /// Judge the replies a poller thread collected while blocks were delivered: each must name a
    /// block that was the tip at some moment of the episode (`acceptable`), and its chain root,
    /// extension and every other field must be those of that block on its own chain (model view
    /// built with that block as the tip).
    pub fn judge_concurrent_last_states(&mut self, rc: &RefChain, delivered: &HashSet<H>, acceptable: &HashSet<H>, replies: Vec<Result<Option<Bytes>, String>>, c: &Ctx) {
        let kind = "last_state_during_reorg";
        let req = json!({"kind": "GetLastState", "concurrent_with": "block deliveries that reorganise the chain"});
        let mut views: HashMap<H, View> = HashMap::new();
        let mut distinct_tips: HashSet<H> = HashSet::new();
        for rep in replies {
            self.r.count("light.concurrent.requests");
            self.r.eval();
            let data = match rep {
                Err(m) => {
                    let out = Outcome::Panic(m.clone());
                    self.r.violation(&Self::panic_sig(kind, "valid_request", &m), format!("GetLastState handler panicked while the chain was reorganising: {m}"), self.wit(c, &req, &out, json!({})));
                    continue;
                }
                Ok(None) => {
                    let out = Outcome::Nothing;
                    self.r.violation(&format!("light.{kind}.no_reply_to_valid_request"), "GetLastState got no reply while the chain was reorganising".into(), self.wit(c, &req, &out, json!({})));
                    continue;
                }
                Ok(Some(d)) => d,
            };
            let out = Outcome::Replies(vec![data.clone()]);
            let parsed = packed::LightClientMessageReader::from_compatible_slice(&data).ok().and_then(|m| match m.to_enum() {
                packed::LightClientMessageUnionReader::SendLastState(s) => Some(s.to_entity()),
                _ => None,
            });
            let Some(st) = parsed else {
                self.unparsable(c, kind, &req, &out, "not a SendLastState");
                continue;
            };
            let vh = st.last_header();
            let hash = blake2b_256(vh.header().as_slice());
            if !acceptable.contains(&hash) {
                self.r.violation(
                    &format!("light.{kind}.last_header_was_never_the_tip"),
                    format!("GetLastState answered with header {} which was not the tip at any moment of the episode", hx(&hash)),
                    self.wit(c, &req, &out, json!({"acceptable_tips": acceptable.iter().map(hx).collect::<Vec<_>>() })),
                );
                continue;
            }
            let v = views.entry(hash).or_insert_with(|| View::build(rc, hash, delivered));
            if self.judge_last_header(v, c, kind, LastClass::Tip, &hash, &vh, &req, &out).is_some() {
                self.r.count("light.concurrent.replies_verified");
                distinct_tips.insert(hash);
            }
        }
        self.r.count_n("light.concurrent.distinct_tips_served_in_episodes", distinct_tips.len() as u64);
        if distinct_tips.len() >= 2 {
            self.r.count("light.concurrent.episodes_with_replies_on_both_sides_of_a_tip_change");
        }
    }
}

// ---------------------------------------------------------------------------------------
// choice of `last_hash`

fn random_hash(rng: &mut Rng) -> H {
    let mut x = [0u8; 32];
    x.copy_from_slice(&rng.bytes(32));
    x
}

fn pick_last(v: &View, rng: &mut Rng) -> (H, LastClass) {
    let t = v.tip_number();
    for _ in 0..8 {
        let k = rng.below(100);
        if k < 24 {
            return (v.tip, if t == 0 { LastClass::Genesis } else { LastClass::Tip });
        } else if k < 50 {
            if t >= 2 {
                let n = 1 + rng.below(t - 1);
                return (v.chain[n as usize], LastClass::MainOld);
            }
        } else if k < 54 {
            return (v.chain[0], LastClass::Genesis);
        } else if k < 84 {
            if !v.abandoned.is_empty() {
                // prefer the heads of abandoned branches (what a client following the old branch knows)
                let x = if rng.bool() { *v.abandoned.last().unwrap() } else { *rng.pick(&v.abandoned) };
                return (x, LastClass::Abandoned);
            }
        } else {
            return (random_hash(rng), LastClass::Unknown);
        }
    }
    (v.tip, if t == 0 { LastClass::Genesis } else { LastClass::Tip })
}

// ---------------------------------------------------------------------------------------
// GetBlocksProof

#[derive(Clone, Copy, PartialEq, Eq, PartialOrd, Ord, Debug)]
enum ItemClass {
    MainBelow,
    MainAtOrAbove,
    Abandoned,
    Unknown,
}

impl ItemClass {
    fn s(&self) -> &'static str {
        match self {
            ItemClass::MainBelow => "main_below_last",
            ItemClass::MainAtOrAbove => "main_at_or_above_last",
            ItemClass::Abandoned => "abandoned",
            ItemClass::Unknown => "unknown",
        }
    }
}

struct BlocksReply {
    last_header: packed::VerifiableHeader,
    proof: packed::HeaderDigestVec,
    headers: Vec<packed::Header>,
    missing: Vec<H>,
    /// V1 fields
    uncles: Option<Vec<H>>,
    exts: Option<Vec<Option<Vec<u8>>>>,
}

fn decode_blocks_reply(data: &[u8]) -> Result<BlocksReply, String> {
    let m = packed::LightClientMessageReader::from_compatible_slice(data).map_err(|e| e.to_string())?;
    let packed::LightClientMessageUnionReader::SendBlocksProof(item) = m.to_enum() else {
        return Err(format!("union item {}", m.to_enum().item_name()));
    };
    let raw = item.as_slice();
    if let Ok(v1) = packed::SendBlocksProofV1::from_slice(raw) {
        return Ok(BlocksReply {
            last_header: v1.last_header(),
            proof: v1.proof(),
            headers: v1.headers().into_iter().collect(),
            missing: v1.missing_block_hashes().into_iter().map(|x| h(&x)).collect(),
            uncles: Some(v1.blocks_uncles_hash().into_iter().map(|x| h(&x)).collect()),
            exts: Some(v1.blocks_extension().into_iter().map(|o| o.to_opt().map(|b| b.raw_data().to_vec())).collect()),
        });
    }
    let v0 = packed::SendBlocksProof::from_slice(raw).map_err(|e| e.to_string())?;
    Ok(BlocksReply {
        last_header: v0.last_header(),
        proof: v0.proof(),
        headers: v0.headers().into_iter().collect(),
        missing: v0.missing_block_hashes().into_iter().map(|x| h(&x)).collect(),
        uncles: None,
        exts: None,
    })
}

/// number of the `last` block the item classes are relative to: a request whose last_hash is not
/// on the main chain is answered with the tip state, nothing is proved
fn last_number(v: &View, last: &H) -> Option<u64> {
    v.num_of.get(last).copied()
}

fn class_set(classes: &[ItemClass]) -> String {
    let s: BTreeSet<&'static str> = classes.iter().map(|c| c.s()).collect();
    s.into_iter().collect::<Vec<_>>().join("+")
}

impl Light {
    fn get_blocks_proof(&mut self, n: &Node, v: &View, c: &Ctx, rng: &mut Rng) {
        let kind = "blocks_proof";
        let (last, lclass) = pick_last(v, rng);
        let l_num = last_number(v, &last);
        let t = v.tip_number();
        let variant = match rng.below(100) {
            0..=4 => "duplicate",
            5..=7 => "empty",
            8..=9 => "over_limit",
            10..=15 => "everything",
            _ => "normal",
        };
        let mut items: Vec<H> = vec![];
        let classify = |x: &H| -> ItemClass {
            match v.num_of.get(x) {
                Some(num) => match l_num {
                    Some(l) if *num >= l => ItemClass::MainAtOrAbove,
                    _ => ItemClass::MainBelow,
                },
                None if v.rc.contains(x) => ItemClass::Abandoned,
                None => ItemClass::Unknown,
            }
        };
        match variant {
            "empty" => {}
            "over_limit" => {
                for _ in 0..1001 {
                    items.push(random_hash(rng));
                }
                if t >= 1 {
                    items[0] = v.chain[0];
                }
            }
            "everything" => {
                let l = l_num.unwrap_or(t + 1);
                items.extend(v.chain.iter().take(l as usize).cloned());
                items.extend(v.abandoned.iter().take(400).cloned());
                for _ in 0..rng.below(4) {
                    items.push(random_hash(rng));
                }
                rng.shuffle(&mut items);
            }
            _ => {
                let k = if rng.chance(1, 8) { 7 + rng.usize_below(14) } else { 1 + rng.usize_below(6) };
                for _ in 0..k {
                    let r = rng.below(100);
                    let x = if r < 50 {
                        let l = l_num.unwrap_or(t + 1);
                        if l > 0 && (rng.chance(88, 100) || l > t) {
                            v.chain[rng.below(l) as usize]
                        } else if l < t {
                            // above `last` (never `last` itself: that is the duplicate variant)
                            v.chain[(l + 1 + rng.below(t - l)) as usize]
                        } else {
                            continue;
                        }
                    } else if r < 80 && !v.abandoned.is_empty() {
                        *rng.pick(&v.abandoned)
                    } else {
                        random_hash(rng)
                    };
                    if x != last && !items.contains(&x) {
                        items.push(x);
                    }
                }
                if items.is_empty() {
                    items.push(random_hash(rng));
                }
                if variant == "duplicate" {
                    if rng.bool() {
                        let d = *rng.pick(&items);
                        items.push(d);
                    } else {
                        items.push(last);
                    }
                    rng.shuffle(&mut items);
                }
            }
        }
        let classes: Vec<ItemClass> = items.iter().map(&classify).collect();
        let content = packed::GetBlocksProof::new_builder()
            .last_hash(b32(&last))
            .block_hashes(packed::Byte32Vec::new_builder().set(items.iter().map(b32).collect()).build())
            .build();
        let msg = packed::LightClientMessage::new_builder().set(content).build();
        let req = json!({
            "kind": "GetBlocksProof", "variant": variant,
            "last_hash": vbase::hex(&last), "last_class": lclass.s(), "last_number": l_num,
            "tip": format!("{}#{}", hx(&v.tip), t),
            "items": items.iter().zip(&classes).take(40).map(|(x, cl)| format!("{}:{}{}", hx(x), cl.s(), v.rc.blocks.get(x).map(|b| format!("#{}", b.number)).unwrap_or_default())).collect::<Vec<_>>(),
            "n_items": items.len(),
        });
        self.r.count("light.req.GetBlocksProof");
        self.r.count(&format!("light.req.GetBlocksProof.variant.{variant}"));
        self.r.count(&format!("light.last_class.{}", lclass.s()));
        self.r.count(&format!("light.req.GetBlocksProof.last.{}", lclass.s()));
        if variant != "over_limit" {
            for cl in &classes {
                self.r.count(&format!("light.items.block.{}", cl.s()));
            }
        }
        // expectation (order of the protocol's checks: size limits, last_hash, duplicates)
        let has_dup = {
            let mut s = HashSet::new();
            !items.iter().chain([last].iter()).all(|x| s.insert(*x))
        };
        let exp = if items.is_empty() {
            Expect::Refusal("no_items")
        } else if items.len() > 1000 {
            Expect::Refusal("over_limit")
        } else if has_dup {
            // (the server answers with the tip state when last_hash is not on the main chain and
            // bans otherwise; both are acceptable for a request that names a hash twice)
            Expect::Refusal("duplicate_hash")
        } else if l_num.is_none() {
            Expect::Reply
        } else if classes.contains(&ItemClass::MainAtOrAbove) {
            Expect::Unprovable("item_at_or_above_last")
        } else {
            Expect::Reply
        };
        let cause = match exp {
            Expect::Refusal(w) => w,
            _ if lclass == LastClass::Genesis => "last_hash_genesis",
            Expect::Unprovable(w) => w,
            Expect::Reply => "valid_request",
        };
        let out = self.call(n, msg.as_bytes());
        let Some(data) = self.settle(c, kind, lclass, exp, cause, &req, &out) else { return };
        let rep = match decode_blocks_reply(&data) {
            Ok(x) => x,
            Err(e) => {
                self.unparsable(c, kind, &req, &out, &e);
                return;
            }
        };
        let Some((lh, tip_state)) = self.judge_last_header(v, c, kind, lclass, &last, &rep.last_header, &req, &out) else { return };
        if tip_state {
            self.judge_tip_state_empty(c, kind, lclass, rep.proof.len(), rep.headers.len(), rep.missing.len(), &req, &out);
            self.r.count("light.replies_verified");
            self.r.count("light.replies_verified.blocks_proof");
            self.r.distinct_str(&format!("light:{kind}:{}:{}:tip_state", lclass.s(), class_set(&classes)));
            return;
        }
        // check 3: returned / missing sets
        let requested: HashSet<H> = items.iter().cloned().collect();
        let mut returned: Vec<(H, u64)> = vec![];
        let mut leaves: Vec<(u64, Digest)> = vec![];
        let mut bad = false;
        self.r.eval();
        for (i, hd) in rep.headers.iter().enumerate() {
            let hv = hd.clone().into_view();
            let x = blake2b_256(hd.as_slice());
            let cl = classify(&x);
            if !requested.contains(&x) {
                bad = true;
                self.r.violation(
                    "light.blocks_proof.returned_block_not_requested",
                    format!("proved header {}#{} was not requested", hx(&x), hv.number()),
                    self.wit(c, &req, &out, json!({})),
                );
                continue;
            }
            if cl != ItemClass::MainBelow {
                bad = true;
                self.r.violation(
                    &format!("light.blocks_proof.returned_block_is_{}@last_hash_{}", cl.s(), lclass.s()),
                    format!("header {}#{} ({}) is served as proved below last {}#{}", hx(&x), hv.number(), cl.s(), hx(&lh.hash), lh.number),
                    self.wit(c, &req, &out, json!({"block": vbase::hex(&x)})),
                );
                continue;
            }
            if returned.iter().any(|r| r.0 == x) {
                bad = true;
                self.r.violation("light.blocks_proof.block_returned_twice", format!("header {} returned twice", hx(&x)), self.wit(c, &req, &out, json!({})));
                continue;
            }
            let num = v.num_of[&x];
            let block = &v.rc.get(&x).block;
            if let (Some(u), Some(e)) = (&rep.uncles, &rep.exts) {
                let m_ext: Option<Vec<u8>> = block.extension().map(|b| b.raw_data().to_vec());
                if u.get(i) != Some(&own_uncles_hash(block)) || e.get(i) != Some(&m_ext) {
                    bad = true;
                    self.r.violation(
                        "light.blocks_proof.uncles_hash_or_extension_differs_from_block",
                        format!("blocks_uncles_hash / blocks_extension entry {i} does not belong to header {}#{}", hx(&x), num),
                        self.wit(c, &req, &out, json!({})),
                    );
                }
            } else {
                bad = true;
                self.r.violation("light.blocks_proof.v1_fields_absent", "proof reply without blocks_uncles_hash / blocks_extension".into(), self.wit(c, &req, &out, json!({})));
            }
            returned.push((x, num));
            leaves.push((num, digest_of_header(&hv)));
        }
        if let (Some(u), Some(e)) = (&rep.uncles, &rep.exts) {
            if u.len() != rep.headers.len() || e.len() != rep.headers.len() {
                bad = true;
                self.r.violation(
                    "light.blocks_proof.v1_field_lengths_differ",
                    format!("{} headers, {} uncles hashes, {} extensions", rep.headers.len(), u.len(), e.len()),
                    self.wit(c, &req, &out, json!({})),
                );
            }
        }
        let returned_set: HashSet<H> = returned.iter().map(|r| r.0).collect();
        let missing_set: HashSet<H> = rep.missing.iter().cloned().collect();
        if missing_set.len() != rep.missing.len() {
            bad = true;
            self.r.violation("light.blocks_proof.missing_hash_listed_twice", "duplicate entries in missing_block_hashes".into(), self.wit(c, &req, &out, json!({})));
        }
        for x in &rep.missing {
            let cl = classify(x);
            if !requested.contains(x) {
                bad = true;
                self.r.violation("light.blocks_proof.missing_hash_not_requested", format!("missing_block_hashes lists {} which was not requested", hx(x)), self.wit(c, &req, &out, json!({})));
            } else if cl == ItemClass::MainBelow {
                bad = true;
                self.r.violation(
                    &format!("light.blocks_proof.main_chain_block_listed_as_missing@last_hash_{}", lclass.s()),
                    format!("main-chain block {}#{} (below last #{}) is reported as missing", hx(x), v.num_of[x], lh.number),
                    self.wit(c, &req, &out, json!({"block": vbase::hex(x)})),
                );
            }
        }
        for (x, cl) in items.iter().zip(&classes) {
            match cl {
                ItemClass::MainBelow => {
                    if !returned_set.contains(x) && !missing_set.contains(x) {
                        bad = true;
                        self.r.violation(
                            &format!("light.blocks_proof.main_chain_block_neither_proved_nor_missing@last_hash_{}", lclass.s()),
                            format!("requested main-chain block {}#{} is not in the reply", hx(x), v.num_of[x]),
                            self.wit(c, &req, &out, json!({"block": vbase::hex(x)})),
                        );
                    }
                }
                ItemClass::Abandoned | ItemClass::Unknown => {
                    if !missing_set.contains(x) {
                        bad = true;
                        self.r.violation(
                            &format!("light.blocks_proof.{}_block_not_listed_as_missing@last_hash_{}", cl.s(), lclass.s()),
                            format!("requested block {} ({}) is not on the main chain but is not reported as missing", hx(x), cl.s()),
                            self.wit(c, &req, &out, json!({"block": vbase::hex(x)})),
                        );
                    }
                }
                ItemClass::MainAtOrAbove => {}
            }
        }
        self.r.count_n("light.items_proved.block", returned.len() as u64);
        self.r.count_n("light.items_missing.block", rep.missing.len() as u64);
        self.judge_proof(v, c, kind, lclass, &lh, &rep.proof, leaves, &req, &out);
        if !bad {
            self.r.count("light.replies_verified");
            self.r.count("light.replies_verified.blocks_proof");
        }
        self.r.distinct_str(&format!("light:{kind}:{}:{}:proof", lclass.s(), class_set(&classes)));
        if self.r.samples.len() < 3 && returned.len() >= 2 && !rep.missing.is_empty() {
            self.r.sample(json!({"kind": "GetBlocksProof", "session": c.si, "last": format!("{}#{} ({})", hx(&lh.hash), lh.number, lclass.s()),
                "proved_numbers": returned.iter().map(|r| r.1).collect::<Vec<_>>(), "missing": rep.missing.len(), "proof_items": rep.proof.len()}));
        }
    }
}

// ---------------------------------------------------------------------------------------
// GetTransactionsProof

struct TxsReply {
    last_header: packed::VerifiableHeader,
    proof: packed::HeaderDigestVec,
    blocks: Vec<packed::FilteredBlock>,
    missing: Vec<H>,
    uncles: Option<Vec<H>>,
    exts: Option<Vec<Option<Vec<u8>>>>,
}

fn decode_txs_reply(data: &[u8]) -> Result<TxsReply, String> {
    let m = packed::LightClientMessageReader::from_compatible_slice(data).map_err(|e| e.to_string())?;
    let packed::LightClientMessageUnionReader::SendTransactionsProof(item) = m.to_enum() else {
        return Err(format!("union item {}", m.to_enum().item_name()));
    };
    let raw = item.as_slice();
    if let Ok(v1) = packed::SendTransactionsProofV1::from_slice(raw) {
        return Ok(TxsReply {
            last_header: v1.last_header(),
            proof: v1.proof(),
            blocks: v1.filtered_blocks().into_iter().collect(),
            missing: v1.missing_tx_hashes().into_iter().map(|x| h(&x)).collect(),
            uncles: Some(v1.blocks_uncles_hash().into_iter().map(|x| h(&x)).collect()),
            exts: Some(v1.blocks_extension().into_iter().map(|o| o.to_opt().map(|b| b.raw_data().to_vec())).collect()),
        });
    }
    let v0 = packed::SendTransactionsProof::from_slice(raw).map_err(|e| e.to_string())?;
    Ok(TxsReply {
        last_header: v0.last_header(),
        proof: v0.proof(),
        blocks: v0.filtered_blocks().into_iter().collect(),
        missing: v0.missing_tx_hashes().into_iter().map(|x| h(&x)).collect(),
        uncles: None,
        exts: None,
    })
}

impl Light {
    fn get_transactions_proof(&mut self, n: &Node, v: &View, c: &Ctx, rng: &mut Rng) {
        let kind = "txs_proof";
        let (last, lclass) = pick_last(v, rng);
        let l_num = last_number(v, &last);
        let t = v.tip_number();
        let variant = match rng.below(100) {
            0..=4 => "duplicate",
            5..=7 => "empty",
            8..=9 => "over_limit",
            10..=15 => "everything",
            _ => "normal",
        };
        let classify = |x: &H| -> ItemClass {
            match v.tx_main.get(x) {
                Some((num, _)) => match l_num {
                    Some(l) if *num >= l => ItemClass::MainAtOrAbove,
                    _ => ItemClass::MainBelow,
                },
                None if v.tx_abandoned_only.contains(x) => ItemClass::Abandoned,
                None => ItemClass::Unknown,
            }
        };
        let l = l_num.unwrap_or(t + 1);
        let below: Vec<&(H, u64, u32)> = v.tx_main_list.iter().filter(|x| x.1 < l).collect();
        let above: Vec<&(H, u64, u32)> = v.tx_main_list.iter().filter(|x| x.1 >= l).collect();
        // prefer non-cellbase transactions, and several transactions of one block
        let below_nc: Vec<&(H, u64, u32)> = below.iter().filter(|x| x.2 > 0).cloned().collect();
        let mut items: Vec<H> = vec![];
        match variant {
            "empty" => {}
            "over_limit" => {
                for _ in 0..1001 {
                    items.push(random_hash(rng));
                }
                if let Some(x) = below.first() {
                    items[0] = x.0;
                }
            }
            "everything" => {
                items.extend(below.iter().take(900).map(|x| x.0));
                items.extend(v.tx_abandoned_only.iter().take(90).cloned());
                items.push(random_hash(rng));
                rng.shuffle(&mut items);
            }
            _ => {
                let k = if rng.chance(1, 8) { 7 + rng.usize_below(14) } else { 1 + rng.usize_below(6) };
                for _ in 0..k {
                    let r = rng.below(100);
                    let x = if r < 55 {
                        if !below.is_empty() && (rng.chance(88, 100) || above.is_empty()) {
                            if !below_nc.is_empty() && rng.chance(60, 100) {
                                let p = *rng.pick(&below_nc);
                                // a sibling transaction of the same block as well
                                if rng.chance(40, 100) {
                                    if let Some(s) = below.iter().find(|y| y.1 == p.1 && y.0 != p.0) {
                                        if !items.contains(&s.0) {
                                            items.push(s.0);
                                        }
                                    }
                                }
                                p.0
                            } else {
                                rng.pick(&below).0
                            }
                        } else if !above.is_empty() {
                            rng.pick(&above).0
                        } else {
                            continue;
                        }
                    } else if r < 82 && !v.tx_abandoned_only.is_empty() {
                        *rng.pick(&v.tx_abandoned_only)
                    } else {
                        random_hash(rng)
                    };
                    if !items.contains(&x) {
                        items.push(x);
                    }
                }
                if items.is_empty() {
                    items.push(random_hash(rng));
                }
                if variant == "duplicate" {
                    // duplicate a provable transaction if there is one
                    let d = items.iter().find(|x| classify(x) == ItemClass::MainBelow).cloned().unwrap_or(items[0]);
                    // ... or the only transaction of a block (a one-leaf Merkle tree)
                    let lonely: Vec<H> = below
                        .iter()
                        .filter(|x| x.2 == 0 && v.rc.get(&v.chain[x.1 as usize]).block.transactions().len() == 1)
                        .map(|x| x.0)
                        .collect();
                    let d = if !lonely.is_empty() && rng.bool() { *rng.pick(&lonely) } else { d };
                    if !items.contains(&d) {
                        items.push(d);
                    }
                    items.push(d);
                    rng.shuffle(&mut items);
                }
            }
        }
        let classes: Vec<ItemClass> = items.iter().map(&classify).collect();
        let content = packed::GetTransactionsProof::new_builder()
            .last_hash(b32(&last))
            .tx_hashes(packed::Byte32Vec::new_builder().set(items.iter().map(b32).collect()).build())
            .build();
        let msg = packed::LightClientMessage::new_builder().set(content).build();
        let req = json!({
            "kind": "GetTransactionsProof", "variant": variant,
            "last_hash": vbase::hex(&last), "last_class": lclass.s(), "last_number": l_num,
            "tip": format!("{}#{}", hx(&v.tip), t),
            "items": items.iter().zip(&classes).take(40).map(|(x, cl)| format!("{}:{}{}", hx(x), cl.s(), v.tx_main.get(x).map(|b| format!("#{}.{}", b.0, b.1)).unwrap_or_default())).collect::<Vec<_>>(),
            "n_items": items.len(),
        });
        self.r.count("light.req.GetTransactionsProof");
        self.r.count(&format!("light.req.GetTransactionsProof.variant.{variant}"));
        self.r.count(&format!("light.last_class.{}", lclass.s()));
        self.r.count(&format!("light.req.GetTransactionsProof.last.{}", lclass.s()));
        if variant != "over_limit" {
            for cl in &classes {
                self.r.count(&format!("light.items.tx.{}", cl.s()));
            }
        }
        let dup_suffix = if variant == "duplicate" { "@duplicate_tx_hash_requested" } else { "" };
        let has_dup = {
            let mut s = HashSet::new();
            !items.iter().all(|x| s.insert(*x))
        };
        let exp = if items.is_empty() {
            Expect::Refusal("no_items")
        } else if items.len() > 1000 {
            Expect::Refusal("over_limit")
        } else if has_dup {
            Expect::Refusal("duplicate_hash")
        } else if l_num.is_none() {
            Expect::Reply
        } else if classes.contains(&ItemClass::MainAtOrAbove) {
            Expect::Unprovable("item_at_or_above_last")
        } else {
            Expect::Reply
        };
        let cause = match exp {
            Expect::Refusal(w) if w != "duplicate_hash" => w,
            _ if lclass == LastClass::Genesis => "last_hash_genesis",
            _ if has_dup => "duplicate_tx_hash",
            Expect::Refusal(w) => w,
            Expect::Unprovable(w) => w,
            Expect::Reply => "valid_request",
        };
        let out = self.call(n, msg.as_bytes());
        let Some(data) = self.settle(c, kind, lclass, exp, cause, &req, &out) else { return };
        let rep = match decode_txs_reply(&data) {
            Ok(x) => x,
            Err(e) => {
                self.unparsable(c, kind, &req, &out, &e);
                return;
            }
        };
        let Some((lh, tip_state)) = self.judge_last_header(v, c, kind, lclass, &last, &rep.last_header, &req, &out) else { return };
        if tip_state {
            self.judge_tip_state_empty(c, kind, lclass, rep.proof.len(), rep.blocks.len(), rep.missing.len(), &req, &out);
            self.r.count("light.replies_verified");
            self.r.count("light.replies_verified.txs_proof");
            self.r.distinct_str(&format!("light:{kind}:{}:{}:tip_state", lclass.s(), class_set(&classes)));
            return;
        }
        let requested: HashSet<H> = items.iter().cloned().collect();
        let mut bad = false;
        let mut returned_txs: HashSet<H> = HashSet::new();
        let mut blocks_seen: HashSet<H> = HashSet::new();
        let mut leaves: Vec<(u64, Digest)> = vec![];
        self.r.eval();
        for (bi, fb) in rep.blocks.iter().enumerate() {
            let hd = fb.header();
            let hv = hd.clone().into_view();
            let bh = blake2b_256(hd.as_slice());
            let Some(&num) = v.num_of.get(&bh) else {
                bad = true;
                self.r.violation(
                    &format!("light.txs_proof.filtered_block_not_on_main_chain@last_hash_{}", lclass.s()),
                    format!("filtered block {}#{} is not on the main chain", hx(&bh), hv.number()),
                    self.wit(c, &req, &out, json!({"block": vbase::hex(&bh)})),
                );
                continue;
            };
            if num >= lh.number {
                bad = true;
                self.r.violation(
                    &format!("light.txs_proof.filtered_block_not_below_last@last_hash_{}", lclass.s()),
                    format!("filtered block #{num} is served as proved below last #{}", lh.number),
                    self.wit(c, &req, &out, json!({})),
                );
                continue;
            }
            if !blocks_seen.insert(bh) {
                bad = true;
                self.r.violation("light.txs_proof.filtered_block_returned_twice", format!("block #{num} appears twice"), self.wit(c, &req, &out, json!({})));
                continue;
            }
            let block = &v.rc.get(&bh).block;
            if let (Some(u), Some(e)) = (&rep.uncles, &rep.exts) {
                let m_ext: Option<Vec<u8>> = block.extension().map(|b| b.raw_data().to_vec());
                if u.get(bi) != Some(&own_uncles_hash(block)) || e.get(bi) != Some(&m_ext) {
                    bad = true;
                    self.r.violation(
                        "light.txs_proof.uncles_hash_or_extension_differs_from_block",
                        format!("blocks_uncles_hash / blocks_extension entry {bi} does not belong to block #{num}"),
                        self.wit(c, &req, &out, json!({})),
                    );
                }
            } else {
                bad = true;
                self.r.violation("light.txs_proof.v1_fields_absent", "proof reply without blocks_uncles_hash / blocks_extension".into(), self.wit(c, &req, &out, json!({})));
            }
            // transactions of this filtered block
            let n_txs = block.transactions().len() as u32;
            let mut tx_hashes: Vec<H> = vec![];
            let mut want_idx: BTreeSet<u32> = BTreeSet::new();
            let mut tx_ok = true;
            for tx in fb.transactions().into_iter() {
                let th = blake2b_256(tx.raw().as_slice());
                self.r.eval();
                match v.tx_main.get(&th) {
                    Some((tn, ti)) if *tn == num => {
                        want_idx.insert(*ti);
                    }
                    _ => {
                        tx_ok = false;
                        bad = true;
                        self.r.violation(
                            &format!("light.txs_proof.transaction_not_in_the_main_chain_block_it_is_served_with@last_hash_{}", lclass.s()),
                            format!("transaction {} is served inside filtered block #{num} but the model does not have it there ({})", hx(&th), classify(&th).s()),
                            self.wit(c, &req, &out, json!({"tx": vbase::hex(&th)})),
                        );
                    }
                }
                if !requested.contains(&th) {
                    tx_ok = false;
                    bad = true;
                    self.r.violation("light.txs_proof.returned_transaction_not_requested", format!("transaction {} was not requested", hx(&th)), self.wit(c, &req, &out, json!({})));
                }
                if !returned_txs.insert(th) {
                    tx_ok = false;
                    if variant == "duplicate" {
                        // requested twice, served twice: judged through the Merkle proof below
                        self.r.count("light.txs_proof.duplicate_request_served_twice");
                    } else {
                        bad = true;
                        self.r.violation(
                            "light.txs_proof.transaction_returned_twice",
                            format!("transaction {} is served twice", hx(&th)),
                            self.wit(c, &req, &out, json!({"tx": vbase::hex(&th)})),
                        );
                    }
                }
                tx_hashes.push(th);
            }
            if tx_hashes.is_empty() {
                bad = true;
                self.r.violation("light.txs_proof.filtered_block_without_transactions", format!("filtered block #{num} carries no transaction"), self.wit(c, &req, &out, json!({})));
                continue;
            }
            // the transactions Merkle proof, evaluated by the harness
            let indices: Vec<u32> = fb.proof().indices().into_iter().map(|i| i.into()).collect();
            let lemmas: Vec<H> = fb.proof().lemmas().into_iter().map(|x| h(&x)).collect();
            let raw_root = cbmt_root(&indices, &lemmas, &tx_hashes);
            let tx_root = raw_root.map(|r| merge32(&r, &h(&fb.witnesses_root())));
            let idx_ok = {
                let got: BTreeSet<u32> = indices.iter().filter_map(|i| (i + 1).checked_sub(n_txs)).collect();
                got == want_idx && indices.len() == want_idx.len()
            };
            self.r.eval();
            if tx_root != Some(h(&hv.transactions_root())) || (tx_ok && !idx_ok) {
                bad = true;
                self.r.violation(
                    &format!("light.txs_proof.transactions_merkle_proof_does_not_verify{dup_suffix}"),
                    format!(
                        "filtered block #{num}: {} transaction(s), proof indices {indices:?} ({} lemmas) evaluate to {:?}, header transactions_root is {}; indices match the model's positions {want_idx:?} of {n_txs} transactions: {idx_ok}",
                        tx_hashes.len(), lemmas.len(), tx_root.map(|x| vbase::hex(&x)), vbase::hex(hv.transactions_root().as_slice())
                    ),
                    self.wit(c, &req, &out, json!({"block_number": num})),
                );
            } else {
                self.r.count("light.tx_merkle_proofs_verified");
            }
            leaves.push((num, digest_of_header(&hv)));
        }
        if let (Some(u), Some(e)) = (&rep.uncles, &rep.exts) {
            if u.len() != rep.blocks.len() || e.len() != rep.blocks.len() {
                bad = true;
                self.r.violation(
                    "light.txs_proof.v1_field_lengths_differ",
                    format!("{} filtered blocks, {} uncles hashes, {} extensions", rep.blocks.len(), u.len(), e.len()),
                    self.wit(c, &req, &out, json!({})),
                );
            }
        }
        let missing_set: HashSet<H> = rep.missing.iter().cloned().collect();
        for x in &rep.missing {
            if !requested.contains(x) {
                bad = true;
                self.r.violation("light.txs_proof.missing_hash_not_requested", format!("missing_tx_hashes lists {} which was not requested", hx(x)), self.wit(c, &req, &out, json!({})));
            } else if classify(x) == ItemClass::MainBelow {
                bad = true;
                self.r.violation(
                    &format!("light.txs_proof.main_chain_transaction_listed_as_missing@last_hash_{}", lclass.s()),
                    format!("transaction {} committed in main-chain block #{} (below last #{}) is reported as missing", hx(x), v.tx_main[x].0, lh.number),
                    self.wit(c, &req, &out, json!({"tx": vbase::hex(x)})),
                );
            }
        }
        for (x, cl) in items.iter().zip(&classes) {
            match cl {
                ItemClass::MainBelow => {
                    if !returned_txs.contains(x) && !missing_set.contains(x) {
                        bad = true;
                        self.r.violation(
                            &format!("light.txs_proof.main_chain_transaction_neither_proved_nor_missing@last_hash_{}", lclass.s()),
                            format!("requested main-chain transaction {} (block #{}) is not in the reply", hx(x), v.tx_main[x].0),
                            self.wit(c, &req, &out, json!({"tx": vbase::hex(x)})),
                        );
                    }
                }
                ItemClass::Abandoned | ItemClass::Unknown => {
                    if !missing_set.contains(x) {
                        bad = true;
                        self.r.violation(
                            &format!("light.txs_proof.{}_transaction_not_listed_as_missing@last_hash_{}", cl.s(), lclass.s()),
                            format!("requested transaction {} ({}) is not committed on the main chain but is not reported as missing", hx(x), cl.s()),
                            self.wit(c, &req, &out, json!({"tx": vbase::hex(x)})),
                        );
                    }
                }
                ItemClass::MainAtOrAbove => {}
            }
        }
        self.r.count_n("light.items_proved.tx", returned_txs.len() as u64);
        self.r.count_n("light.items_missing.tx", rep.missing.len() as u64);
        self.judge_proof(v, c, kind, lclass, &lh, &rep.proof, leaves, &req, &out);
        if !bad {
            self.r.count("light.replies_verified");
            self.r.count("light.replies_verified.txs_proof");
        }
        self.r.distinct_str(&format!("light:{kind}:{}:{}:proof", lclass.s(), class_set(&classes)));
    }
}

// ---------------------------------------------------------------------------------------
// GetLastStateProof

struct LspReq {
    last: H,
    start_hash: H,
    start_number: u64,
    last_n: u64,
    boundary: U256,
    difficulties: Vec<U256>,
}

enum LspExpect {
    Refusal(&'static str),
    Unprovable(&'static str),
    /// block numbers whose headers have to be served, in ascending order
    Numbers { reorg: Vec<u64>, sampled: Vec<u64>, last_n: Vec<u64> },
}

/// The protocol's sampling rule evaluated on the model chain with linear scans.
fn lsp_model(v: &View, l: u64, q: &LspReq) -> LspExpect {
    if (q.difficulties.len() as u128) + (q.last_n as u128) * 2 > 1000 {
        return LspExpect::Refusal("over_limit");
    }
    let s = q.start_number;
    if s > l {
        return LspExpect::Unprovable("start_above_last");
    }
    if q.difficulties.windows(2).any(|d| d[0] >= d[1]) {
        return LspExpect::Refusal("difficulties_not_increasing");
    }
    if q.difficulties.last().map(|d| *d >= q.boundary).unwrap_or(false) {
        return LspExpect::Refusal("difficulty_not_below_boundary");
    }
    if let Some(first) = q.difficulties.first() {
        if s > 0 && v.td[s as usize - 1] >= *first {
            return LspExpect::Refusal("first_difficulty_not_above_start");
        }
    }
    let n = q.last_n;
    let reorg: Vec<u64> = if s == 0 || v.chain[s as usize] == q.start_hash { vec![] } else { (s - s.min(n)..s).collect() };
    if l - s <= n {
        return LspExpect::Numbers { reorg, sampled: vec![], last_n: (s..l).collect() };
    }
    let Some(mut b) = (s..l).find(|i| v.td[*i as usize] >= q.boundary) else {
        return LspExpect::Refusal("boundary_not_in_range");
    };
    if l - b < n {
        b = l - n;
    }
    let mut sampled: Vec<u64> = vec![];
    if b > 0 {
        let cap = &v.td[b as usize - 1];
        for d in q.difficulties.iter().take_while(|d| *d <= cap) {
            if let Some(i) = (s..b).find(|i| v.td[*i as usize] >= *d) {
                if sampled.last() != Some(&i) {
                    sampled.push(i);
                }
            }
        }
    }
    LspExpect::Numbers { reorg, sampled, last_n: (b..l).collect() }
}

impl Light {
    fn get_last_state_proof(&mut self, n: &Node, v: &View, c: &Ctx, rng: &mut Rng) {
        let kind = "last_state_proof";
        let (last, lclass) = pick_last(v, rng);
        let l_num = last_number(v, &last);
        let t = v.tip_number();
        let l = l_num.unwrap_or(t);
        // start
        let s: u64 = match rng.below(100) {
            0..=24 => 0,
            25..=69 => rng.below(l + 1),
            70..=77 => l.saturating_sub(1),
            78..=83 => l,
            84..=89 => 1.min(l),
            90..=94 => l + 1 + rng.below(3),
            _ => t + 2 + rng.below(1000),
        };
        let start_on_chain = rng.chance(62, 100);
        let start_hash = if s <= t && start_on_chain {
            v.chain[s as usize]
        } else {
            // a block of an abandoned branch at that height if there is one (what a client that
            // followed the other branch has), else an unknown hash
            v.abandoned.iter().find(|x| v.rc.get(x).number == s).cloned().unwrap_or_else(|| random_hash(rng))
        };
        let last_n: u64 = match rng.below(100) {
            0..=9 => 0,
            10..=24 => 1,
            25..=59 => 1 + rng.below(6),
            60..=79 => rng.below(l + 3),
            80..=84 => 499,
            85..=89 => 500,
            90..=92 => 501,
            93..=94 => 1u64 << 62,
            95..=96 => 1u64 << 63,
            97..=98 => u64::MAX,
            _ => (1u64 << 63) - 1,
        };
        // difficulties and boundary, taken around the model's total difficulties in [s, l)
        let one = U256::one();
        let td_at = |i: u64| v.td[(i.min(t)) as usize].clone();
        let prev_td = if s > 0 && s <= t + 1 { td_at(s - 1) } else { U256::zero() };
        let jitter = |x: U256, rng: &mut Rng| -> U256 {
            match rng.below(4) {
                0 => x,
                1 => x + U256::one(),
                2 => {
                    if x.is_zero() { x } else { x - U256::one() }
                }
                _ => x + U256::from(rng.below(7)),
            }
        };
        let boundary: U256 = match rng.below(100) {
            0..=59 if s < l => jitter(td_at(s + rng.below(l - s)), rng),
            60..=69 => U256::zero(),
            70..=79 => td_at(l) + U256::from(rng.below(5)),
            80..=84 => U256::max_value(),
            85..=89 => prev_td.clone(),
            _ => jitter(td_at(rng.below(t + 1)), rng),
        };
        let mut difficulties: Vec<U256> = vec![];
        let kd = match rng.below(10) {
            0..=2 => 0,
            3..=8 => 1 + rng.usize_below(5),
            _ => 6 + rng.usize_below(10),
        };
        if s < l {
            for _ in 0..kd {
                let d = jitter(td_at(s + rng.below(l - s)), rng);
                if d > prev_td && d < boundary {
                    difficulties.push(d);
                }
            }
        }
        difficulties.sort();
        difficulties.dedup();
        // a request as a client that proved the chain up to `s` would send it: boundary and
        // sampled difficulties inside [s, l), few last blocks
        let block_d = v.td[0].clone();
        let (s, start_hash, last_n, boundary, mut difficulties) = if l_num.is_some() && l >= 6 && rng.chance(35, 100) {
            let s = rng.below(l - 4);
            let last_n = 1 + rng.below(3);
            let bmax = l - last_n; // >= s + 2
            let bstar = s + 1 + rng.below(bmax - s);
            let sub = |x: U256, rng: &mut Rng| -> U256 {
                // stay inside (td[i-1], td[i]]
                let w = rng.below(256);
                let w = U256::from(w);
                if w < block_d { x - w } else { x }
            };
            let boundary = sub(td_at(bstar), rng);
            let mut ds = vec![];
            for _ in 0..(1 + rng.usize_below(5)) {
                let i = s + rng.below(bstar - s);
                ds.push(sub(td_at(i), rng));
            }
            ds.sort();
            ds.dedup();
            let start_hash = if rng.chance(70, 100) {
                v.chain[s as usize]
            } else {
                v.abandoned.iter().find(|x| v.rc.get(x).number == s).cloned().unwrap_or_else(|| random_hash(rng))
            };
            self.r.count("light.req.GetLastStateProof.client_like");
            (s, start_hash, last_n, boundary, ds)
        } else {
            (s, start_hash, last_n, boundary, difficulties)
        };
        let prev_td = if s > 0 && s <= t + 1 { td_at(s - 1) } else { U256::zero() };
        let variant = match rng.below(100) {
            0..=2 if difficulties.len() >= 2 => {
                difficulties.swap(0, 1);
                "unsorted"
            }
            3..=4 if !difficulties.is_empty() => {
                let d = difficulties[0].clone();
                difficulties.insert(0, d);
                "equal_difficulties"
            }
            5..=7 => {
                difficulties.push(boundary.clone());
                "difficulty_equals_boundary"
            }
            8..=10 if s > 0 => {
                difficulties.insert(0, if rng.bool() { prev_td.clone() } else if prev_td.is_zero() { prev_td.clone() } else { prev_td.clone() - one.clone() });
                "first_difficulty_too_small"
            }
            11..=12 => {
                // 1000 - 2 * last_n entries is the limit
                let k = 1001usize.saturating_sub((last_n.min(600) as usize) * 2);
                let base = difficulties.last().cloned().unwrap_or_else(|| prev_td.clone());
                difficulties.extend((1..=k as u64).map(|i| base.clone() + U256::from(i)));
                "many_difficulties"
            }
            _ => "normal",
        };
        let q = LspReq { last, start_hash, start_number: s, last_n, boundary, difficulties };
        let content = packed::GetLastStateProof::new_builder()
            .last_hash(b32(&q.last))
            .start_hash(b32(&q.start_hash))
            .start_number(q.start_number)
            .last_n_blocks(q.last_n)
            .difficulty_boundary(q.boundary.clone())
            .difficulties(packed::Uint256Vec::new_builder().set(q.difficulties.iter().map(|d| d.into()).collect()).build())
            .build();
        let msg = packed::LightClientMessage::new_builder().set(content).build();
        let start_class = if s > t { "above_tip" } else if v.chain[s as usize] == q.start_hash { "on_chain" } else { "off_chain" };
        let req = json!({
            "kind": "GetLastStateProof", "variant": variant,
            "last_hash": vbase::hex(&q.last), "last_class": lclass.s(), "last_number": l_num,
            "tip": format!("{}#{}", hx(&v.tip), t),
            "start_number": s, "start_hash": vbase::hex(&q.start_hash), "start_class": start_class,
            "last_n_blocks": last_n, "difficulty_boundary": format!("{:#x}", q.boundary),
            "difficulties": q.difficulties.iter().take(20).map(|d| format!("{d:#x}")).collect::<Vec<_>>(),
            "n_difficulties": q.difficulties.len(),
            "block_difficulty": format!("{:#x}", v.td[0]),
        });
        self.r.count("light.req.GetLastStateProof");
        self.r.count(&format!("light.req.GetLastStateProof.variant.{variant}"));
        self.r.count(&format!("light.last_class.{}", lclass.s()));
        self.r.count(&format!("light.req.GetLastStateProof.last.{}", lclass.s()));
        self.r.count(&format!("light.req.GetLastStateProof.start.{start_class}"));
        // expectation: the size limit is checked before last_hash, everything else after it
        let over_limit = (q.difficulties.len() as u128) + (q.last_n as u128) * 2 > 1000;
        let model = if over_limit {
            LspExpect::Refusal("over_limit")
        } else if l_num.is_none() {
            LspExpect::Numbers { reorg: vec![], sampled: vec![], last_n: vec![] } // tip state
        } else {
            lsp_model(v, l, &q)
        };
        let exp = match &model {
            LspExpect::Refusal(w) => Expect::Refusal(w),
            LspExpect::Unprovable(w) => Expect::Unprovable(w),
            LspExpect::Numbers { .. } => Expect::Reply,
        };
        let cause = match exp {
            _ if last_n >= (1u64 << 62) => "huge_last_n_blocks",
            Expect::Refusal(w) => w,
            Expect::Unprovable(w) => w,
            _ if lclass == LastClass::Genesis => "last_hash_genesis",
            Expect::Reply => "valid_request",
        };
        let out = self.call(n, msg.as_bytes());
        let Some(data) = self.settle(c, kind, lclass, exp, cause, &req, &out) else { return };
        let parsed = packed::LightClientMessageReader::from_compatible_slice(&data).ok().and_then(|m| match m.to_enum() {
            packed::LightClientMessageUnionReader::SendLastStateProof(s) => packed::SendLastStateProof::from_slice(s.as_slice()).ok(),
            _ => None,
        });
        let Some(rep) = parsed else {
            self.unparsable(c, kind, &req, &out, "not a SendLastStateProof");
            return;
        };
        let Some((lh, tip_state)) = self.judge_last_header(v, c, kind, lclass, &q.last, &rep.last_header(), &req, &out) else { return };
        if tip_state {
            self.judge_tip_state_empty(c, kind, lclass, rep.proof().len(), rep.headers().len(), 0, &req, &out);
            self.r.count("light.replies_verified");
            self.r.count("light.replies_verified.last_state_proof");
            self.r.distinct_str(&format!("light:{kind}:{}:tip_state", lclass.s()));
            return;
        }
        // check 3: every served header is the main-chain block below `last` at its number
        let mut bad = false;
        let mut numbers: Vec<u64> = vec![];
        let mut leaves: Vec<(u64, Digest)> = vec![];
        for vh in rep.headers().into_iter() {
            let hv = vh.header().into_view();
            let x = blake2b_256(vh.header().as_slice());
            self.r.eval();
            match v.num_of.get(&x) {
                Some(num) if *num < lh.number => {
                    if numbers.contains(num) {
                        bad = true;
                        self.r.violation("light.last_state_proof.header_returned_twice", format!("header #{num} returned twice"), self.wit(c, &req, &out, json!({})));
                        continue;
                    }
                    if !self.judge_verifiable(v, c, kind, "header", lclass, *num, &vh, &req, &out) {
                        bad = true;
                    }
                    numbers.push(*num);
                    leaves.push((*num, digest_of_header(&hv)));
                }
                other => {
                    bad = true;
                    let what = match other {
                        Some(num) => format!("main-chain block #{num}, not below last #{}", lh.number),
                        None if v.rc.contains(&x) => format!("block {}#{} of an abandoned branch", hx(&x), hv.number()),
                        None => "an unknown header".to_string(),
                    };
                    self.r.violation(
                        &format!("light.last_state_proof.returned_header_not_on_main_chain_below_last@last_hash_{}", lclass.s()),
                        format!("served header {} is {what}", hx(&x)),
                        self.wit(c, &req, &out, json!({"header": vbase::hex(&x)})),
                    );
                }
            }
        }
        self.r.count_n("light.items_proved.header", numbers.len() as u64);
        // the sampling rule
        if let LspExpect::Numbers { reorg, sampled, last_n: tail } = &model {
            let want: Vec<u64> = reorg.iter().chain(sampled.iter()).chain(tail.iter()).cloned().collect();
            self.r.eval();
            self.r.count_n("light.lsp.expected.reorg_blocks", reorg.len() as u64);
            self.r.count_n("light.lsp.expected.sampled_blocks", sampled.len() as u64);
            self.r.count_n("light.lsp.expected.last_n_blocks", tail.len() as u64);
            if want != numbers {
                bad = true;
                let w: BTreeSet<u64> = want.iter().cloned().collect();
                let g: BTreeSet<u64> = numbers.iter().cloned().collect();
                let sig = if w == g {
                    "light.last_state_proof.headers_in_unexpected_order"
                } else if !reorg.iter().all(|x| g.contains(x)) {
                    "light.last_state_proof.blocks_before_a_reorganised_start_not_served"
                } else if !tail.iter().all(|x| g.contains(x)) {
                    "light.last_state_proof.last_n_or_boundary_blocks_not_served"
                } else if !sampled.iter().all(|x| g.contains(x)) {
                    "light.last_state_proof.sampled_block_not_served"
                } else {
                    "light.last_state_proof.headers_beyond_the_sampling_rule"
                };
                self.r.violation(
                    sig,
                    format!("served header numbers {numbers:?}; the sampling rule on the model chain gives reorg {reorg:?} + sampled {sampled:?} + last-n/boundary {tail:?} (last #{}, start #{s} {start_class}, last_n {last_n})", lh.number),
                    self.wit(c, &req, &out, json!({"served": numbers, "expected": want})),
                );
            }
            self.r.distinct_str(&format!(
                "light:{kind}:{}:{start_class}:reorg{}:sampled{}:tail{}",
                lclass.s(), reorg.len().min(3), sampled.len().min(3), tail.len().min(3)
            ));
        } else {
            self.r.distinct_str(&format!("light:{kind}:{}:{start_class}:replied_to_{variant}", lclass.s()));
        }
        self.judge_proof(v, c, kind, lclass, &lh, &rep.proof(), leaves, &req, &out);
        if !bad {
            self.r.count("light.replies_verified");
            self.r.count("light.replies_verified.last_state_proof");
        }
        if self.r.samples.len() < 6 && numbers.len() >= 4 && variant == "normal" {
            self.r.sample(json!({"kind": "GetLastStateProof", "session": c.si, "last": format!("{}#{} ({})", hx(&lh.hash), lh.number, lclass.s()),
                "start": format!("#{s} {start_class}"), "last_n": last_n, "served_numbers": numbers, "proof_items": rep.proof().len()}));
        }
    }

    // -----------------------------------------------------------------------------------
    // bytes that are not a light-client message, and messages only a server sends

    fn malformed(&mut self, n: &Node, v: &View, c: &Ctx, rng: &mut Rng) {
        let kind = "malformed";
        let (data, what): (Bytes, &str) = match rng.below(4) {
            0 => {
                let k = 1 + rng.usize_below(80);
                (Bytes::from(rng.bytes(k)), "random_bytes")
            }
            1 => {
                // a valid message cut short
                let content = packed::GetBlocksProof::new_builder().last_hash(b32(&v.tip)).block_hashes(packed::Byte32Vec::new_builder().set(vec![b32(&v.chain[0])]).build()).build();
                let m = packed::LightClientMessage::new_builder().set(content).build().as_bytes();
                let cut = 1 + rng.usize_below(m.len() - 1);
                (m.slice(..cut), "truncated")
            }
            2 => {
                // a server-side message
                let content = packed::SendLastState::new_builder().build();
                (packed::LightClientMessage::new_builder().set(content).build().as_bytes(), "server_message")
            }
            _ => {
                // a valid message with trailing bytes
                let content = packed::GetLastState::new_builder().subscribe(false).build();
                let mut m = packed::LightClientMessage::new_builder().set(content).build().as_bytes().to_vec();
                let k = 1 + rng.usize_below(8);
                m.extend_from_slice(&rng.bytes(k));
                (Bytes::from(m), "trailing_bytes")
            }
        };
        let req = json!({"kind": "malformed", "what": what, "bytes": vbase::hex(&data[..data.len().min(120)])});
        self.r.count("light.req.malformed");
        self.r.count(&format!("light.req.malformed.{what}"));
        let out = self.call(n, data);
        if let Some(_reply) = self.settle(c, kind, LastClass::Unknown, Expect::Refusal(what), what, &req, &out) {
            self.r.violation(
                &format!("light.malformed.reply_to_{what}"),
                format!("bytes that are not a light-client request ({what}) were answered with a message"),
                self.wit(c, &req, &out, json!({})),
            );
        }
        self.r.distinct_str(&format!("light:malformed:{what}:{}", out.tag()));
    }

    // -----------------------------------------------------------------------------------

    /// One probe point: a batch of requests against the node's current state.
    pub fn probe(&mut self, n: &Node, rc: &RefChain, delivered: &HashSet<H>, rng: &mut Rng, c: &Ctx, batch: u64) {
        let tip = h(&n.tip_hash());
        if !rc.contains(&tip) {
            self.r.inconclusive("harness: tip of the node under test is not a generated block (light part)");
            return;
        }
        let v = View::build(rc, tip, delivered);
        self.r.count("light.probes");
        if !v.abandoned.is_empty() {
            self.r.count("light.probes_with_abandoned_blocks");
        }
        if !v.tx_abandoned_only.is_empty() {
            self.r.count("light.probes_with_abandoned_only_transactions");
        }
        self.r.count_n("light.abandoned_blocks_in_store_at_probes", v.abandoned.len() as u64);
        self.get_last_state(n, &v, c, rng);
        for _ in 0..batch {
            match rng.below(10) {
                0..=3 => self.get_last_state_proof(n, &v, c, rng),
                4..=6 => self.get_blocks_proof(n, &v, c, rng),
                _ => self.get_transactions_proof(n, &v, c, rng),
            }
        }
        if rng.chance(1, 2) {
            self.malformed(n, &v, c, rng);
        }
    }
}
