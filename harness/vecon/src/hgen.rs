//! History generation for C06: long random histories on the builder node (TreeGen) with tiny
//! epochs, lowered halving interval, high-fee transactions in load waves (so that commits
//! happen at every offset of the proposal window), forks / uncles, and REAL NervosDAO flows
//! (deposit -> phase-1 withdraw -> phase-2 withdraw) validated by the bundled dao system script.
//!
//! Nothing here decides a verdict: the numbers the node produced are exported as JSONL
//! (see rec.rs) and judged by /verif/oracles/econ.py.

use ckb_types::core::{EpochNumberWithFraction, TransactionView};
use ckb_types::packed::{self, OutPoint, WitnessArgs};
use ckb_types::{bytes::Bytes, prelude::*};
use std::collections::{HashMap, HashSet};
use vbase::{Rng, Tier};
use vnode::builder::{self, OutSpec};
use vnode::consensus::{ChainParams, EpochMode, GenesisInfo};
use vnode::model::{H, State, h};
use vnode::treegen::{TreeCfg, TreeGen};

pub const SHANNONS: u64 = 100_000_000;
pub const DAO_LOCK_PERIOD_EPOCHS: u64 = 180;
const SINCE_ABSOLUTE_EPOCH: u64 = 0x2000_0000_0000_0000;

#[derive(Clone, Debug)]
pub struct Plan {
    pub index: u64,
    pub params: ChainParams,
    #[allow(dead_code)]
    pub genesis_len: u64,
    pub epoch_len: u64,
    pub n_blocks: usize,
    pub fork_pm: u64,
    pub max_fork_depth: u64,
    pub n_flows: usize,
    pub wave_period: u64,
    /// secondary epoch reward in force after genesis (None: the spec's). A tiny value makes
    /// finalised rewards straddle the occupied capacity of the cellbase output, so that the
    /// "reward too small to create a cell" rule is exercised.
    pub low_secondary: Option<u64>,
    pub tree: TreeCfg,
}

/// Deterministic plan of history `hi` for (seed, tier).
pub fn plan(rng: &mut Rng, hi: u64, tier: Tier, blocks_override: Option<u64>) -> Plan {
    let mut p = ChainParams::default();
    // proposal windows (2,10) and (1,3) alternate
    p.window = if hi % 2 == 0 { (2, 10) } else { (1, 3) };
    let (genesis_len, epoch_len) = match tier {
        Tier::Quick => {
            if hi == 0 {
                (2 + rng.below(3), 2)
            } else if hi == 3 {
                (2 + rng.below(7), 2 + rng.below(2))
            } else {
                (2 + rng.below(7), 3 + rng.below(6))
            }
        }
        Tier::Thorough => {
            if hi % 4 < 2 {
                (2 + rng.below(7), 2 + rng.below(2))
            } else {
                (2 + rng.below(7), 2 + rng.below(7))
            }
        }
    };
    let low_secondary = match tier {
        Tier::Quick => hi == 5,
        Tier::Thorough => hi % 8 == 5,
    };
    let epoch_len = if low_secondary { 2 + rng.below(2) } else { epoch_len };
    p.epoch = EpochMode::Permanent {
        genesis_len,
        epoch_len,
    };
    // halving interval lowered: mostly 3..6 epochs, sometimes long enough that the primary
    // reward stays large for the whole history
    p.halving_interval = Some(match hi % 3 {
        0 => 3 + rng.below(4),
        1 => 3 + rng.below(4) + 8 * rng.below(3),
        _ => 40 + rng.below(200),
    });
    if low_secondary {
        p.halving_interval = Some(3 + rng.below(3));
    }
    p.issued_cells = 48;
    p.issued_capacity_ckb = 100_000;
    p.max_uncles_num = Some(2);
    // a full DAO cycle needs 180 epochs after the deposit
    let dao_need = (genesis_len + (DAO_LOCK_PERIOD_EPOCHS + 30) * epoch_len + 120) as usize;
    let n_blocks = match blocks_override {
        Some(n) => n as usize,
        None => match tier {
            Tier::Quick => {
                if hi == 0 {
                    dao_need.max(820)
                } else if hi == 3 {
                    dao_need.max(820).min(1200)
                } else {
                    600 + rng.usize_below(300)
                }
            }
            Tier::Thorough => {
                let want = 800 + rng.usize_below(2200);
                if hi % 4 < 2 || epoch_len <= 4 {
                    want.max(dao_need).min(3000)
                } else {
                    want
                }
            }
        },
    };
    let tree = TreeCfg {
        n_blocks,
        fork_pm: 0,
        max_fork_depth: 0,
        max_new_txs: 2 + rng.usize_below(3),
        chain_pm: 250,
        conflict_pm: 40,
        uncle_pm: 600,
        junk_proposals: 1,
        invalid: 0,
        ts_step_max: 12_000,
        ..Default::default()
    };
    Plan {
        index: hi,
        params: p,
        genesis_len,
        epoch_len,
        n_blocks,
        fork_pm: 50 + rng.below(70),
        max_fork_depth: 1 + rng.below(6),
        n_flows: 6 + rng.usize_below(6),
        wave_period: 50 + rng.below(60),
        low_secondary: if low_secondary { Some((20 + rng.below(180)) * epoch_len * SHANNONS + rng.below(SHANNONS)) } else { None },
        tree,
    }
}

// ---------------------------------------------------------------------------------------
// plain-data helpers on the model

pub fn dao_fields(dao: &[u8]) -> (u64, u64, u64, u64) {
    let f = |i: usize| u64::from_le_bytes(dao[i * 8..i * 8 + 8].try_into().unwrap());
    // (C, AR, S, U)
    (f(0), f(1), f(2), f(3))
}

/// Own occupied-capacity formula (RFC-0002 cell model): capacity field 8 bytes + lock
/// (code_hash 32 + hash_type 1 + args) + optional type (same) + data, in shannons.
pub fn occupied_formula(lock_args: usize, type_args: Option<usize>, data_len: usize) -> u64 {
    let mut n = 8 + 32 + 1 + lock_args + data_len;
    if let Some(t) = type_args {
        n += 32 + 1 + t;
    }
    n as u64 * SHANNONS
}

pub struct OutInfo {
    pub capacity: u64,
    pub lock_args: usize,
    pub type_args: Option<usize>,
    pub is_dao: bool,
    pub is_plain: bool,
    pub lock_args_bytes: Vec<u8>,
}

pub fn out_info(gi: &GenesisInfo, output: &[u8]) -> OutInfo {
    let out = packed::CellOutput::from_slice(output).expect("cell output bytes");
    let lock = out.lock();
    let ty = out.type_().to_opt();
    let is_dao = ty
        .as_ref()
        .map(|t| {
            t.code_hash() == gi.dao_type_script.code_hash()
                && t.hash_type() == gi.dao_type_script.hash_type()
        })
        .unwrap_or(false);
    let is_plain = ty.is_none()
        && lock.code_hash() == gi.always_success_script.code_hash()
        && lock.hash_type() == gi.always_success_script.hash_type();
    OutInfo {
        capacity: out.capacity().into(),
        lock_args: lock.args().raw_data().len(),
        type_args: ty.as_ref().map(|t| t.args().raw_data().len()),
        is_dao,
        is_plain,
        lock_args_bytes: lock.args().raw_data().to_vec(),
    }
}

fn key(op: &OutPoint) -> (H, u32) {
    let i: u32 = op.index().into();
    (h(&op.tx_hash()), i)
}

fn out_point(k: &(H, u32)) -> OutPoint {
    OutPoint::new(packed::Byte32::from_slice(&k.0).unwrap(), k.1)
}

/// Transactions proposed on the path to `tip` that could still be committed by a child of
/// `tip` or later (distance to the next block <= w_far), not yet committed.
pub fn pending_on_path(tg: &TreeGen, tip: &H, st: &State) -> Vec<TransactionView> {
    let (_, w_far) = tg.rc.window;
    let n = tg.rc.get(tip).number + 1;
    let mut out = vec![];
    let mut cur = *tip;
    loop {
        let rec = tg.rc.get(&cur);
        if rec.number == 0 || n - rec.number > w_far {
            break;
        }
        if let Some(i) = tg.info.get(&cur) {
            for tx in &i.proposed {
                if !st.tx_info.contains_key(&h(&tx.hash())) {
                    out.push(tx.clone());
                }
            }
        }
        cur = rec.parent;
    }
    out
}

fn epoch_ge(a: EpochNumberWithFraction, b: EpochNumberWithFraction) -> bool {
    if a.number() != b.number() {
        return a.number() > b.number();
    }
    a.index() * b.length() >= b.index() * a.length()
}

/// Minimal `since` of a phase-2 withdraw as the dao system script computes it (dao.c): the
/// deposit point plus the smallest multiple of 180 epochs covering deposit..withdraw.
pub fn minimal_since(
    dep: EpochNumberWithFraction,
    wd: EpochNumberWithFraction,
) -> (u64, EpochNumberWithFraction) {
    let mut deposited = wd.number() - dep.number();
    if wd.index() * dep.length() > dep.index() * wd.length() {
        deposited += 1;
    }
    let mut lock = deposited.div_ceil(DAO_LOCK_PERIOD_EPOCHS) * DAO_LOCK_PERIOD_EPOCHS;
    if lock < DAO_LOCK_PERIOD_EPOCHS {
        lock = DAO_LOCK_PERIOD_EPOCHS;
    }
    let e = EpochNumberWithFraction::new(dep.number() + lock, dep.index(), dep.length());
    (SINCE_ABSOLUTE_EPOCH | e.full_value(), e)
}

/// Generator-side maximum withdraw (own integer formula from RFC-0023; u128 intermediate).
pub fn max_withdraw(capacity: u64, occupied: u64, ar_deposit: u64, ar_withdraw: u64) -> u64 {
    let counted = (capacity - occupied) as u128;
    (counted * ar_withdraw as u128 / ar_deposit as u128) as u64 + occupied
}

// ---------------------------------------------------------------------------------------
// NervosDAO flows

pub struct Flow {
    pub start_at: u64,
    pub amount: u64,
    pub lock_arg: u8,
    pub p1_wait: u64,
    /// 0: ask exactly the maximum; 1: leave a fee; 2: extra plain input + fee
    pub p2_mode: u8,
    pub p1_extra_input: bool,
    pub deposit: Option<TransactionView>,
    pub p1: Option<(TransactionView, H)>,
    pub p2: Option<(TransactionView, H, H)>,
}

pub struct Workload {
    pub flows: Vec<Flow>,
    /// tx hashes of phase-2 withdrawals built to take exactly the maximum
    pub asked_max: HashSet<H>,
    pub dao_kind: HashMap<H, &'static str>,
    pub wave_period: u64,
    pub whales_built: u64,
}

impl Workload {
    pub fn new(plan: &Plan, rng: &mut Rng) -> Workload {
        let mut flows = vec![];
        let lock_blocks = DAO_LOCK_PERIOD_EPOCHS * plan.epoch_len;
        for i in 0..plan.n_flows {
            // the first flows start early so that their 180-epoch lock can expire in time;
            // later ones are spread over the history (some never reach phase 2)
            let start_at = if i < 4 {
                2 + rng.below(20)
            } else {
                2 + rng.below((plan.n_blocks as u64).saturating_sub(40).max(3))
            };
            let p1_wait = match i % 4 {
                0 => rng.below(4),
                1 => 5 + rng.below(60),
                // phase 1 after more than one lock period: the lock becomes 360 epochs
                2 if (plan.n_blocks as u64) > 2 * lock_blocks + 200 => lock_blocks + rng.below(40),
                _ => rng.below(lock_blocks / 2 + 1),
            };
            flows.push(Flow {
                start_at,
                amount: (500 + rng.below(15_000)) * SHANNONS + rng.below(SHANNONS),
                lock_arg: rng.below(4) as u8,
                p1_wait,
                p2_mode: (i % 3) as u8,
                p1_extra_input: rng.bool(),
                deposit: None,
                p1: None,
                p2: None,
            });
        }
        Workload {
            flows,
            asked_max: HashSet::new(),
            dao_kind: HashMap::new(),
            wave_period: plan.wave_period,
            whales_built: 0,
        }
    }

    /// Transactions to propose in the child of `tip`.
    pub fn step(&mut self, tg: &TreeGen, tip: &H, rng: &mut Rng) -> Vec<TransactionView> {
        let gi = &tg.gi;
        let st = tg.rc.replay(tip);
        let tip_rec = tg.rc.get(tip);
        let tip_n = tip_rec.number;
        let tip_epoch = tip_rec.block.epoch();
        let pending = pending_on_path(tg, tip, &st);
        let pending_ids: HashSet<H> = pending.iter().map(|t| h(&t.hash())).collect();
        let mut reserved: HashSet<(H, u32)> = HashSet::new();
        for tx in &pending {
            for op in tx.input_pts_iter() {
                reserved.insert(key(&op));
            }
        }
        // candidate plain cells (one scan per step)
        let mut plain: Vec<((H, u32), u64)> = vec![];
        for (k, c) in st.cells.iter() {
            if reserved.contains(k) {
                continue;
            }
            let oi = out_info(gi, &c.output);
            if oi.is_plain && oi.capacity >= 400 * SHANNONS {
                plain.push((*k, oi.capacity));
            }
        }
        let take_plain = |rng: &mut Rng, min: u64, reserved: &mut HashSet<(H, u32)>| -> Option<((H, u32), u64)> {
            if plain.is_empty() {
                return None;
            }
            let start = rng.usize_below(plain.len());
            for j in 0..plain.len().min(64) {
                let (k, cap) = plain[(start + j) % plain.len()];
                if cap >= min && !reserved.contains(&k) {
                    reserved.insert(k);
                    return Some((k, cap));
                }
            }
            None
        };
        let live = |k: &(H, u32)| st.cells.contains_key(k);
        let mut extras: Vec<TransactionView> = vec![];
        let propose = |tx: &TransactionView, rng: &mut Rng, extras: &mut Vec<TransactionView>| {
            // propose when not pending; sometimes re-propose inside the window
            if !pending_ids.contains(&h(&tx.hash())) || rng.chance(120, 1000) {
                extras.push(tx.clone());
            }
        };

        for fi in 0..self.flows.len() {
            let f = &mut self.flows[fi];
            if tip_n < f.start_at {
                continue;
            }
            if let Some((p2, _, _)) = &f.p2 {
                if st.tx_info.contains_key(&h(&p2.hash())) {
                    continue; // completed on this chain
                }
            }
            let dep_info = f.deposit.as_ref().and_then(|t| st.tx_info.get(&h(&t.hash())));
            let Some(di) = dep_info else {
                // deposit not committed on this chain
                let stale = match &f.deposit {
                    None => true,
                    Some(t) => t.input_pts_iter().any(|op| !live(&key(&op))),
                };
                if stale {
                    let fee = rng.below(SHANNONS);
                    let Some((k, cap)) = take_plain(rng, f.amount + 200 * SHANNONS + fee, &mut reserved) else {
                        continue;
                    };
                    let lock = builder::lock_with_args(gi, &[f.lock_arg]);
                    let outs = vec![
                        OutSpec {
                            capacity: f.amount,
                            lock: lock.clone(),
                            type_: Some(gi.dao_type_script.clone()),
                            data: vec![0u8; 8],
                        },
                        OutSpec {
                            capacity: cap - f.amount - fee,
                            lock: builder::lock_with_args(gi, &[rng.below(4) as u8]),
                            type_: None,
                            data: { let n = rng.usize_below(12); rng.bytes(n) },
                        },
                    ];
                    let tx = builder::build_tx(gi, &[(out_point(&k), 0)], &outs, &[gi.dao_dep.clone()], &[], None);
                    self.dao_kind.insert(h(&tx.hash()), "deposit");
                    f.deposit = Some(tx);
                    f.p1 = None;
                    f.p2 = None;
                }
                let tx = f.deposit.clone().unwrap();
                propose(&tx, rng, &mut extras);
                continue;
            };
            let dep_block = di.block_hash;
            let dep_number = di.block_number;
            let dep_tx = f.deposit.clone().unwrap();
            let dep_op = OutPoint::new(dep_tx.hash(), 0);
            let p1_info = f
                .p1
                .as_ref()
                .filter(|(_, d)| *d == dep_block)
                .and_then(|(t, _)| st.tx_info.get(&h(&t.hash())));
            let Some(wi) = p1_info else {
                if tip_n < dep_number + f.p1_wait {
                    continue;
                }
                let stale = match &f.p1 {
                    None => true,
                    Some((t, d)) => *d != dep_block || t.input_pts_iter().any(|op| !live(&key(&op))),
                };
                if stale {
                    let lock = builder::lock_with_args(gi, &[f.lock_arg]);
                    let mut inputs = vec![(dep_op.clone(), 0u64)];
                    let mut outs = vec![OutSpec {
                        capacity: f.amount,
                        lock,
                        type_: Some(gi.dao_type_script.clone()),
                        data: dep_number.to_le_bytes().to_vec(),
                    }];
                    if f.p1_extra_input {
                        if let Some((k, cap)) = take_plain(rng, 400 * SHANNONS, &mut reserved) {
                            let fee = rng.below(150 * SHANNONS);
                            inputs.push((out_point(&k), 0));
                            outs.push(OutSpec {
                                capacity: cap - fee,
                                lock: builder::lock_with_args(gi, &[rng.below(4) as u8]),
                                type_: None,
                                data: vec![],
                            });
                        }
                    }
                    let witness = if rng.bool() {
                        Some(
                            WitnessArgs::new_builder()
                                .input_type(Some(Bytes::from(0u64.to_le_bytes().to_vec())))
                                .build()
                                .as_bytes()
                                .to_vec(),
                        )
                    } else {
                        None
                    };
                    let hd = packed::Byte32::from_slice(&dep_block).unwrap();
                    let tx = builder::build_tx(gi, &inputs, &outs, &[gi.dao_dep.clone()], &[hd], witness);
                    self.dao_kind.insert(h(&tx.hash()), "phase1");
                    f.p1 = Some((tx, dep_block));
                    f.p2 = None;
                }
                let tx = f.p1.as_ref().unwrap().0.clone();
                propose(&tx, rng, &mut extras);
                continue;
            };
            // phase 1 committed on this chain in block `wd_block`
            let wd_block = wi.block_hash;
            let p1_tx = f.p1.as_ref().unwrap().0.clone();
            let dep_hdr = tg.rc.get(&dep_block).block.header();
            let wd_hdr = tg.rc.get(&wd_block).block.header();
            let (since, since_epoch) = minimal_since(dep_hdr.epoch(), wd_hdr.epoch());
            let stale = match &f.p2 {
                None => true,
                Some((t, d, w)) => {
                    *d != dep_block || *w != wd_block || t.input_pts_iter().any(|op| !live(&key(&op)))
                }
            };
            if stale {
                let wd_cell = st.cells.get(&(h(&p1_tx.hash()), 0)).expect("withdrawing cell live");
                let oi = out_info(gi, &wd_cell.output);
                let occ = occupied_formula(oi.lock_args, oi.type_args, wd_cell.data.len());
                let (_, ar_d, _, _) = dao_fields(dep_hdr.dao().as_slice());
                let (_, ar_w, _, _) = dao_fields(wd_hdr.dao().as_slice());
                let max = max_withdraw(oi.capacity, occ, ar_d, ar_w);
                let mut inputs = vec![(OutPoint::new(p1_tx.hash(), 0), since)];
                let mut total = max;
                let mut fee = 0;
                if f.p2_mode >= 1 {
                    fee = rng.below(60 * SHANNONS);
                }
                if f.p2_mode == 2 {
                    if let Some((k, cap)) = take_plain(rng, 400 * SHANNONS, &mut reserved) {
                        inputs.push((out_point(&k), 0));
                        total += cap;
                    }
                }
                let outs = vec![OutSpec {
                    capacity: total - fee,
                    lock: builder::lock_with_args(gi, &[rng.below(4) as u8]),
                    type_: None,
                    data: vec![],
                }];
                let flip = rng.bool();
                let d = packed::Byte32::from_slice(&dep_block).unwrap();
                let w = packed::Byte32::from_slice(&wd_block).unwrap();
                let (hds, idx) = if flip { (vec![w, d], 1u64) } else { (vec![d, w], 0u64) };
                let witness = WitnessArgs::new_builder()
                    .input_type(Some(Bytes::from(idx.to_le_bytes().to_vec())))
                    .build()
                    .as_bytes()
                    .to_vec();
                let tx = builder::build_tx(gi, &inputs, &outs, &[gi.dao_dep.clone()], &hds, Some(witness));
                if fee == 0 {
                    self.asked_max.insert(h(&tx.hash()));
                }
                self.dao_kind.insert(h(&tx.hash()), "phase2");
                f.p2 = Some((tx, dep_block, wd_block));
            }
            if epoch_ge(tip_epoch, since_epoch) {
                let tx = f.p2.as_ref().unwrap().0.clone();
                propose(&tx, rng, &mut extras);
            }
        }

        // high-fee plain transactions in load waves: the commit backlog grows and drains, so
        // that commits are spread over every offset of the proposal window
        let phase = tip_n % self.wave_period;
        let n_whales = if phase < self.wave_period / 3 {
            2 + rng.usize_below(3)
        } else if phase < self.wave_period / 2 {
            rng.usize_below(2)
        } else {
            usize::from(rng.chance(250, 1000))
        };
        for _ in 0..n_whales {
            let Some((k, cap)) = take_plain(rng, 400 * SHANNONS, &mut reserved) else {
                break;
            };
            let fee = match rng.below(4) {
                0 => rng.below(10),
                1 => rng.below(100_000),
                2 => rng.below(30 * SHANNONS),
                _ => rng.below(300 * SHANNONS),
            };
            self.whales_built += 1;
            let mut outs = vec![];
            let rest = cap - fee;
            let n_out = 1 + rng.usize_below(2);
            let salt = self.whales_built.to_le_bytes().to_vec();
            if n_out == 2 && rest >= 300 * SHANNONS {
                let a = 100 * SHANNONS + rng.below(rest - 200 * SHANNONS);
                outs.push(OutSpec {
                    capacity: a,
                    lock: builder::lock_with_args(gi, &[rng.below(4) as u8]),
                    type_: None,
                    data: salt.clone(),
                });
                outs.push(OutSpec {
                    capacity: rest - a,
                    lock: builder::lock_with_args(gi, &[rng.below(4) as u8]),
                    type_: None,
                    data: { let n = rng.usize_below(20); rng.bytes(n) },
                });
            } else {
                outs.push(OutSpec {
                    capacity: rest,
                    lock: builder::lock_with_args(gi, &[rng.below(4) as u8]),
                    type_: None,
                    data: salt,
                });
            }
            let tx = builder::build_tx(gi, &[(out_point(&k), 0)], &outs, &[], &[], None);
            extras.push(tx);
        }
        extras
    }
}

/// The proposals of an included uncle count as proposed by the including block (RFC-0020): make
/// the generator aware of their transaction bodies, so that later blocks can commit
/// transactions whose only in-window proposal sits in an uncle.
pub fn adopt_uncle_proposals(tg: &mut TreeGen, x: &H) {
    let block = tg.rc.get(x).block.clone();
    let mut extra: Vec<TransactionView> = vec![];
    for u in block.uncles().into_iter() {
        // only the uncle's OWN proposals count (not those of the uncle's uncles)
        let own: HashSet<packed::ProposalShortId> = u.data().proposals().into_iter().collect();
        if let Some(i) = tg.info.get(&h(&u.hash())) {
            extra.extend(i.proposed.iter().filter(|t| own.contains(&t.proposal_short_id())).cloned());
        }
    }
    if extra.is_empty() {
        return;
    }
    let info = tg.info.entry(*x).or_default();
    for t in extra {
        if !info.proposed.iter().any(|p| p.hash() == t.hash()) {
            info.proposed.push(t);
        }
    }
}

/// Bounds the memory of RefChain's memoised replay states on long histories without touching
/// vnode: when the estimated size of the cache exceeds the budget, the model is rebuilt from
/// the same blocks (a fresh RefChain has an empty cache; the next replay folds the chain again).
pub struct CacheGuard {
    budget: u64,
    est: u64,
    pub resets: u64,
}

impl CacheGuard {
    pub fn new(budget: u64) -> CacheGuard {
        CacheGuard { budget, est: 0, resets: 0 }
    }

    fn state_bytes(st: &State) -> u64 {
        (st.cells.len() * 330 + st.tx_info.len() * 110 + st.chain.len() * 560) as u64
    }

    pub fn after_block(&mut self, tg: &mut TreeGen, tip: &H) {
        let st = tg.rc.replay(tip);
        let sz = Self::state_bytes(&st);
        self.est += sz + if st.number % 8 == 0 { sz } else { 0 };
        // what a rebuild leaves behind: every 8th state of the path
        let base = st.number / 16 * sz;
        if self.est <= self.budget.max(base + base / 2 + 64 * sz) {
            return;
        }
        drop(st);
        let c = &tg.gi.consensus;
        let mut fresh = vnode::model::RefChain::new(
            c.genesis_block(),
            c.genesis_epoch_ext(),
            tg.rc.window,
            tg.rc.median_count,
        );
        for x in &tg.order {
            let r = tg.rc.get(x);
            fresh.add(&r.block, r.self_valid, r.invalid_rule.as_deref(), r.epoch.clone());
        }
        tg.rc = fresh;
        self.resets += 1;
        self.est = base;
        let _ = tg.rc.replay(tip);
    }
}
