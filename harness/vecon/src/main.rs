fn main() {}
