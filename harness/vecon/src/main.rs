//! vecon — engine for C06 (rewards, fee split and the DAO field follow the issuance rules;
//! nothing else mints).
//!
//! usage: vecon [--seed S] [--tier quick|thorough] [histories=N procs=P blocks=N only=I keep=1]
//!
//! The parent process plans the histories and shards them over child processes
//! (`shard=i nshards=k`). A child generates each history on a builder node (gen.rs), exports
//! one JSONL record per generated block (rec.rs) — every block B ever accepted, on every fork —
//! and runs the offline checker /verif/oracles/econ.py (exact integer arithmetic written from
//! RFC-0015/0019/0020/0023, sharing no code with the Rust calculators) over the file; the
//! checker's mismatches become violations, its crash / timeout an inconclusive run.

mod hgen;
mod rec;

use serde_json::{Value, json};
use std::io::Write;
use std::path::{Path, PathBuf};
use std::process::{Command, Stdio};
use std::time::{Duration, Instant};
use vbase::{Args, Report, Rng, Scratch, Tier};
use vnode::consensus::{self, ChainParams};
use vnode::model::{H, hx};
use vnode::treegen::TreeGen;

const RULE: &str = "every block of long random histories (tiny epochs with remainder rewards, lowered halving interval, \
proposals by different miners in blocks and uncles, re-proposals, commits at every window offset, forks, real NervosDAO \
deposit/phase-1/phase-2 flows) accepted by the builder node is exported (cellbase, header dao, BlockExt.txs_fees, spent \
cells and live-cell totals from the reference model) and recomputed by oracles/econ.py: finalised reward = primary + \
miner share of secondary + committer shares + proposer shares of the earliest in-window proposer; dao recurrence \
(C, AR, S, U); U == occupied capacity of the model's live cells; withdrawals pay counted*AR_w/AR_d + occupied; \
txs_fees == recomputed fees; live capacity == C - S - not yet paid; distinct = hash of a block's economics record";

fn new_report(args: &Args) -> Report {
    let mut r = Report::new("C06", "exploration", args, RULE);
    r.assume("the builder node B accepted every judged block with full contextual verification; the oracle judges the numbers B produced and stored, it does not re-run scripts");
    r.assume("proposal short ids (10 bytes) do not collide within a history");
    r.assume("epoch records (start, length, base reward, remainder) are taken as recorded by the node; their arithmetic is C07's question — here only base*length+remainder == initial >> halvings is checked");
    r.assume("the genesis 'satoshi gift' cell counts capacity*satoshi_cell_occupied_ratio as occupied (consensus parameter)");
    r
}

fn main() {
    let args = Args::parse();
    vnode::node::set_time(ChainParams::default().genesis_timestamp + 3_000_000_000);
    let code = if args.get_str("shard").is_some() {
        child(&args)
    } else {
        parent(&args)
    };
    vnode::node::exit(code)
}

fn oracle_path() -> PathBuf {
    if let Ok(p) = std::env::var("VERIF_ECON_ORACLE") {
        return PathBuf::from(p);
    }
    let local = Path::new(env!("CARGO_MANIFEST_DIR")).join("../../oracles/econ.py");
    if local.exists() {
        return local;
    }
    PathBuf::from("/verif/oracles/econ.py")
}

// ---------------------------------------------------------------------------------------
// parent: shard over processes, merge, thresholds

fn parent(args: &Args) -> i32 {
    let mut report = new_report(args);
    let tier = args.tier;
    let n_hist = args.get_u64("histories", tier.pick(6, 80));
    let procs = args.get_u64("procs", tier.pick(6, 8)).min(n_hist).max(1);
    let scratch = Scratch::new("vecon");
    let exe = std::env::current_exe().expect("current exe");
    let watchdog = Duration::from_secs(args.get_u64("watchdog_s", tier.pick(400, 2400)));
    let start = Instant::now();
    let mut children = vec![];
    for i in 0..procs {
        let out = scratch.join(&format!("shard{i}.json"));
        let mut cmd = Command::new(&exe);
        cmd.arg("--seed")
            .arg(args.seed.to_string())
            .arg("--tier")
            .arg(tier.as_str())
            .arg(format!("shard={i}"))
            .arg(format!("nshards={procs}"))
            .arg(format!("histories={n_hist}"))
            .arg(format!("out={}", out.display()))
            .arg(format!("work={}", scratch.path.display()));
        for k in ["blocks", "only", "keep", "budget_s", "cache_mb"] {
            if let Some(v) = args.get_str(k) {
                cmd.arg(format!("{k}={v}"));
            }
        }
        cmd.stdout(Stdio::null()).stderr(Stdio::piped());
        match cmd.spawn() {
            Ok(c) => children.push((i, out, Some(c))),
            Err(e) => report.inconclusive(&format!("cannot spawn shard {i}: {e}")),
        }
    }
    // wait
    loop {
        let mut running = 0;
        for (_, _, c) in children.iter_mut() {
            if let Some(ch) = c {
                match ch.try_wait() {
                    Ok(Some(_)) => {}
                    Ok(None) => running += 1,
                    Err(_) => {}
                }
            }
        }
        if running == 0 {
            break;
        }
        if start.elapsed() > watchdog {
            for (i, _, c) in children.iter_mut() {
                if let Some(ch) = c {
                    if let Ok(None) = ch.try_wait() {
                        let _ = ch.kill();
                        report.inconclusive(&format!("watchdog: shard {i} killed after {} s", watchdog.as_secs()));
                    }
                }
            }
            break;
        }
        std::thread::sleep(Duration::from_millis(100));
    }
    for (i, out, c) in children.iter_mut() {
        let Some(ch) = c.take() else { continue };
        let output = ch.wait_with_output();
        let (code, stderr) = match output {
            Ok(o) => (o.status.code(), String::from_utf8_lossy(&o.stderr).to_string()),
            Err(e) => (None, format!("{e}")),
        };
        let shard: Option<Value> = std::fs::read_to_string(&*out).ok().and_then(|s| serde_json::from_str(&s).ok());
        match (code, shard) {
            (Some(0..=2), Some(v)) => report.merge_json(&v),
            (code, _) => {
                let tail: Vec<&str> = stderr.lines().rev().take(4).collect();
                report.inconclusive(&format!(
                    "shard {i} died (exit {:?}): {}",
                    code,
                    tail.into_iter().rev().collect::<Vec<_>>().join(" | ")
                ));
            }
        }
    }
    // python assumptions are carried as counters `assume.<text>` by the shards
    let keys: Vec<String> = report.counters.keys().filter(|k| k.starts_with("assume: ")).cloned().collect();
    for k in keys {
        report.assume(k.trim_start_matches("assume: "));
        report.counters.remove(&k);
    }
    if args.get_str("only").is_none() {
        requirements(&mut report, tier);
    }
    report.note("histories_planned", json!(n_hist));
    report.note("processes", json!(procs));
    report.finish(None)
}

fn requirements(r: &mut Report, tier: Tier) {
    let q = |a: u64, b: u64| tier.pick(a, b);
    r.require("histories_judged", q(5, 60));
    r.require("blocks_judged", q(1_000, 30_000));
    r.require("checked.cellbase.amount", q(800, 25_000));
    r.require("checked.dao.recurrence", q(1_000, 30_000));
    r.require("checked.dao.U_vs_live_cells", q(1_000, 30_000));
    r.require("checked.ext.txs_fees", q(1_000, 30_000));
    r.require("checked.conservation.capacity", q(1_000, 30_000));
    r.require("epochs_crossed", q(150, 5_000));
    r.require("halvings_seen", q(2, 100));
    r.require("blocks_with_remainder_reward", q(50, 1_000));
    r.require("blocks_with_uncle_proposals", q(3, 100));
    r.require("fees_paid_proposer_ne_committer_miner", q(100, 5_000));
    r.require("fees_first_proposed_in_uncle", q(1, 30));
    r.require("reproposals_in_window", q(20, 1_000));
    r.require("reproposals_not_paid", q(10, 500));
    r.require("dao_deposits_committed", q(3, 60));
    r.require("dao_phase1_committed", q(2, 40));
    r.require("dao_phase2_committed", q(1, 15));
    r.require("dao_phase2_asked_max", q(1, 5));
    r.require("cellbase_insufficient_reward", q(10, 200));
    r.require("cellbase_paid_reward", q(800, 25_000));
    r.require("reorgs", q(10, 500));
    r.require("chains_judged", q(10, 500));
    // commits at the offsets of both windows
    let mut seen_210 = 0;
    for k in 2..=10 {
        if r.counter(&format!("commit_offset.w2_10.{k}")) > 0 {
            seen_210 += 1;
        } else if tier == Tier::Thorough {
            r.inconclusive(&format!("observed too little: no commit at offset {k} of window (2,10)"));
        }
    }
    if seen_210 < 5 {
        r.inconclusive(&format!("observed too little: commits at only {seen_210} distinct offsets of window (2,10)"));
    }
    for k in 1..=3 {
        if r.counter(&format!("commit_offset.w1_3.{k}")) == 0 {
            r.inconclusive(&format!("observed too little: no commit at offset {k} of window (1,3)"));
        }
    }
}

// ---------------------------------------------------------------------------------------
// child: generate + judge the histories of one shard

fn child(args: &Args) -> i32 {
    let mut report = new_report(args);
    let shard = args.get_u64("shard", 0);
    let nshards = args.get_u64("nshards", 1);
    let n_hist = args.get_u64("histories", 1);
    let out = PathBuf::from(args.get_str("out").expect("out="));
    let work = PathBuf::from(args.get_str("work").expect("work="));
    let only = args.get_str("only").and_then(|s| s.parse::<u64>().ok());
    // panics of the generator (e.g. the builder refusing a block) make that history inconclusive
    let last_panic: std::sync::Arc<std::sync::Mutex<Option<String>>> = Default::default();
    {
        let lp = last_panic.clone();
        let prev = std::panic::take_hook();
        std::panic::set_hook(Box::new(move |info| {
            if std::thread::current().name() == Some("main") {
                *lp.lock().unwrap() = Some(info.to_string());
            }
            prev(info);
        }));
    }
    for hi in 0..n_hist {
        if hi % nshards != shard || only.map(|o| o != hi).unwrap_or(false) {
            continue;
        }
        let res = std::panic::catch_unwind(std::panic::AssertUnwindSafe(|| run_history(args, hi, &work, &mut report)));
        if res.is_err() {
            let msg = last_panic.lock().unwrap().take().unwrap_or_default();
            let msg: String = msg.chars().take(400).collect();
            report.inconclusive(&format!("history {hi}: generator panicked: {msg}"));
        }
    }
    report.finish(Some(&out))
}

fn run_history(args: &Args, hi: u64, work: &Path, report: &mut Report) {
    let t0 = Instant::now();
    let mut rng = Rng::new(args.seed).fork(0xEC06_0000 + hi);
    let plan = hgen::plan(&mut rng, hi, args.tier, args.get_str("blocks").and_then(|s| s.parse().ok()));
    let budget = Duration::from_secs(args.get_u64("budget_s", args.tier.pick(100, 420)));
    let mut gi = consensus::build(&plan.params);
    let genesis_secondary = gi.consensus.secondary_epoch_reward().as_u64();
    if let Some(x) = plan.low_secondary {
        // consensus parameter in force for every block after genesis (the genesis dao field was
        // built with the spec's value, which the params record carries separately)
        gi.consensus.secondary_epoch_reward = ckb_types::core::Capacity::shannons(x);
    }
    let mut tg = TreeGen::new(&gi, plan.tree.clone(), rng.next_u64());
    let mut wl = hgen::Workload::new(&plan, &mut rng);
    let path = work.join(format!("history{hi}.jsonl"));
    let mut f = std::io::BufWriter::new(std::fs::File::create(&path).expect("create jsonl"));
    let wr = |f: &mut std::io::BufWriter<std::fs::File>, v: &Value| {
        serde_json::to_writer(&mut *f, v).unwrap();
        f.write_all(b"\n").unwrap();
    };
    wr(&mut f, &rec::params_record(&gi, &plan, args.seed, genesis_secondary));
    let genesis = tg.rc.genesis;
    wr(&mut f, &rec::block_record(&tg, &wl, &genesis).record);
    let mut cache = hgen::CacheGuard::new(args.get_u64("cache_mb", 400) << 20);
    let mut made = 0usize;
    let mut reorgs = 0u64;
    let mut chains = 0u64;
    let mut max_height = 0u64;
    let mut stopped = false;
    while made < plan.n_blocks {
        if t0.elapsed() > budget {
            stopped = true;
            break;
        }
        let tip = tg.tip();
        let tip_n = tg.rc.get(&tip).number;
        let parent: H = if tip_n > 1 && rng.chance(plan.fork_pm, 1000) {
            // mostly siblings / short forks (they become uncles), sometimes deeper reorgs
            let d = if rng.chance(550, 1000) { 1 } else { 1 + rng.below(plan.max_fork_depth.min(tip_n - 1)) };
            // the chain ending at `tip` is abandoned here: it was the main chain of B until now
            wr(&mut f, &json!({"t": "judge", "tip": vbase::hex(&tip), "number": tip_n, "reason": "before_reorg"}));
            reorgs += 1;
            chains += 1;
            tg.rc.ancestor_at(&tip, tip_n - d).unwrap()
        } else {
            tip
        };
        let extras = wl.step(&tg, &parent, &mut rng);
        let x = tg.extend_ex(&parent, &extras);
        hgen::adopt_uncle_proposals(&mut tg, &x);
        let s = rec::block_record(&tg, &wl, &x);
        cache.after_block(&mut tg, &x);
        wr(&mut f, &s.record);
        report.distinct(s.econ_hash);
        max_height = max_height.max(tg.rc.get(&x).number);
        made += 1;
    }
    let tip = tg.tip();
    wr(&mut f, &json!({"t": "judge", "tip": vbase::hex(&tip), "number": tg.rc.get(&tip).number, "reason": "final"}));
    chains += 1;
    f.flush().unwrap();
    drop(f);
    let gen_s = t0.elapsed().as_secs_f64();
    if stopped {
        report.count("histories_stopped_by_budget");
    }
    for (k, v) in tg.stats.clone() {
        report.count_n(&format!("gen.{k}"), v);
    }
    report.count_n("gen.blocks", made as u64);
    report.count_n("gen.whale_txs", wl.whales_built);
    report.count_n("reorgs", reorgs);
    report.count_n("gen.model_cache_resets", cache.resets);
    let tip_hex = hx(&tip);
    drop(tg);

    // judge offline
    let t1 = Instant::now();
    let timeout = Duration::from_secs(args.tier.pick(120, 600));
    match run_python(&path, timeout) {
        Err(e) => report.inconclusive(&format!("history {hi}: oracle econ.py {e}")),
        Ok(summary) => {
            report.count("histories_judged");
            report.count_n("chains_judged", chains);
            if let Some(c) = summary["checked"].as_object() {
                for (k, v) in c {
                    let n = v.as_u64().unwrap_or(0);
                    report.evals(n);
                    report.count_n(&format!("checked.{k}"), n);
                }
            }
            if let Some(c) = summary["counts"].as_object() {
                for (k, v) in c {
                    report.count_n(k, v.as_u64().unwrap_or(0));
                }
            }
            if let Some(a) = summary["assumptions"].as_array() {
                for s in a {
                    if let Some(s) = s.as_str() {
                        report.assume(s);
                        // carried to the parent through the counters
                        if report.counter(&format!("assume: {s}")) == 0 {
                            report.count(&format!("assume: {s}"));
                        }
                    }
                }
            }
            let replay = format!(
                "cd /verif/harness && cargo run --offline -p vecon -- --seed {} --tier {} only={} keep=1   # keeps /dev/shm/vecon-keep-seed{}-h{}.jsonl for python3 /verif/oracles/econ.py",
                args.seed, args.tier.as_str(), hi, args.seed, hi
            );
            if let Some(ms) = summary["mismatches"].as_array() {
                for m in ms {
                    let rule = m["rule"].as_str().unwrap_or("oracle.unknown_rule");
                    let detail = format!(
                        "history {hi} block #{} {}: expected {} actual {} ({})",
                        m["block"], m["hash"].as_str().unwrap_or(""), m["expected"], m["actual"],
                        m["detail"].as_str().unwrap_or("")
                    );
                    report.violation(
                        rule,
                        detail,
                        json!({"seed": args.seed, "tier": args.tier.as_str(), "history": hi, "plan": format!("{plan:?}"),
                               "mismatch": m, "replay": replay}),
                    );
                }
            }
            // occurrences beyond the listed ones
            if let Some(c) = summary["mismatch_counts"].as_object() {
                for (k, v) in c {
                    let listed = summary["mismatches"].as_array().map(|a| a.iter().filter(|m| m["rule"] == *k).count()).unwrap_or(0) as u64;
                    let n = v.as_u64().unwrap_or(0);
                    if n > listed {
                        report.count_n(&format!("violation::{k}"), n - listed);
                    }
                }
            }
            if report.samples.len() < report.max_samples {
                report.sample(json!({"history": hi, "params": summary["params"], "blocks": made, "height": max_height,
                    "tip": tip_hex, "gen_s": gen_s, "oracle_s": t1.elapsed().as_secs_f64(),
                    "counts": summary["counts"], "sample_block": summary["sample_block"]}));
            }
        }
    }
    if args.get_str("keep").is_some() {
        let _ = std::fs::copy(&path, format!("/dev/shm/vecon-keep-seed{}-h{}.jsonl", args.seed, hi));
    }
    let _ = std::fs::remove_file(&path);
}

fn run_python(file: &Path, timeout: Duration) -> Result<Value, String> {
    let oracle = oracle_path();
    let mut child = Command::new("python3")
        .arg(&oracle)
        .arg(file)
        .stdout(Stdio::piped())
        .stderr(Stdio::piped())
        .spawn()
        .map_err(|e| format!("cannot start: {e}"))?;
    let mut so = child.stdout.take().unwrap();
    let mut se = child.stderr.take().unwrap();
    let t_out = std::thread::spawn(move || {
        let mut s = String::new();
        let _ = std::io::Read::read_to_string(&mut so, &mut s);
        s
    });
    let t_err = std::thread::spawn(move || {
        let mut s = String::new();
        let _ = std::io::Read::read_to_string(&mut se, &mut s);
        s
    });
    let start = Instant::now();
    let status = loop {
        match child.try_wait() {
            Ok(Some(st)) => break st,
            Ok(None) => {
                if start.elapsed() > timeout {
                    let _ = child.kill();
                    let _ = child.wait();
                    return Err(format!("timed out after {} s", timeout.as_secs()));
                }
                std::thread::sleep(Duration::from_millis(20));
            }
            Err(e) => return Err(format!("wait: {e}")),
        }
    };
    let out = t_out.join().unwrap_or_default();
    let err = t_err.join().unwrap_or_default();
    if !status.success() {
        return Err(format!("crashed: {}", err.lines().last().unwrap_or("")));
    }
    serde_json::from_str::<Value>(out.trim()).map_err(|e| format!("printed an unparsable summary: {e}"))
}
